//! Reading and injecting real `VmData<N>` through serde (no repository hook
//! needed: `VmData`, `SsaTape`, `RegTape` and `VarMap` derive
//! Serialize/Deserialize), plus a reference interpreter of SSA tapes that uses
//! the opcode meanings of `fidget_core::context::{UnaryOpcode, BinaryOpcode}`
//! ("the graph evaluated directly, operation by operation").
use crate::keys::{bits, unbits};
use ciborium::Value;
use fidget_core::{
    compiler::{RegTape, SsaOp, SsaTape},
    context::{BinaryOpcode, UnaryOpcode},
    var::{Var, VarMap},
    vm::VmData,
};
use serde_json::json;

/// Generic op: `[class, name, out, a, b, immbits]`
/// class: 0 output(a = reg, b = output index), 1 input(out, a = var slot),
/// 2 copyimm(out, imm), 3 unary(out, a) (incl. "Copy"), 4 reg-imm(out, a, imm),
/// 5 imm-reg(out, a, imm), 6 reg-reg(out, a, b), 7 load(out = reg, a = mem),
/// 8 store(out = mem, a = reg)
#[derive(Clone, Debug, PartialEq)]
pub struct GOp {
    pub class: u8,
    pub name: String,
    pub out: i64,
    pub a: i64,
    pub b: i64,
    pub imm: i64,
}

impl GOp {
    pub fn new(class: u8, name: &str, out: i64, a: i64, b: i64, imm: i64) -> Self {
        GOp { class, name: name.to_string(), out, a, b, imm }
    }
    pub fn json(&self) -> serde_json::Value {
        json!([self.class, self.name, self.out, self.a, self.b, self.imm])
    }
    pub fn is_choice(&self) -> bool {
        matches!(self.class, 4 | 6) && matches!(self.name.as_str(), "Min" | "Max" | "And" | "Or")
    }
}

pub fn ops_json(v: &[GOp]) -> serde_json::Value {
    serde_json::Value::Array(v.iter().map(|g| g.json()).collect())
}

fn vint(v: &Value) -> i64 {
    match v {
        Value::Integer(i) => i128::from(*i) as i64,
        _ => panic!("expected integer, got {v:?}"),
    }
}
fn vf32bits(v: &Value) -> i64 {
    match v {
        Value::Float(f) => bits(*f as f32),
        Value::Integer(i) => bits(i128::from(*i) as f32),
        _ => panic!("expected float, got {v:?}"),
    }
}

/// Converts a serialized `SsaOp` / `RegOp` (externally tagged enum) to a GOp
pub fn gop_of_value(v: &Value) -> GOp {
    let Value::Map(m) = v else { panic!("bad op {v:?}") };
    let (Value::Text(name), Value::Array(a)) = (&m[0].0, &m[0].1) else {
        panic!("bad op {v:?}")
    };
    let i = |k: usize| vint(&a[k]);
    let f = |k: usize| vf32bits(&a[k]);
    match name.as_str() {
        "Output" => GOp::new(0, "Output", -1, i(0), i(1), 0),
        "Input" => GOp::new(1, "Input", i(0), i(1), -1, 0),
        "CopyImm" => GOp::new(2, "CopyImm", i(0), -1, -1, f(1)),
        "Load" => GOp::new(7, "Load", i(0), i(1), -1, 0),
        "Store" => GOp::new(8, "Store", i(1), i(0), -1, 0),
        n if n.ends_with("RegReg") => GOp::new(6, n.trim_end_matches("RegReg"), i(0), i(1), i(2), 0),
        n if n.ends_with("RegImm") => GOp::new(4, n.trim_end_matches("RegImm"), i(0), i(1), -1, f(2)),
        n if n.ends_with("ImmReg") => GOp::new(5, n.trim_end_matches("ImmReg"), i(0), i(1), -1, f(2)),
        n if n.ends_with("Reg") => GOp::new(3, n.trim_end_matches("Reg"), i(0), i(1), -1, 0),
        n => panic!("unknown op {n}"),
    }
}

/// Converts a GOp (classes 0..=6) to a serialized SsaOp
pub fn ssa_value(g: &GOp) -> Value {
    let int = |x: i64| Value::Integer((x as u64).into());
    let flt = |b: i64| Value::Float(unbits(b) as f64);
    let (name, args) = match g.class {
        0 => ("Output".to_string(), vec![int(g.a), int(g.b)]),
        1 => ("Input".to_string(), vec![int(g.out), int(g.a)]),
        2 => ("CopyImm".to_string(), vec![int(g.out), flt(g.imm)]),
        3 => (format!("{}Reg", g.name), vec![int(g.out), int(g.a)]),
        4 => (format!("{}RegImm", g.name), vec![int(g.out), int(g.a), flt(g.imm)]),
        5 => (format!("{}ImmReg", g.name), vec![int(g.out), int(g.a), flt(g.imm)]),
        6 => (format!("{}RegReg", g.name), vec![int(g.out), int(g.a), int(g.b)]),
        c => panic!("class {c} is not an SSA op"),
    };
    Value::Map(vec![(Value::Text(name), Value::Array(args))])
}

pub fn ssa_op(g: &GOp) -> SsaOp {
    ssa_value(g).deserialized::<SsaOp>().unwrap_or_else(|e| panic!("bad ssa op {g:?}: {e:?}"))
}

/// The `i`-th variable identity used for injected programs
pub fn var_of(i: usize) -> Var {
    match i {
        0 => Var::X,
        1 => Var::Y,
        2 => Var::Z,
        k => {
            // VarIndex is serde-transparent over u64
            let v = Value::Map(vec![(Value::Text("V".into()), Value::Integer((1000 + k as u64).into()))]);
            v.deserialized::<Var>().unwrap()
        }
    }
}

/// A complete SSA program (root first, exactly as `SsaTape::tape` stores it)
#[derive(Clone, Debug)]
pub struct Prog {
    pub ssa: Vec<GOp>,
    pub nvars: usize,
}
impl Prog {
    pub fn nout(&self) -> usize {
        self.ssa.iter().filter(|g| g.class == 0).count()
    }
    pub fn nch(&self) -> usize {
        self.ssa.iter().filter(|g| g.is_choice()).count()
    }
    pub fn ssa_tape(&self) -> SsaTape {
        SsaTape {
            tape: self.ssa.iter().map(ssa_op).collect(),
            choice_count: self.nch(),
            output_count: self.nout(),
        }
    }
    pub fn varmap(&self) -> VarMap {
        let mut m = VarMap::new();
        for i in 0..self.nvars {
            m.insert(var_of(i));
        }
        m
    }
}

/// Builds a real `VmData<N>` from an SSA program: the SSA tape is injected,
/// the register tape is produced by the real `RegTape::new::<N>`.
pub fn make_vmdata<const N: usize>(p: &Prog) -> Result<VmData<N>, String> {
    let ssa = p.ssa_tape();
    let asm = crate::catch(std::panic::AssertUnwindSafe(|| RegTape::new::<N>(&ssa)))?;
    let v = Value::Map(vec![
        (Value::Text("ssa".into()), Value::serialized(&ssa).unwrap()),
        (Value::Text("asm".into()), Value::serialized(&asm).unwrap()),
        (Value::Text("vars".into()), Value::serialized(&p.varmap()).unwrap()),
    ]);
    v.deserialized::<VmData<N>>().map_err(|e| format!("inject: {e:?}"))
}

/// A copy of a real `VmData<N>` (which is not `Clone`) through the exact-float serializer
pub fn clone_vmdata<const N: usize>(d: &VmData<N>) -> VmData<N> {
    Value::serialized(d).unwrap().deserialized::<VmData<N>>().unwrap()
}

/// What a real `VmData<N>` contains
#[derive(Clone, Debug)]
pub struct TapeRec {
    pub n: usize,
    pub ssa: Vec<GOp>,
    pub asm: Vec<GOp>,
    pub slots: usize,
    pub nch: usize,
    pub nout: usize,
    /// (var name as string, slot index)
    pub vars: Vec<(String, usize)>,
}

fn field<'a>(v: &'a Value, k: &str) -> &'a Value {
    let Value::Map(m) = v else { panic!("not a map") };
    m.iter()
        .find(|(kk, _)| matches!(kk, Value::Text(t) if t == k))
        .map(|(_, vv)| vv)
        .unwrap_or_else(|| panic!("no field {k}"))
}

pub fn read_vmdata<const N: usize>(d: &VmData<N>) -> TapeRec {
    let v = Value::serialized(d).unwrap();
    let ssa = field(&v, "ssa");
    let asm = field(&v, "asm");
    let arr = |x: &Value| -> Vec<GOp> {
        let Value::Array(a) = x else { panic!("not an array") };
        a.iter().map(gop_of_value).collect()
    };
    let mut vars: Vec<(String, usize)> =
        d.vars.iter().map(|(v, i)| (format!("{v}"), i)).collect();
    vars.sort_by_key(|x| x.1);
    TapeRec {
        n: N,
        ssa: arr(field(ssa, "tape")),
        asm: arr(field(asm, "tape")),
        slots: vint(field(asm, "slot_count")) as usize,
        nch: vint(field(ssa, "choice_count")) as usize,
        nout: vint(field(ssa, "output_count")) as usize,
        vars,
    }
}

impl TapeRec {
    pub fn json(&self) -> serde_json::Value {
        json!({
            "n": self.n, "ssa": ops_json(&self.ssa), "asm": ops_json(&self.asm),
            "slots": self.slots, "nch": self.nch, "nout": self.nout,
        })
    }
    pub fn prog(&self) -> Prog {
        let nvars = self.ssa.iter().filter(|g| g.class == 1).map(|g| g.a + 1).max().unwrap_or(0) as usize;
        Prog { ssa: self.ssa.clone(), nvars: nvars.max(self.vars.len()) }
    }
}

pub fn unary_of(name: &str) -> Option<UnaryOpcode> {
    use UnaryOpcode::*;
    Some(match name {
        "Neg" => Neg, "Abs" => Abs, "Recip" => Recip, "Sqrt" => Sqrt, "Square" => Square,
        "Floor" => Floor, "Ceil" => Ceil, "Round" => Round, "Sin" => Sin, "Cos" => Cos,
        "Tan" => Tan, "Asin" => Asin, "Acos" => Acos, "Atan" => Atan, "Exp" => Exp,
        "Ln" => Ln, "Not" => Not, "Rand" => Rand,
        _ => return None,
    })
}
pub fn binary_of(name: &str) -> Option<BinaryOpcode> {
    use BinaryOpcode::*;
    Some(match name {
        "Add" => Add, "Sub" => Sub, "Mul" => Mul, "Div" => Div, "Atan" => Atan, "Min" => Min,
        "Max" => Max, "Compare" => Compare, "Mod" => Mod, "And" => And, "Or" => Or, "Mix" => Mix,
        _ => return None,
    })
}

pub const UNARY: [&str; 18] = [
    "Neg", "Abs", "Recip", "Sqrt", "Square", "Floor", "Ceil", "Round", "Sin", "Cos", "Tan",
    "Asin", "Acos", "Atan", "Exp", "Ln", "Not", "Rand",
];
pub const BINARY: [&str; 12] = [
    "Add", "Sub", "Mul", "Div", "Atan", "Min", "Max", "Compare", "Mod", "And", "Or", "Mix",
];
/// Binary opcodes that have an ImmReg form in the SSA tape
pub const IMMREG: [&str; 6] = ["Sub", "Div", "Atan", "Compare", "Mod", "Mix"];
/// Integer-exact sub-language Z
pub const UNARY_Z: [&str; 8] = ["Neg", "Abs", "Square", "Floor", "Ceil", "Round", "Not", "Neg"];
pub const BINARY_Z: [&str; 9] = ["Add", "Sub", "Mul", "Min", "Max", "Compare", "And", "Or", "Mod"];

/// One executed choice clause: (opcode name, lhs bits, rhs bits)
pub type Clause = (String, i64, i64);

pub struct SsaRun {
    pub outs: Vec<f32>,
    /// choice clauses in evaluation order
    pub clauses: Vec<Clause>,
    /// value of every SSA slot (None when never defined)
    pub vals: Vec<Option<f32>>,
    /// an op read an undefined slot
    pub undefined_read: bool,
    /// operand bits seen by bit-pattern-sensitive ops (Rand, Mix): a NaN here
    /// means NaN payload/sign differences (which the properties allow) can be
    /// amplified into arbitrary value differences downstream
    pub bitsens: Vec<i64>,
    /// operand bits seen by operations that distinguish -0 from +0 (atan2 both
    /// operands, divisor of div, recip): a zero here can amplify the allowed
    /// sign-of-zero slack of min/max between evaluators
    pub zerosens: Vec<i64>,
}

/// Reference evaluation of an SSA tape (stored root first; executed from the
/// end), applying `UnaryOpcode::eval` / `BinaryOpcode::eval` operation by
/// operation.
pub fn ssa_eval(ssa: &[GOp], vars: &[f32]) -> SsaRun {
    let nslots = ssa.iter().map(|g| g.out.max(g.a).max(g.b) + 1).max().unwrap_or(0).max(0) as usize;
    let nout = ssa.iter().filter(|g| g.class == 0).map(|g| g.b + 1).max().unwrap_or(0) as usize;
    let mut vals: Vec<Option<f32>> = vec![None; nslots + 1];
    let mut outs = vec![f32::NAN; nout];
    let mut clauses = vec![];
    let mut undefined_read = false;
    let mut bitsens = vec![];
    let mut zerosens = vec![];
    let mut get = |vals: &Vec<Option<f32>>, i: i64| -> f32 {
        match vals[i as usize] {
            Some(v) => v,
            None => {
                undefined_read = true;
                f32::NAN
            }
        }
    };
    for g in ssa.iter().rev() {
        match g.class {
            0 => {
                let v = get(&vals, g.a);
                outs[g.b as usize] = v;
            }
            1 => vals[g.out as usize] = Some(vars.get(g.a as usize).copied().unwrap_or(f32::NAN)),
            2 => vals[g.out as usize] = Some(unbits(g.imm)),
            3 => {
                let a = get(&vals, g.a);
                if g.name == "Rand" {
                    bitsens.push(bits(a));
                }
                if g.name == "Recip" {
                    zerosens.push(bits(a));
                }
                let v = if g.name == "Copy" { a } else { unary_of(&g.name).unwrap().eval(a) };
                vals[g.out as usize] = Some(v);
            }
            4 | 5 | 6 => {
                let (l, r) = match g.class {
                    4 => (get(&vals, g.a), unbits(g.imm)),
                    5 => (unbits(g.imm), get(&vals, g.a)),
                    _ => (get(&vals, g.a), get(&vals, g.b)),
                };
                if g.name == "Mix" {
                    bitsens.push(bits(l));
                    bitsens.push(bits(r));
                }
                if g.name == "Atan" {
                    zerosens.push(bits(l));
                    zerosens.push(bits(r));
                }
                if g.name == "Div" {
                    zerosens.push(bits(r));
                }
                if g.is_choice() {
                    clauses.push((g.name.clone(), bits(l), bits(r)));
                }
                vals[g.out as usize] = Some(binary_of(&g.name).unwrap().eval(l, r));
            }
            c => panic!("class {c} in SSA tape"),
        }
    }
    SsaRun { outs, clauses, vals, undefined_read, bitsens, zerosens }
}

/// A choice clause with its operands exported: `[name, class, lhs output
/// index, rhs output index or -1, imm bits]`, clauses in evaluation order
#[derive(Clone, Debug)]
pub struct ClauseSpec {
    pub name: String,
    pub class: u8,
    pub lidx: i64,
    pub ridx: i64,
    pub imm: i64,
}
impl ClauseSpec {
    pub fn json(&self) -> serde_json::Value {
        json!([self.name, self.class, self.lidx, self.ridx, self.imm])
    }
}

/// Adds `Output` ops for the operand slots of every choice clause, so that
/// each evaluator reports the operand values it actually computed (local
/// obligation: a trace entry is judged against that evaluator's own operands).
pub fn export_clause_operands(p: &Prog) -> (Prog, Vec<ClauseSpec>) {
    let mut nout = p.nout() as i64;
    let mut extra = vec![];
    let mut specs = vec![];
    for g in p.ssa.iter().rev() {
        if g.is_choice() {
            let lidx = nout;
            extra.push(GOp::new(0, "Output", -1, g.a, lidx, 0));
            nout += 1;
            let ridx = if g.class == 6 {
                extra.push(GOp::new(0, "Output", -1, g.b, nout, 0));
                nout += 1;
                nout - 1
            } else {
                -1
            };
            specs.push(ClauseSpec { name: g.name.clone(), class: g.class, lidx, ridx, imm: g.imm });
        }
    }
    let mut ssa = extra;
    ssa.extend(p.ssa.iter().cloned());
    // slot names must stay below the tape length (the allocator sizes its table by it): true
    // here because the tape only grew
    (Prog { ssa, nvars: p.nvars }, specs)
}

/// Exports every defined slot as an extra output (local obligations: each op
/// of each evaluator is judged against that evaluator's own operand values).
/// Returns the program and, per SSA slot, its output index.
pub fn export_all_slots(p: &Prog) -> (Prog, std::collections::HashMap<i64, i64>) {
    let mut nout = p.nout() as i64;
    let mut extra = vec![];
    let mut map = std::collections::HashMap::new();
    for g in p.ssa.iter().rev() {
        if g.class != 0 && !map.contains_key(&g.out) {
            extra.push(GOp::new(0, "Output", -1, g.out, nout, 0));
            map.insert(g.out, nout);
            nout += 1;
        }
    }
    let mut ssa = extra;
    ssa.extend(p.ssa.iter().cloned());
    (Prog { ssa, nvars: p.nvars }, map)
}


/// Step-by-step events of the real `RegisterAllocator<N>` on an SSA program (input of Trace_Alloc.tla): every prefix of
/// the tape is fed to a fresh allocator, which is then finalized; because the allocator only appends to its tape, the ops
/// it emitted for the last SSA op of the prefix are the tail of that tape.  A panic of the allocator is an event too.
pub fn alloc_events<const N: usize>(id: usize, ssa: &[GOp]) -> Vec<serde_json::Value> {
    use fidget_core::compiler::RegisterAllocator;
    let ops: Vec<SsaOp> = ssa.iter().map(ssa_op).collect();
    let mut evs = vec![json!({"e": "reset", "id": id, "n": N})];
    let mut prev = 0usize;
    for k in 1..=ops.len() {
        let r = crate::catch(std::panic::AssertUnwindSafe(|| {
            let mut a = RegisterAllocator::<N>::new(ops.len());
            for op in &ops[..k] {
                a.op(*op);
            }
            a.finalize()
        }));
        match r {
            Ok(t) => {
                let v = Value::serialized(&t).unwrap();
                let Value::Array(arr) = field(&v, "tape") else { panic!("tape") };
                let all: Vec<GOp> = arr.iter().map(gop_of_value).collect();
                let em = &all[prev.min(all.len())..];
                evs.push(json!({"e": "op", "id": id, "k": k, "op": ssa[k - 1].json(), "em": ops_json(em), "slots": t.slot_count(), "panic": false}));
                prev = all.len();
            }
            Err(_) => {
                evs.push(json!({"e": "op", "id": id, "k": k, "op": ssa[k - 1].json(), "em": [], "slots": 0, "panic": true}));
                break;
            }
        }
    }
    evs
}


/// Renumbers the SSA slots of a program densely (0, 1, 2, ... in evaluation order).  The real tapes number their slots
/// without gaps and size their tables by the tape length; hand-written programs with sparse slot names must be made dense.
pub fn compact_slots(p: &Prog) -> Prog {
    let mut map: std::collections::HashMap<i64, i64> = Default::default();
    let mut next = 0i64;
    let mut get = |s: i64, map: &mut std::collections::HashMap<i64, i64>| -> i64 {
        if s < 0 {
            return s;
        }
        *map.entry(s).or_insert_with(|| { let v = next; next += 1; v })
    };
    // definitions in evaluation order (the tape is stored root first)
    for g in p.ssa.iter().rev() {
        if g.class != 0 {
            get(g.out, &mut map);
        }
    }
    let ssa = p.ssa.iter().map(|g| {
        let mut h = g.clone();
        match g.class {
            0 => h.a = get(g.a, &mut map),
            1 | 2 => h.out = get(g.out, &mut map),
            3 | 4 | 5 => { h.out = get(g.out, &mut map); h.a = get(g.a, &mut map); }
            _ => { h.out = get(g.out, &mut map); h.a = get(g.a, &mut map); h.b = get(g.b, &mut map); }
        }
        h
    }).collect();
    Prog { ssa, nvars: p.nvars }
}
