//! f32 <-> integer encodings shared with spec/Floats.tla
//!
//! Every recorded f32 is logged as its bit pattern reinterpreted as a signed
//! 32-bit integer (`bits`).  The order key, NaN and zero predicates are
//! computed inside TLA+ from those bits.

pub fn bits(v: f32) -> i64 {
    v.to_bits() as i32 as i64
}
pub fn unbits(b: i64) -> f32 {
    f32::from_bits(b as i32 as u32)
}
pub fn bvec(v: &[f32]) -> Vec<i64> {
    v.iter().map(|&x| bits(x)).collect()
}

/// Deterministic xorshift generator (all random drivers are seeded by
/// VERIF_SEED; nothing depends on the `rand` crate's stream).
#[derive(Clone)]
pub struct Rng(pub u64);
impl Rng {
    pub fn new(seed: u64) -> Self {
        let mut r = Rng(seed ^ 0x9E3779B97F4A7C15);
        if r.0 == 0 {
            r.0 = 0x1234567;
        }
        for _ in 0..4 {
            r.next();
        }
        r
    }
    pub fn next(&mut self) -> u64 {
        self.0 ^= self.0 << 13;
        self.0 ^= self.0 >> 7;
        self.0 ^= self.0 << 17;
        self.0
    }
    pub fn below(&mut self, n: usize) -> usize {
        (self.next() % n.max(1) as u64) as usize
    }
    pub fn unit(&mut self) -> f32 {
        (self.next() >> 40) as f32 / (1u64 << 24) as f32
    }
    pub fn range(&mut self, lo: f32, hi: f32) -> f32 {
        lo + (hi - lo) * self.unit()
    }
    pub fn pick<'a, T>(&mut self, v: &'a [T]) -> &'a T {
        &v[self.below(v.len())]
    }
}

pub fn seed_from_env() -> u64 {
    std::env::var("VERIF_SEED")
        .ok()
        .and_then(|s| s.parse::<u64>().ok())
        .unwrap_or(1)
}

/// Special values pool
pub const SPECIALS: [f32; 20] = [
    0.0,
    -0.0,
    1.0,
    -1.0,
    2.0,
    -2.0,
    0.5,
    -0.5,
    2.5,
    -3.0,
    7.0,
    f32::INFINITY,
    f32::NEG_INFINITY,
    f32::NAN,
    1.0e-40,  // denormal
    -1.0e-40, // denormal
    f32::MAX,
    f32::MIN,
    1.0e30,
    f32::MIN_POSITIVE,
];
