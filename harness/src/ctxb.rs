//! Building expression graphs through the public `Context` constructors
use crate::keys::unbits;
use crate::tapes::Prog;
use fidget_core::context::{Context, Node};
use std::collections::HashMap;

pub fn un(ctx: &mut Context, name: &str, a: Node) -> Node {
    match name {
        "Neg" => ctx.neg(a), "Abs" => ctx.abs(a), "Recip" => ctx.recip(a), "Sqrt" => ctx.sqrt(a),
        "Square" => ctx.square(a), "Floor" => ctx.floor(a), "Ceil" => ctx.ceil(a), "Round" => ctx.round(a),
        "Sin" => ctx.sin(a), "Cos" => ctx.cos(a), "Tan" => ctx.tan(a), "Asin" => ctx.asin(a),
        "Acos" => ctx.acos(a), "Atan" => ctx.atan(a), "Exp" => ctx.exp(a), "Ln" => ctx.ln(a),
        "Not" => ctx.not(a), "Rand" => ctx.rand(a),
        "Copy" => Ok(a),
        n => panic!("unary {n}"),
    }
    .unwrap()
}
pub fn bin(ctx: &mut Context, name: &str, a: Node, b: Node) -> Node {
    match name {
        "Add" => ctx.add(a, b), "Sub" => ctx.sub(a, b), "Mul" => ctx.mul(a, b), "Div" => ctx.div(a, b),
        "Atan" => ctx.atan2(a, b), "Min" => ctx.min(a, b), "Max" => ctx.max(a, b),
        "Compare" => ctx.compare(a, b), "Mod" => ctx.modulo(a, b), "And" => ctx.and(a, b),
        "Or" => ctx.or(a, b), "Mix" => ctx.mix(a, b),
        n => panic!("binary {n}"),
    }
    .unwrap()
}

/// The expression graph of an SSA program (inputs 0, 1, 2 = X, Y, Z)
pub fn prog_to_ctx(p: &Prog) -> (Context, Vec<Node>) {
    let mut ctx = Context::new();
    let roots = prog_into_ctx(p, &mut ctx);
    (ctx, roots)
}
/// The same into an existing context (which may have been used and cleared before)
pub fn prog_into_ctx(p: &Prog, ctx: &mut Context) -> Vec<Node> {
    let axes = [ctx.x(), ctx.y(), ctx.z()];
    let mut slot: HashMap<i64, Node> = HashMap::new();
    let mut roots = vec![axes[0]; p.nout()];
    for g in p.ssa.iter().rev() {
        let n = match g.class {
            0 => {
                roots[g.b as usize] = slot[&g.a];
                continue;
            }
            1 => axes[g.a as usize % 3],
            2 => ctx.constant(unbits(g.imm)),
            3 => un(ctx, &g.name, slot[&g.a]),
            4 => {
                let c = ctx.constant(unbits(g.imm));
                bin(ctx, &g.name, slot[&g.a], c)
            }
            5 => {
                let c = ctx.constant(unbits(g.imm));
                bin(ctx, &g.name, c, slot[&g.a])
            }
            _ => bin(ctx, &g.name, slot[&g.a], slot[&g.b]),
        };
        slot.insert(g.out, n);
    }
    roots
}
