//! Generic evaluation helpers over `F: Function<Trace = VmTrace>` (VM at any
//! budget, and the JIT).  Panics of the code under test are observations.
use crate::tapes::{make_vmdata, Prog};
use fidget_core::{
    eval::{BulkEvaluator, Function, TracingEvaluator},
    types::{Grad, Interval},
    vm::{Choice, GenericVmFunction, VmTrace},
};
use fidget_jit::JitFunction;
use std::panic::AssertUnwindSafe;

/// Functions that could not be built from a well-formed program (budgets of at least 3 registers never fail on one):
/// a recorder that skips such a program silently would leave it judged by nobody
static BUILD_FAILURES: std::sync::Mutex<Vec<String>> = std::sync::Mutex::new(Vec::new());

pub fn vm_fn<const N: usize>(p: &Prog) -> Result<GenericVmFunction<N>, String> {
    match make_vmdata::<N>(p) {
        Ok(d) => Ok(GenericVmFunction::<N>::from(d)),
        Err(m) => {
            if N >= 3 {
                BUILD_FAILURES.lock().unwrap().push(format!("N={N}: {m} ({} ops): {}", p.ssa.len(), crate::tapes::ops_json(&p.ssa)));
            }
            Err(m)
        }
    }
}

/// Ends the recorder abnormally (which the runner reports as a crash of the code under test, with this text) if a
/// function could not be built for some program
pub fn exit_on_build_failures(recorder: &str) {
    let f = BUILD_FAILURES.lock().unwrap();
    if !f.is_empty() {
        eprintln!("{recorder}: {} programs could not be compiled by the code under test, e.g. {}", f.len(), f[0]);
        std::process::exit(101);
    }
}
/// The JIT compiles the 12-register tape (x86_64 REGISTER_LIMIT)
pub fn jit_fn(p: &Prog) -> Result<JitFunction, String> {
    Ok(JitFunction::from(vm_fn::<12>(p)?))
}

pub fn choice_code(c: Choice) -> i64 {
    match c {
        Choice::Unknown => 0,
        Choice::Left => 1,
        Choice::Right => 2,
        Choice::Both => 3,
    }
}
pub fn trace_codes(t: &VmTrace) -> Vec<i64> {
    t.as_slice().iter().map(|c| choice_code(*c)).collect()
}

pub struct TraceOut<T> {
    pub out: Vec<T>,
    pub trace: Option<Vec<i64>>,
    pub err: String,
    pub panic: bool,
}

pub fn point_trace<F: Function<Trace = VmTrace>>(f: &F, vars: &[f32]) -> TraceOut<f32> {
    let r = crate::catch(AssertUnwindSafe(|| {
        let tape = f.point_tape(Default::default());
        let mut e = F::new_point_eval();
        e.eval(&tape, vars).map(|(o, t)| (o.to_vec(), t.map(trace_codes)))
    }));
    match r {
        Ok(Ok((out, trace))) => TraceOut { out, trace, err: String::new(), panic: false },
        Ok(Err(e)) => TraceOut { out: vec![], trace: None, err: format!("{e}"), panic: false },
        Err(m) => TraceOut { out: vec![], trace: None, err: m, panic: true },
    }
}

pub fn interval_trace<F: Function<Trace = VmTrace>>(f: &F, vars: &[Interval]) -> TraceOut<Interval> {
    let r = crate::catch(AssertUnwindSafe(|| {
        let tape = f.interval_tape(Default::default());
        let mut e = F::new_interval_eval();
        e.eval(&tape, vars).map(|(o, t)| (o.to_vec(), t.map(trace_codes)))
    }));
    match r {
        Ok(Ok((out, trace))) => TraceOut { out, trace, err: String::new(), panic: false },
        Ok(Err(e)) => TraceOut { out: vec![], trace: None, err: format!("{e}"), panic: false },
        Err(m) => TraceOut { out: vec![], trace: None, err: m, panic: true },
    }
}

/// Many-point evaluation: returns per output the samples (exactly as reported)
pub fn float_slice<F: Function>(f: &F, cols: &[Vec<f32>]) -> Result<Vec<Vec<f32>>, String> {
    let r = crate::catch(AssertUnwindSafe(|| {
        let tape = f.float_slice_tape(Default::default());
        let mut e = F::new_float_slice_eval();
        e.eval(&tape, cols).map(|o| (0..o.len()).map(|i| o[i].to_vec()).collect::<Vec<_>>())
    }));
    match r {
        Ok(Ok(o)) => Ok(o),
        Ok(Err(e)) => Err(format!("err: {e}")),
        Err(m) => Err(format!("panic: {m}")),
    }
}

pub fn grad_slice<F: Function>(f: &F, cols: &[Vec<Grad>]) -> Result<Vec<Vec<Grad>>, String> {
    let r = crate::catch(AssertUnwindSafe(|| {
        let tape = f.grad_slice_tape(Default::default());
        let mut e = F::new_grad_slice_eval();
        e.eval(&tape, cols).map(|o| (0..o.len()).map(|i| o[i].to_vec()).collect::<Vec<_>>())
    }));
    match r {
        Ok(Ok(o)) => Ok(o),
        Ok(Err(e)) => Err(format!("err: {e}")),
        Err(m) => Err(format!("panic: {m}")),
    }
}

pub fn ibits(i: &Interval) -> [i64; 2] {
    [crate::keys::bits(i.lower()), crate::keys::bits(i.upper())]
}
pub fn gbits(g: &Grad) -> [i64; 4] {
    [crate::keys::bits(g.v), crate::keys::bits(g.dx), crate::keys::bits(g.dy), crate::keys::bits(g.dz)]
}
