//! Independent f64 forward-mode reference: dual numbers with three partials.
//! Used only for the *judged* clauses of C05 (tolerance relation is in the spec).
use crate::tapes::GOp;

#[derive(Clone, Copy, Debug)]
pub struct D {
    pub v: f64,
    pub d: [f64; 3],
}
impl D {
    pub fn c(v: f64) -> D {
        D { v, d: [0.0; 3] }
    }
    pub fn lin(v: f64, fa: f64, a: &D) -> D {
        D { v, d: [fa * a.d[0], fa * a.d[1], fa * a.d[2]] }
    }
    pub fn lin2(v: f64, fa: f64, a: &D, fb: f64, b: &D) -> D {
        D { v, d: [fa * a.d[0] + fb * b.d[0], fa * a.d[1] + fb * b.d[1], fa * a.d[2] + fb * b.d[2]] }
    }
}

/// (value, d/da, d/db, differentiable?) of a binary opcode at (a, b)
pub fn bin_rule(name: &str, a: f64, b: f64) -> (f64, f64, f64, bool) {
    match name {
        "Add" => (a + b, 1.0, 1.0, true),
        "Sub" => (a - b, 1.0, -1.0, true),
        "Mul" => (a * b, b, a, true),
        "Div" => (a / b, 1.0 / b, -a / (b * b), b != 0.0),
        "Atan" => {
            let d = a * a + b * b;
            (a.atan2(b), b / d, -a / d, d != 0.0)
        }
        "Min" => (if a < b { a } else { b }, (a < b) as u8 as f64, (a >= b) as u8 as f64, a != b),
        "Max" => (if a > b { a } else { b }, (a > b) as u8 as f64, (a <= b) as u8 as f64, a != b),
        "Compare" => (if a < b { -1.0 } else if a > b { 1.0 } else { 0.0 }, 0.0, 0.0, a != b),
        "Mod" => {
            // least non-negative remainder: a = b * e + r with 0 <= r < |b|
            let r = a.rem_euclid(b);
            let e = a.div_euclid(b);
            // differentiable away from multiples of b
            let frac = r / b.abs();
            (r, 1.0, -e, b != 0.0 && frac > 1.0e-3 && frac < 1.0 - 1.0e-3)
        }
        "And" => (if a == 0.0 { a } else { b }, (a == 0.0) as u8 as f64, (a != 0.0) as u8 as f64, a != 0.0),
        "Or" => (if a != 0.0 { a } else { b }, (a != 0.0) as u8 as f64, (a == 0.0) as u8 as f64, a != 0.0),
        "Mix" => (f64::NAN, 0.0, 0.0, true),
        n => panic!("bin_rule {n}"),
    }
}
/// (value, d/da, differentiable?)
pub fn un_rule(name: &str, a: f64) -> (f64, f64, bool) {
    match name {
        "Neg" => (-a, -1.0, true),
        "Abs" => (a.abs(), if a < 0.0 { -1.0 } else { 1.0 }, a != 0.0),
        "Recip" => (1.0 / a, -1.0 / (a * a), a != 0.0),
        "Sqrt" => (a.sqrt(), 0.5 / a.sqrt(), a > 0.0),
        "Square" => (a * a, 2.0 * a, true),
        "Floor" => (a.floor(), 0.0, a.fract() != 0.0),
        "Ceil" => (a.ceil(), 0.0, a.fract() != 0.0),
        "Round" => (a.round(), 0.0, (2.0 * a).fract() != 0.0),
        "Sin" => (a.sin(), a.cos(), true),
        "Cos" => (a.cos(), -a.sin(), true),
        "Tan" => (a.tan(), 1.0 / (a.cos() * a.cos()), a.cos().abs() > 1.0e-3),
        "Asin" => (a.asin(), 1.0 / (1.0 - a * a).sqrt(), a.abs() < 0.999),
        "Acos" => (a.acos(), -1.0 / (1.0 - a * a).sqrt(), a.abs() < 0.999),
        "Atan" => (a.atan(), 1.0 / (1.0 + a * a), true),
        "Exp" => (a.exp(), a.exp(), true),
        "Ln" => (a.ln(), 1.0 / a, a > 0.0),
        "Not" => ((a == 0.0) as u8 as f64, 0.0, a != 0.0),
        "Rand" => (f64::NAN, 0.0, true),
        "Copy" => (a, 1.0, true),
        n => panic!("un_rule {n}"),
    }
}

pub struct DualRun {
    pub outs: Vec<D>,
    /// every op was at a differentiable point and all values finite
    pub smooth: bool,
    /// largest magnitude of any chain-rule term (conditioning scale)
    pub scale: f64,
}

/// Whole-program f64 dual evaluation of an SSA tape (root first)
pub fn eval(ssa: &[GOp], inputs: &[D]) -> DualRun {
    let nslots = ssa.iter().map(|g| g.out.max(g.a).max(g.b) + 1).max().unwrap_or(0).max(0) as usize;
    let nout = ssa.iter().filter(|g| g.class == 0).map(|g| g.b + 1).max().unwrap_or(0) as usize;
    let mut vals = vec![D::c(f64::NAN); nslots + 1];
    let mut outs = vec![D::c(f64::NAN); nout];
    let mut smooth = true;
    let mut scale: f64 = 1.0;
    for g in ssa.iter().rev() {
        let imm = crate::keys::unbits(g.imm) as f64;
        match g.class {
            0 => outs[g.b as usize] = vals[g.a as usize],
            1 => vals[g.out as usize] = inputs[g.a as usize],
            2 => vals[g.out as usize] = D::c(imm),
            3 => {
                let a = vals[g.a as usize];
                let (v, fa, ok) = un_rule(&g.name, a.v);
                smooth &= ok && g.name != "Rand";
                let r = D::lin(v, fa, &a);
                for k in 0..3 {
                    scale = scale.max((fa * a.d[k]).abs());
                }
                vals[g.out as usize] = r;
            }
            _ => {
                let (a, b) = match g.class {
                    4 => (vals[g.a as usize], D::c(imm)),
                    5 => (D::c(imm), vals[g.a as usize]),
                    _ => (vals[g.a as usize], vals[g.b as usize]),
                };
                let (v, fa, fb, ok) = bin_rule(&g.name, a.v, b.v);
                smooth &= ok && g.name != "Mix";
                for k in 0..3 {
                    scale = scale.max((fa * a.d[k]).abs()).max((fb * b.d[k]).abs());
                }
                vals[g.out as usize] = D::lin2(v, fa, &a, fb, &b);
            }
        }
        if g.class != 0 {
            let r = vals[g.out as usize];
            smooth &= r.v.is_finite() && r.d.iter().all(|x| x.is_finite()) && r.v.abs() < 1.0e6;
        }
    }
    DualRun { outs, smooth, scale }
}
