//! Collection of events emitted by the cfg(fidget_verif) hooks in /repo
use fidget_core::verif::{self, Event};
use std::sync::{Arc, Mutex};

static EVENTS: Mutex<Vec<Event>> = Mutex::new(Vec::new());

pub fn install() {
    verif::set_sink(Some(Arc::new(|e: Event| {
        EVENTS.lock().unwrap().push(e);
    })));
}
pub fn uninstall() {
    verif::set_sink(None);
}
pub fn take() -> Vec<Event> {
    std::mem::take(&mut *EVENTS.lock().unwrap())
}
pub fn field(e: &Event, name: &str) -> i64 {
    e.fields.iter().find(|(k, _)| *k == name).map(|(_, v)| *v).unwrap_or(i64::MIN)
}
pub fn event_json(e: &Event) -> serde_json::Value {
    let mut m = serde_json::Map::new();
    m.insert("name".into(), serde_json::json!(e.name));
    m.insert("thread".into(), serde_json::json!(e.thread));
    m.insert("seq".into(), serde_json::json!(e.seq));
    for (k, v) in &e.fields {
        m.insert((*k).into(), serde_json::json!(v));
    }
    serde_json::Value::Object(m)
}
