//! Conformance harness shared code: drives the real fidget crates and records
//! observations as integer-only ndjson for the TLA+ trace specifications.
pub mod pgen;
pub mod shapes;
pub mod ctxb;
pub mod dual;
pub mod evalx;
pub mod hooks;
pub mod keys;
pub mod tapes;

/// Dispatch a generic-over-N body for the fixed set of budgets the harness is
/// built with.
#[macro_export]
macro_rules! with_n {
    ($n:expr, $f:ident ( $($args:expr),* )) => {
        match $n {
            1 => $f::<1>($($args),*),
            2 => $f::<2>($($args),*),
            3 => $f::<3>($($args),*),
            4 => $f::<4>($($args),*),
            5 => $f::<5>($($args),*),
            8 => $f::<8>($($args),*),
            12 => $f::<12>($($args),*),
            32 => $f::<32>($($args),*),
            255 => $f::<255>($($args),*),
            n => panic!("harness not built for N={n}"),
        }
    };
}

pub const BUDGETS: [usize; 9] = [1, 2, 3, 4, 5, 8, 12, 32, 255];

/// Runs `f`, turning a panic into `Err(message)`.  The panic hook is silenced
/// so that expected "fails loudly" cases do not flood stderr.
pub fn catch<T>(f: impl FnOnce() -> T + std::panic::UnwindSafe) -> Result<T, String> {
    use std::sync::Once;
    static HOOK: Once = Once::new();
    HOOK.call_once(|| {
        if std::env::var("VERIF_PANIC_VERBOSE").is_err() { std::panic::set_hook(Box::new(|_| {})); }
    });
    std::panic::catch_unwind(f).map_err(|e| {
        if let Some(s) = e.downcast_ref::<String>() {
            s.clone()
        } else if let Some(s) = e.downcast_ref::<&str>() {
            s.to_string()
        } else {
            "panic".to_string()
        }
    })
}
