//! C05 recorder: gradient evaluators (VM, JIT), symbolic derivatives and the
//! gradient of the input transform.
//! Usage: c05 <tlc-programs-file|-> <quick|thorough> <out.ndjson>
use fidget_core::{
    eval::Function,
    shape::Shape,
    types::Grad,
    var::Var,
    vm::{VmFunction, VmTrace},
};
use fidget_jit::JitFunction;
use nalgebra::Matrix4;
use serde_json::{json, Value};
use std::collections::HashMap;
use std::io::Write;
use vharness::{
    dual::{self, D},
    evalx::*,
    keys::{bits, seed_from_env, unbits, Rng},
    pgen::{self, Inst, Mode},
    tapes::{binary_of, export_all_slots, ops_json, unary_of, GOp, Prog},
};

struct Cx<'a> {
    w: &'a mut dyn Write,
    id: usize,
}

fn down(v: f64) -> f32 {
    let f = v as f32;
    if (f as f64) > v { f32::from_bits(if f > 0.0 { f.to_bits() - 1 } else if f < 0.0 { f.to_bits() + 1 } else { 0x8000_0001 }) } else { f }
}
fn up(v: f64) -> f32 {
    -down(-v)
}
/// enclosure [lo, hi] (f32 bits) of ref +- tol
fn encl(r: f64, tol: f64) -> [i64; 2] {
    [bits(down(r - tol)), bits(up(r + tol))]
}

fn seeds(rng: &mut Rng, unit: bool, k: usize) -> [f32; 3] {
    if unit {
        [(k == 0) as u8 as f32, (k == 1) as u8 as f32, (k == 2) as u8 as f32]
    } else {
        [rng.range(-2.0, 2.0), if rng.below(3) == 0 { 0.0 } else { rng.range(-2.0, 2.0) }, rng.range(-3.0, 3.0)]
    }
}

/// A: local obligations, every op judged on the operand duals the evaluator reported
fn nodes<F: Function<Trace = VmTrace>>(cx: &mut Cx, backend: &str, f: &F, p: &Prog, map: &HashMap<i64, i64>, inputs: &[Grad]) {
    let cols: Vec<Vec<Grad>> = inputs.iter().map(|g| vec![*g; 3]).collect();
    let out = match grad_slice(f, &cols) {
        Ok(o) if o.len() == p.nout() && o.iter().all(|c| c.len() == 3) => o,
        Ok(_) => return evalfail(cx, backend, "shape".into()),
        Err(e) => return evalfail(cx, backend, e),
    };
    let val = |slot: i64| out[map[&slot] as usize][1];
    let mut ops = vec![];
    for g in p.ssa.iter().rev() {
        let immg = Grad::new(unbits(g.imm), 0.0, 0.0, 0.0);
        let (a, b): (Grad, Grad) = match g.class {
            0 | 2 => continue,
            1 => {
                // input: the evaluator must deliver exactly the seeded dual
                let got = val(g.out);
                let want = inputs[g.a as usize];
                ops.push(json!(["Input", 1, gbits(&want), gbits(&want), gbits(&got), bits(want.v),
                    [[bits(want.dx), bits(want.dx)], [bits(want.dy), bits(want.dy)], [bits(want.dz), bits(want.dz)]], true]));
                continue;
            }
            3 => (val(g.a), val(g.a)),
            4 => (val(g.a), immg),
            5 => (immg, val(g.a)),
            _ => (val(g.a), val(g.b)),
        };
        let got = val(g.out);
        let (vref, fa, fb, ok) = if g.class == 3 {
            let (_, fa, ok) = dual::un_rule(&g.name, a.v as f64);
            (if g.name == "Copy" { a.v } else { unary_of(&g.name).unwrap().eval(a.v) }, fa, 0.0, ok)
        } else {
            let (_, fa, fb, ok) = dual::bin_rule(&g.name, a.v as f64, b.v as f64);
            (binary_of(&g.name).unwrap().eval(a.v, b.v), fa, fb, ok)
        };
        let mut enc = vec![];
        // extreme magnitudes overflow / underflow the f32 chain rule: outside "within tolerance"
        let tame = |v: f32| v == 0.0 || (v.abs() > 1.0e-12 && v.abs() < 1.0e12);
        let mut finite = fa.is_finite() && fb.is_finite() && tame(a.v) && tame(b.v) && tame(vref)
            && (0..3).all(|k| tame(a.d(k)) && (g.class == 3 || tame(b.d(k))));
        for k in 0..3 {
            let (ta, tb) = (fa * a.d(k) as f64, if g.class == 3 { 0.0 } else { fb * b.d(k) as f64 });
            let r = ta + tb;
            finite &= r.is_finite();
            let tol = (ta.abs() + tb.abs()) * (1.0 / 8192.0) + 1.0e-30;
            enc.push(json!(encl(r, tol)));
        }
        ops.push(json!([g.name, g.class, gbits(&a), gbits(&b), gbits(&got), bits(vref), enc, ok && finite]));
    }
    let j = json!({"ev": "nodes", "id": cx.id, "backend": backend, "ops": ops});
    writeln!(cx.w, "{j}").unwrap();
    cx.id += 1;
}

fn evalfail(cx: &mut Cx, backend: &str, err: String) {
    let j = json!({"ev": "evalfail", "id": cx.id, "backend": backend, "err": err});
    writeln!(cx.w, "{j}").unwrap();
    cx.id += 1;
}

/// every unary and binary operator applied to non-trivial (affine) arguments kept inside its domain: the chain
/// rule factor of the argument must show up in every evaluator and in the symbolic derivative
fn chain_rule_programs() -> Vec<Prog> {
    use vharness::tapes::{GOp, BINARY, UNARY};
    let affine = |out: i64, base: i64, shift: f32, scale: f32| -> Vec<GOp> {
        // out = (0.3 x + 0.2 y - 0.1 z) * scale + shift, using slots base..base+5 ; ops in evaluation order
        vec![
            GOp::new(4, "Mul", base, 0, -1, bits(0.3)), GOp::new(4, "Mul", base + 1, 1, -1, bits(0.2)), GOp::new(4, "Mul", base + 2, 2, -1, bits(-0.1)),
            GOp::new(6, "Add", base + 3, base, base + 1, 0), GOp::new(6, "Add", base + 4, base + 3, base + 2, 0),
            GOp::new(4, "Mul", base + 5, base + 4, -1, bits(scale)), GOp::new(4, "Add", out, base + 5, -1, bits(shift)),
        ]
    };
    let finish = |mut ops: Vec<GOp>, result: i64| -> Prog {
        // SSA tapes list outputs first, then ops from the result back to the inputs
        ops.reverse();
        let mut ssa = vec![GOp::new(0, "Output", -1, result, 0, 0)];
        ssa.extend(ops);
        for k in (0..3).rev() {
            ssa.push(GOp::new(1, "Input", k, k, -1, 0));
        }
        vharness::tapes::compact_slots(&Prog { ssa, nvars: 3 })
    };
    let mut out = vec![];
    for u in UNARY {
        if matches!(u, "Floor" | "Ceil" | "Round" | "Not" | "Rand" | "Abs") {
            continue; // piecewise constant / not smooth everywhere
        }
        let (shift, scale) = match u { "Sqrt" | "Ln" | "Recip" => (3.0, 1.0), "Asin" | "Acos" => (0.0, 0.4), _ => (0.25, 1.0) };
        let mut ops = affine(10, 3, shift, scale);
        ops.push(GOp::new(3, u, 11, 10, -1, 0));
        out.push(finish(ops, 11));
    }
    for b in BINARY {
        if matches!(b, "Min" | "Max" | "Compare" | "And" | "Or" | "Mix") {
            continue;
        }
        if b == "Mod" {
            // differentiable away from the multiples of the divisor: positive and negative dividends and divisors
            for (sa, sb) in [(0.25f32, 3.0f32), (-4.5, 3.0), (4.5, -3.0), (-4.5, -3.0), (7.3, 2.0)] {
                let mut ops = affine(10, 3, sa, 1.0);
                ops.extend(affine(20, 12, sb, 0.5));
                ops.push(GOp::new(6, b, 21, 10, 20, 0));
                out.push(finish(ops, 21));
            }
            continue;
        }
        let mut ops = affine(10, 3, 0.25, 1.0);
        ops.extend(affine(20, 12, 3.0, 0.5));
        ops.push(GOp::new(6, b, 21, 10, 20, 0));
        out.push(finish(ops.clone(), 21));
        ops.pop();
        ops.push(GOp::new(6, b, 21, 20, 10, 0));
        out.push(finish(ops, 21));
    }
    out
}

/// min / max whose inactive branch has an undefined (0 x inf, inf - inf) derivative at the evaluation point: the
/// expression is differentiable there (it equals its active, affine branch in a neighbourhood), so the partial
/// derivatives are those of the active branch.  Returns (program, the active branch alone, evaluation point).
fn singular_inactive_programs() -> Vec<(Prog, Prog, [f32; 3])> {
    use vharness::tapes::GOp;
    let affine = |out: i64, base: i64, shift: f32| -> Vec<GOp> {
        vec![
            GOp::new(4, "Mul", base, 0, -1, bits(0.3)), GOp::new(4, "Mul", base + 1, 1, -1, bits(0.2)), GOp::new(4, "Mul", base + 2, 2, -1, bits(-0.1)),
            GOp::new(6, "Add", base + 3, base, base + 1, 0), GOp::new(6, "Add", base + 4, base + 3, base + 2, 0),
            GOp::new(4, "Add", out, base + 4, -1, bits(shift)),
        ]
    };
    let finish = |mut ops: Vec<GOp>, result: i64| -> Prog {
        ops.reverse();
        let mut ssa = vec![GOp::new(0, "Output", -1, result, 0, 0)];
        ssa.extend(ops);
        for k in (0..3).rev() {
            ssa.push(GOp::new(1, "Input", k, k, -1, 0));
        }
        vharness::tapes::compact_slots(&Prog { ssa, nvars: 3 })
    };
    // singular branches, result in slot 34; (ops, the branch is below the affine one (max) or above it (min), point)
    let cyl = vec![GOp::new(3, "Square", 30, 1, -1, 0), GOp::new(3, "Square", 31, 2, -1, 0), GOp::new(6, "Add", 32, 30, 31, 0),
                   GOp::new(3, "Sqrt", 33, 32, -1, 0), GOp::new(4, "Add", 34, 33, -1, bits(-1.0))];
    let absx = vec![GOp::new(3, "Square", 30, 0, -1, 0), GOp::new(3, "Sqrt", 33, 30, -1, 0), GOp::new(4, "Add", 34, 33, -1, bits(-1.0))];
    let lnsq = vec![GOp::new(3, "Square", 30, 1, -1, 0), GOp::new(3, "Ln", 34, 30, -1, 0)];
    let recip = vec![GOp::new(3, "Square", 30, 1, -1, 0), GOp::new(3, "Recip", 34, 30, -1, 0)];
    let mut out = vec![];
    // and / or select one operand whole: `and(s, p)` with s != 0 is p, `or(p, s)` with p != 0 is p; the operand that is
    // not selected (s: a cylinder distance + 2 on its axis, value 1, partials 0 x inf) must not leak into the partials
    for pt in [[0.5f32, 0.0, 0.0], [-1.0, 0.0, 0.0]] {
        for which in 0..2 {
            let mut ops = affine(10, 3, 2.0);
            let alone = finish(ops.clone(), 10);
            ops.extend(cyl.clone());
            ops.push(GOp::new(4, "Add", 35, 34, -1, bits(2.0)));
            ops.push(if which == 0 { GOp::new(6, "And", 40, 35, 10, 0) } else { GOp::new(6, "Or", 40, 10, 35, 0) });
            out.push((finish(ops, 40), alone, pt));
        }
    }
    for (branch, name, pts) in [(cyl.clone(), "Max", [[0.5f32, 0.0, 0.0], [-1.0, 0.0, 0.0]]), (absx, "Max", [[0.0, 0.7, -0.4], [0.0, -1.0, 1.0]]),
                                (lnsq, "Max", [[0.5, 0.0, 0.3], [1.0, 0.0, -2.0]]), (recip, "Min", [[0.5, 0.0, 0.3], [-1.5, 0.0, 1.0]])] {
        for pt in pts {
            for swap in [false, true] {
                let mut ops = affine(10, 3, 2.0);
                let alone = finish(ops.clone(), 10);
                ops.extend(branch.clone());
                ops.push(if swap { GOp::new(6, name, 40, 34, 10, 0) } else { GOp::new(6, name, 40, 10, 34, 0) });
                out.push((finish(ops, 40), alone, pt));
            }
        }
    }
    out
}

fn singular_inactive(cx: &mut Cx) {
    for (p, alone, pt) in singular_inactive_programs() {
        let rin: Vec<D> = (0..3).map(|k| { let mut d = [0.0; 3]; d[k] = 1.0; D { v: pt[k] as f64, d } }).collect();
        let r = dual::eval(&alone.ssa, &rin);
        let enc: Vec<Value> = r.outs.iter().map(|o| {
            let mut e = vec![json!(encl(o.v, 1.0e-4 * o.v.abs() + 1.0e-4))];
            for k in 0..3 { e.push(json!(encl(o.d[k], 2.0e-3 * o.d[k].abs() + 2.0e-4))); }
            json!(e)
        }).collect();
        let inputs: Vec<Grad> = (0..3).map(|k| { let mut d = [0.0f32; 3]; d[k] = 1.0; Grad::new(pt[k], d[0], d[1], d[2]) }).collect();
        let mut got = serde_json::Map::new();
        if let Ok(f) = vm_fn::<255>(&p) { got.insert("vm".into(), json!(grads_at(&f, &inputs, 1).unwrap_or_default())); }
        if let Ok(f) = jit_fn(&p) { got.insert("jit".into(), json!(grads_at(&f, &inputs, 1).unwrap_or_default())); }
        if let Ok(sy) = symbolic(&p, &pt) {
            got.insert("symbolic".into(), json!(sy.iter().map(|o| o.iter().map(|v| bits(*v)).collect::<Vec<_>>()).collect::<Vec<_>>()));
        }
        let j = json!({"ev": "whole", "id": cx.id, "nout": 1, "enc": enc, "got": got, "mat": false, "family": "singular-inactive-branch",
            "ssa": ops_json(&p.ssa), "in": inputs.iter().map(gbits).collect::<Vec<_>>()});
        writeln!(cx.w, "{j}").unwrap();
        cx.id += 1;
    }
}

use vharness::ctxb::prog_to_ctx;

fn symbolic(p: &Prog, pt: &[f32]) -> Result<Vec<[f32; 4]>, String> {
    // every other call builds the program in one long-lived context that has differentiated all earlier programs and is
    // cleared in between (a derivative must not depend on what the context held before `clear`)
    thread_local! {
        static LONG: std::cell::RefCell<(fidget_core::Context, usize)> = std::cell::RefCell::new((fidget_core::Context::new(), 0));
    }
    let reuse = LONG.with(|l| { let mut l = l.borrow_mut(); l.1 += 1; l.1 % 2 == 0 });
    if reuse {
        return LONG.with(|l| {
            let ctx = &mut l.borrow_mut().0;
            ctx.clear();
            let roots = vharness::ctxb::prog_into_ctx(p, ctx);
            symbolic_in(ctx, roots, pt)
        });
    }
    let (mut ctx, roots) = prog_to_ctx(p);
    symbolic_in(&mut ctx, roots, pt)
}
fn symbolic_in(ctx: &mut fidget_core::Context, roots: Vec<fidget_core::context::Node>, pt: &[f32]) -> Result<Vec<[f32; 4]>, String> {
    let vars: HashMap<Var, f32> = [(Var::X, pt[0]), (Var::Y, *pt.get(1).unwrap_or(&0.0)), (Var::Z, *pt.get(2).unwrap_or(&0.0))].into_iter().collect();
    let mut out = vec![];
    for r in roots {
        let mut o = [ctx.eval(r, &vars).map_err(|e| format!("{e}"))?, 0.0, 0.0, 0.0];
        for (k, v) in [Var::X, Var::Y, Var::Z].into_iter().enumerate() {
            let d = ctx.deriv(r, v).map_err(|e| format!("{e}"))?;
            o[k + 1] = ctx.eval(d, &vars).map_err(|e| format!("{e}"))?;
        }
        out.push(o);
    }
    Ok(out)
}

fn grads_at<F: Function<Trace = VmTrace>>(f: &F, inputs: &[Grad], nout: usize) -> Result<Vec<[i64; 4]>, String> {
    // the same sample repeated n times, n rotating through short and very long slices (thousands of samples): every
    // copy must come back, and all copies alike; the last one is what is judged
    static CALLS: std::sync::atomic::AtomicUsize = std::sync::atomic::AtomicUsize::new(0);
    let call = CALLS.fetch_add(1, std::sync::atomic::Ordering::Relaxed);
    let n = if call % 64 == 63 { [1025usize, 4099, 2049][(call / 64) % 3] } else { [2usize, 3, 9, 17, 1, 8][call % 6] };
    let cols: Vec<Vec<Grad>> = inputs.iter().map(|g| vec![*g; n]).collect();
    let o = grad_slice(f, &cols)?;
    if o.len() != nout || o.iter().any(|c| c.len() != n) {
        return Err("shape".into());
    }
    if o.iter().any(|c| c.iter().any(|g| gbits(g) != gbits(&c[n - 1]))) {
        return Err("copies of one sample differ".into());
    }
    Ok(o.iter().map(|c| gbits(&c[n - 1])).collect())
}

/// B: exact programs, expected duals recomputed by TLC in Integers
fn zprog(cx: &mut Cx, p: &Prog, rng: &mut Rng) {
    for unit in [false, true] {
        let inputs: Vec<Grad> = (0..p.nvars).map(|k| {
            let s = if unit { seeds(rng, true, k) } else { [rng.below(5) as f32 - 2.0, rng.below(5) as f32 - 2.0, rng.below(5) as f32 - 2.0] };
            Grad::new(rng.below(7) as f32 - 3.0, s[0], s[1], s[2])
        }).collect();
        let zin: Vec<Vec<i64>> = inputs.iter().map(|g| vec![g.v as i64, g.dx as i64, g.dy as i64, g.dz as i64]).collect();
        let mut got = serde_json::Map::new();
        if let Ok(f) = vm_fn::<255>(p) { got.insert("vm".into(), json!(grads_at(&f, &inputs, p.nout()).unwrap_or_default())); }
        if let Ok(f) = vm_fn::<3>(p) { got.insert("vm3".into(), json!(grads_at(&f, &inputs, p.nout()).unwrap_or_default())); }
        if let Ok(f) = jit_fn(p) { got.insert("jit".into(), json!(grads_at(&f, &inputs, p.nout()).unwrap_or_default())); }
        if unit && p.nvars <= 3 {
            let pt: Vec<f32> = inputs.iter().map(|g| g.v).collect();
            if let Ok(s) = symbolic(p, &pt) {
                got.insert("symbolic".into(), json!(s.iter().map(|o| o.iter().map(|v| bits(*v)).collect::<Vec<_>>()).collect::<Vec<_>>()));
            }
        }
        let j = json!({"ev": "zprog", "id": cx.id, "ssa": ops_json(&p.ssa), "zin": zin, "nout": p.nout(), "got": got});
        writeln!(cx.w, "{j}").unwrap();
        cx.id += 1;
    }
}

/// C + D: smooth float programs against the f64 dual reference
fn whole(cx: &mut Cx, p: &Prog, rng: &mut Rng, with_mat: bool) {
    whole_seeded(cx, p, rng, with_mat, None)
}
/// `force_unit`: Some(true) = unit seeds (the symbolic derivative takes part), None = either
fn whole_seeded(cx: &mut Cx, p: &Prog, rng: &mut Rng, with_mat: bool, force_unit: Option<bool>) {
    let pt: Vec<f32> = (0..p.nvars).map(|_| rng.range(-2.0, 2.0)).collect();
    // arbitrary derivative seeds also through the transform (the caller's seeds are part of the chain rule there too)
    let unit = force_unit.unwrap_or(rng.below(2) == 0);
    let sd: Vec<[f32; 3]> = (0..p.nvars).map(|k| seeds(rng, unit, k)).collect();
    let mut m = Matrix4::<f32>::identity();
    if with_mat {
        for i in 0..3 {
            for j in 0..4 {
                if rng.below(2) == 0 { m[(i, j)] = rng.range(-1.5, 1.5); }
            }
        }
        if rng.below(2) == 0 {
            m[(3, rng.below(3))] = rng.range(-0.3, 0.3);
            if rng.below(2) == 0 { m[(3, 3)] = rng.range(0.6, 1.8); }
        }
    }
    // reference inputs (f64 duals), after the transform if any
    let base: Vec<D> = (0..p.nvars).map(|k| D { v: pt[k] as f64, d: [sd[k][0] as f64, sd[k][1] as f64, sd[k][2] as f64] }).collect();
    let rin: Vec<D> = if with_mat {
        let h: Vec<D> = (0..4).map(|i| {
            let mut acc = D::c(m[(i, 3)] as f64);
            for j in 0..3 {
                let c = m[(i, j)] as f64;
                acc.v += c * base[j].v;
                for k in 0..3 { acc.d[k] += c * base[j].d[k]; }
            }
            acc
        }).collect();
        (0..3).map(|i| {
            let (n, w) = (h[i], h[3]);
            D { v: n.v / w.v, d: [0, 1, 2].map(|k| (n.d[k] * w.v - n.v * w.d[k]) / (w.v * w.v)) }
        }).collect()
    } else { base.clone() };
    let r = dual::eval(&p.ssa, &rin);
    if !r.smooth || r.scale > 300.0 || rin.iter().any(|d| !d.v.is_finite() || d.v.abs() > 50.0 || d.d.iter().any(|x| x.abs() > 50.0)) {
        return; // ill conditioned: outside "within floating-point tolerance"
    }
    let enc: Vec<Value> = r.outs.iter().map(|o| {
        let tv = 1.0e-4 * o.v.abs() + 1.0e-4;
        let mut e = vec![json!(encl(o.v, tv))];
        for k in 0..3 { e.push(json!(encl(o.d[k], 2.0e-3 * o.d[k].abs() + 2.0e-4 * r.scale))); }
        json!(e)
    }).collect();
    let inputs: Vec<Grad> = (0..p.nvars).map(|k| Grad::new(pt[k], sd[k][0], sd[k][1], sd[k][2])).collect();
    let mut got = serde_json::Map::new();
    if !with_mat {
        if let Ok(f) = vm_fn::<255>(p) { got.insert("vm".into(), json!(grads_at(&f, &inputs, p.nout()).unwrap_or_default())); }
        if let Ok(f) = jit_fn(p) { got.insert("jit".into(), json!(grads_at(&f, &inputs, p.nout()).unwrap_or_default())); }
        if unit && p.nvars <= 3 {
            if let Ok(s) = symbolic(p, &pt) {
                got.insert("symbolic".into(), json!(s.iter().map(|o| o.iter().map(|v| bits(*v)).collect::<Vec<_>>()).collect::<Vec<_>>()));
            }
        }
    } else if p.nout() == 1 && p.nvars == 3 {
        // gradient of the input transform through the shape API
        let xs = vec![inputs[0]; 2];
        let ys = vec![inputs[1]; 2];
        let zs = vec![inputs[2]; 2];
        if let Ok(f) = vm_fn::<255>(p) {
            let s = Shape::<VmFunction>::new_raw(f);
            let tape = fidget_core::shape::EzShape::ez_grad_slice_tape(&s);
            let mut e = Shape::<VmFunction>::new_grad_slice_eval();
            if let Ok(o) = e.eval_with_transform(&tape, &xs, &ys, &zs, &m) { got.insert("vm-transform".into(), json!([gbits(&o[1])])); }
        }
        if let Ok(f) = jit_fn(p) {
            let s = Shape::<JitFunction>::new_raw(f);
            let tape = fidget_core::shape::EzShape::ez_grad_slice_tape(&s);
            let mut e = Shape::<JitFunction>::new_grad_slice_eval();
            if let Ok(o) = e.eval_with_transform(&tape, &xs, &ys, &zs, &m) { got.insert("jit-transform".into(), json!([gbits(&o[1])])); }
        }
    }
    let j = json!({"ev": "whole", "id": cx.id, "nout": p.nout(), "enc": enc, "got": got, "mat": with_mat,
        "ssa": ops_json(&p.ssa), "in": inputs.iter().map(gbits).collect::<Vec<_>>()});
    writeln!(cx.w, "{j}").unwrap();
    cx.id += 1;
}

fn main() {
    let args: Vec<String> = std::env::args().collect();
    let quick = args[2] == "quick";
    let mut file = std::io::BufWriter::new(std::fs::File::create(&args[3]).unwrap());
    let seed = seed_from_env();
    let mut cx = Cx { w: &mut file, id: 0 };
    let mut rng = Rng::new(seed.wrapping_add(505));
    let aps = if args[1] != "-" { pgen::read_tlc_programs(&args[1]) } else { vec![] };
    // A: local obligations over every opcode and form
    let mut count = 0;
    for (pi, ap) in aps.iter().enumerate().step_by(if quick { 6 } else { 1 }) {
        let mode = if pi % 2 == 0 { Mode::All } else { Mode::Choice };
        let mut inst = Inst::new(seed.wrapping_mul(211).wrapping_add(pi as u64), mode, 3);
        let p0 = inst.instantiate(ap);
        let (p, map) = export_all_slots(&p0);
        let inputs: Vec<Grad> = (0..p.nvars).map(|k| { let s = seeds(&mut rng, false, k); Grad::new(rng.range(-3.0, 3.0), s[0], s[1], s[2]) }).collect();
        if let Ok(f) = vm_fn::<255>(&p) { nodes(&mut cx, "vm", &f, &p, &map, &inputs); }
        if let Ok(f) = jit_fn(&p) { nodes(&mut cx, "jit", &f, &p, &map, &inputs); }
        count += 1;
    }
    for k in 0..(if quick { 200 } else { 2500 }) {
        let mut inst = Inst::new(rng.next(), Mode::All, 1 + k % 4);
        let ap = inst.random_abstract([8, 20, 40][k % 3], [4, 9, 14, 22][k % 4], 2);
        let p0 = inst.instantiate(&ap);
        let (p, map) = export_all_slots(&p0);
        let inputs: Vec<Grad> = (0..p.nvars).map(|j| { let s = seeds(&mut rng, false, j); Grad::new(rng.range(-3.0, 3.0), s[0], s[1], s[2]) }).collect();
        if let Ok(f) = vm_fn::<255>(&p) { nodes(&mut cx, "vm", &f, &p, &map, &inputs); }
        if let Ok(f) = jit_fn(&p) { nodes(&mut cx, "jit", &f, &p, &map, &inputs); }
        count += 1;
    }
    // directed families (same immediate around every opcode; opcodes at rounding / domain boundaries)
    for (p0, mode, _) in pgen::directed_programs() {
        let (p, map) = export_all_slots(&p0);
        for rep in 0..2 {
            let inputs: Vec<Grad> = (0..p.nvars).map(|j| {
                let s = seeds(&mut rng, false, j);
                let v = if mode == Mode::Boundary && rep == 1 { *rng.pick(&pgen::BOUNDARY) } else { rng.range(-3.0, 3.0) };
                Grad::new(v, s[0], s[1], s[2])
            }).collect();
            if let Ok(f) = vm_fn::<255>(&p) { nodes(&mut cx, "vm", &f, &p, &map, &inputs); }
            if let Ok(f) = jit_fn(&p) { nodes(&mut cx, "jit", &f, &p, &map, &inputs); }
        }
        count += 1;
    }
    // B: exact programs
    for (pi, ap) in aps.iter().enumerate().step_by(if quick { 4 } else { 1 }) {
        let mut inst = Inst::new(seed.wrapping_mul(223).wrapping_add(pi as u64), Mode::ZSmooth, 3);
        let p = inst.instantiate(ap);
        zprog(&mut cx, &p, &mut rng);
    }
    for k in 0..(if quick { 150 } else { 2000 }) {
        let mut inst = Inst::new(rng.next(), Mode::ZSmooth, 1 + k % 3);
        let ap = inst.random_abstract([5, 9, 14][k % 3], [3, 6, 13, 18][k % 4], 2);
        let p = inst.instantiate(&ap);
        zprog(&mut cx, &p, &mut rng);
    }
    // C, D: smooth float programs
    for k in 0..(if quick { 600 } else { 8000 }) {
        let mut inst = Inst::new(rng.next(), Mode::Smooth, 3);
        let ap = inst.random_abstract(3 + rng.below(9), [3, 5, 13][k % 3], if k % 2 == 0 { 1 } else { 2 });
        let mut p = inst.instantiate(&ap);
        p.nvars = 3;
        whole(&mut cx, &p, &mut rng, k % 2 == 1 && p.nout() == 1);
    }
    // E: chain rule through every smooth operator (unit seeds, so that the symbolic derivative takes part)
    for p in chain_rule_programs() {
        for rep in 0..(if quick { 5 } else { 24 }) {
            // at least two points per program with unit seeds and no transform: the symbolic derivative takes part there
            whole_seeded(&mut cx, &p, &mut rng, rep % 4 == 3, if rep < 2 { Some(true) } else { None });
        }
    }
    // F: min / max with a singular inactive branch
    singular_inactive(&mut cx);
    let n = cx.id;
    file.flush().unwrap();
    vharness::evalx::exit_on_build_failures("c05");
    eprintln!("c05: {n} records ({count} node programs)");
    let _: Option<GOp> = None;
}
