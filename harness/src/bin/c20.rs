//! C20 recorder: tracing evaluations of all four tracing evaluators
//! (interpreter / JIT x point / interval) on programs whose clause operands
//! are exported, plus bulk-output shape and metadata agreement.
//! Usage: c20 <tlc-programs-file|-> <quick|thorough> <out.ndjson>
use fidget_core::{
    eval::{Function, Tape},
    types::Interval,
    vm::{GenericVmFunction, VmTrace},
};
use serde_json::json;
use std::io::Write;
use vharness::{
    evalx::*,
    keys::{bits, seed_from_env, Rng, SPECIALS},
    pgen::{self, Inst, Mode},
    tapes::{export_clause_operands, ops_json, ClauseSpec, Prog},
    with_n,
};

fn boxes(rng: &mut Rng, nvars: usize, count: usize) -> Vec<Vec<Interval>> {
    (0..count)
        .map(|k| {
            (0..nvars)
                .map(|_| {
                    let a = if rng.below(3) == 0 { *rng.pick(&SPECIALS) } else { rng.range(-4.0, 4.0) };
                    let a = if a.is_nan() && k % 5 != 0 { 0.0 } else { a };
                    match rng.below(5) {
                        0 => Interval::new(a, a),
                        1 if a.is_finite() => Interval::new(a, a + rng.range(0.0, 0.01)),
                        2 if a.is_finite() => Interval::new(a.min(0.0), a.max(0.0)),
                        _ if a.is_nan() => Interval::new(f32::NAN, f32::NAN),
                        _ => {
                            let b = rng.range(-4.0, 4.0);
                            Interval::new(a.min(b), a.max(b))
                        }
                    }
                })
                .collect()
        })
        .collect()
}

struct Ctx<'a> {
    w: &'a mut dyn Write,
    id: usize,
}

fn run_all<F: Function<Trace = VmTrace>>(
    cx: &mut Ctx,
    backend: &str,
    n: usize,
    f: &F,
    p: &Prog,
    specs: &[ClauseSpec],
    pts: &[Vec<f32>],
    bxs: &[Vec<Interval>],
) {
    let cl: Vec<_> = specs.iter().map(|c| c.json()).collect();
    let nout = p.nout();
    for pt in pts {
        let t = point_trace(f, pt);
        let j = json!({"ev": "trace", "id": cx.id, "backend": backend, "n": n, "kind": "point", "nout": nout,
            "nch": specs.len(), "clauses": cl, "in": pt.iter().map(|v| bits(*v)).collect::<Vec<_>>(),
            "out": t.out.iter().map(|v| [bits(*v), bits(*v)]).collect::<Vec<_>>(),
            "has": t.trace.is_some(), "trace": t.trace.unwrap_or_default(), "err": t.err, "panic": t.panic,
            "ssa": ops_json(&p.ssa)});
        writeln!(cx.w, "{j}").unwrap();
        cx.id += 1;
    }
    for bx in bxs {
        let t = interval_trace(f, bx);
        let j = json!({"ev": "trace", "id": cx.id, "backend": backend, "n": n, "kind": "interval", "nout": nout,
            "nch": specs.len(), "clauses": cl, "in": bx.iter().map(ibits).collect::<Vec<_>>(),
            "out": t.out.iter().map(ibits).collect::<Vec<_>>(),
            "has": t.trace.is_some(), "trace": t.trace.unwrap_or_default(), "err": t.err, "panic": t.panic,
            "ssa": ops_json(&p.ssa)});
        writeln!(cx.w, "{j}").unwrap();
        cx.id += 1;
    }
    // bulk output shape and metadata agreement between function and tapes
    let cols: Vec<Vec<f32>> = (0..p.nvars).map(|v| pts.iter().map(|q| q[v]).collect()).collect();
    let fs = float_slice(f, &cols);
    let (rows, lens, berr) = match &fs {
        Ok(o) => (o.len() as i64, o.iter().map(|c| c.len() as i64).collect::<Vec<_>>(), String::new()),
        Err(e) => (-1, vec![], e.clone()),
    };
    let pt_t = f.point_tape(Default::default());
    let iv_t = f.interval_tape(Default::default());
    let fs_t = f.float_slice_tape(Default::default());
    let gs_t = f.grad_slice_tape(Default::default());
    let vars_of = |m: &fidget_core::var::VarMap| {
        let mut v: Vec<(String, usize)> = m.iter().map(|(v, i)| (format!("{v}"), i)).collect();
        v.sort();
        v
    };
    let fv = vars_of(f.vars());
    let j = json!({"ev": "meta", "id": cx.id, "backend": backend, "n": n, "nout": nout, "samples": pts.len(),
        "rows": rows, "lens": lens, "err": berr,
        "f_out": f.output_count(), "tape_out": [pt_t.output_count(), iv_t.output_count(), fs_t.output_count(), gs_t.output_count()],
        "f_nvars": fv.len(), "vars_agree": [vars_of(pt_t.vars()) == fv, vars_of(iv_t.vars()) == fv, vars_of(fs_t.vars()) == fv, vars_of(gs_t.vars()) == fv],
        "nvars": p.nvars, "size": f.size(), "can_simplify": f.can_simplify(), "nch": specs.len()});
    writeln!(cx.w, "{j}").unwrap();
    cx.id += 1;
}

/// Bulk evaluators reused across tapes with different output / sample counts:
/// the reported array shape must be that of the current request.
fn reuse_pass<F: Function<Trace = VmTrace>>(cx: &mut Ctx, backend: &str, n: usize, fns: &[(F, Prog)], rng: &mut Rng) {
    use fidget_core::eval::BulkEvaluator;
    let mut fe = F::new_float_slice_eval();
    let mut ge = F::new_grad_slice_eval();
    for (f, p) in fns {
        let samples = [0usize, 1, 3, 8, 9, 17][rng.below(6)];
        let cols: Vec<Vec<f32>> = (0..p.nvars).map(|_| (0..samples).map(|_| rng.range(-2.0, 2.0)).collect()).collect();
        let gcols: Vec<Vec<fidget_core::types::Grad>> = cols.iter().map(|c| c.iter().map(|v| fidget_core::types::Grad::new(*v, 1.0, 0.0, 0.0)).collect()).collect();
        let ft = f.float_slice_tape(Default::default());
        let gt = f.grad_slice_tape(Default::default());
        let r1 = vharness::catch(std::panic::AssertUnwindSafe(|| fe.eval(&ft, &cols).map(|o| (o.len() as i64, (0..o.len()).map(|i| o[i].len() as i64).collect::<Vec<_>>()))));
        let r2 = vharness::catch(std::panic::AssertUnwindSafe(|| ge.eval(&gt, &gcols).map(|o| (o.len() as i64, (0..o.len()).map(|i| o[i].len() as i64).collect::<Vec<_>>()))));
        for (what, r) in [("float", r1), ("grad", r2)] {
            let (rows, lens, err) = match r {
                Ok(Ok((rows, lens))) => (rows, lens, String::new()),
                Ok(Err(e)) => (-1, vec![], format!("{e}")),
                Err(m) => (-1, vec![], format!("panic: {m}")),
            };
            let j = json!({"ev": "bulkshape", "id": cx.id, "backend": backend, "n": n, "what": what, "nout": p.nout(),
                "samples": samples, "rows": rows, "lens": lens, "err": err});
            writeln!(cx.w, "{j}").unwrap();
            cx.id += 1;
        }
        if r1_failed(&mut fe) { fe = F::new_float_slice_eval(); }
    }
}

/// Tracing evaluators kept across functions with different numbers of clauses (the renderers do this: one evaluator per
/// worker, a new tape after every simplification): the trace of each evaluation must still be what *its* operands imply.
fn reuse_tracing<F: Function<Trace = VmTrace>>(cx: &mut Ctx, backend: &str, n: usize, fns: &[(F, Prog, Vec<ClauseSpec>, Mode)], rng: &mut Rng) {
    use fidget_core::eval::TracingEvaluator;
    let mut pe = F::new_point_eval();
    let mut ie = F::new_interval_eval();
    for (f, p, specs, mode) in fns {
        let cl: Vec<_> = specs.iter().map(|c| c.json()).collect();
        let pts = pgen::input_points(rng, *mode, p.nvars, 2);
        let bxs = boxes(rng, p.nvars, 2);
        let ptape = f.point_tape(Default::default());
        let itape = f.interval_tape(Default::default());
        for pt in &pts {
            let r = vharness::catch(std::panic::AssertUnwindSafe(|| pe.eval(&ptape, pt).map(|(o, t)| (o.to_vec(), t.map(trace_codes)))));
            let (out, trace, err, panic) = match r {
                Ok(Ok((o, t))) => (o, t, String::new(), false),
                Ok(Err(e)) => (vec![], None, format!("{e}"), false),
                Err(m) => { pe = F::new_point_eval(); (vec![], None, m, true) }
            };
            let j = json!({"ev": "trace", "id": cx.id, "backend": backend, "n": n, "kind": "point", "nout": p.nout(), "reused": true,
                "nch": specs.len(), "clauses": cl, "in": pt.iter().map(|v| bits(*v)).collect::<Vec<_>>(),
                "out": out.iter().map(|v| [bits(*v), bits(*v)]).collect::<Vec<_>>(),
                "has": trace.is_some(), "trace": trace.unwrap_or_default(), "err": err, "panic": panic, "ssa": ops_json(&p.ssa)});
            writeln!(cx.w, "{j}").unwrap();
            cx.id += 1;
        }
        for bx in &bxs {
            let r = vharness::catch(std::panic::AssertUnwindSafe(|| ie.eval(&itape, bx).map(|(o, t)| (o.to_vec(), t.map(trace_codes)))));
            let (out, trace, err, panic) = match r {
                Ok(Ok((o, t))) => (o, t, String::new(), false),
                Ok(Err(e)) => (vec![], None, format!("{e}"), false),
                Err(m) => { ie = F::new_interval_eval(); (vec![], None, m, true) }
            };
            let j = json!({"ev": "trace", "id": cx.id, "backend": backend, "n": n, "kind": "interval", "nout": p.nout(), "reused": true,
                "nch": specs.len(), "clauses": cl, "in": bx.iter().map(ibits).collect::<Vec<_>>(),
                "out": out.iter().map(ibits).collect::<Vec<_>>(),
                "has": trace.is_some(), "trace": trace.unwrap_or_default(), "err": err, "panic": panic, "ssa": ops_json(&p.ssa)});
            writeln!(cx.w, "{j}").unwrap();
            cx.id += 1;
        }
    }
}
fn r1_failed<T>(_e: &mut T) -> bool { false }

fn vm_case<const N: usize>(cx: &mut Ctx, p: &Prog, specs: &[ClauseSpec], pts: &[Vec<f32>], bxs: &[Vec<Interval>]) {
    match vm_fn::<N>(p) {
        Ok(f) => run_all::<GenericVmFunction<N>>(cx, "vm", N, &f, p, specs, pts, bxs),
        Err(m) => {
            let j = json!({"ev": "compile_panic", "id": cx.id, "n": N, "msg": m});
            writeln!(cx.w, "{j}").unwrap();
            cx.id += 1;
        }
    }
}

fn main() {
    let args: Vec<String> = std::env::args().collect();
    let quick = args[2] == "quick";
    let mut file = std::io::BufWriter::new(std::fs::File::create(&args[3]).unwrap());
    let seed = seed_from_env();
    let mut cx = Ctx { w: &mut file, id: 0 };
    let mut rng = Rng::new(seed.wrapping_add(2020));
    let mut progs: Vec<(Prog, Mode)> = vec![];
    if args[1] != "-" {
        let aps = pgen::read_tlc_programs(&args[1]);
        let stride = if quick { 3 } else { 1 };
        for (pi, ap) in aps.iter().enumerate().step_by(stride) {
            let mode = if pi % 4 == 0 { Mode::Z } else { Mode::Choice };
            let mut inst = Inst::new(seed.wrapping_mul(31).wrapping_add(pi as u64), mode, 3);
            let p = inst.instantiate(ap);
            if p.nch() > 0 {
                progs.push((p, mode));
            }
        }
    }
    // long choice-heavy programs: up to ~200 clauses
    let nlong = if quick { 60 } else { 600 };
    for k in 0..nlong {
        let mode = if k % 5 == 0 { Mode::All } else { Mode::Choice };
        let mut inst = Inst::new(rng.next(), mode, 1 + k % 4);
        let nops = [6, 20, 60, 150, 280][k % 5];
        let ap = inst.random_abstract(nops, [3, 6, 10, 16][k % 4], 3);
        progs.push((inst.instantiate(&ap), mode));
    }
    progs.extend(pgen::directed_programs().into_iter().filter(|(p, _, _)| p.nch() > 0).map(|(p, m, _)| (p, m)));
    for (k, (p0, mode)) in progs.iter().enumerate() {
        let (p, specs) = export_clause_operands(p0);
        let npt = if quick { 2 } else { 4 };
        let pts = pgen::input_points(&mut rng, *mode, p.nvars, npt);
        let bxs = boxes(&mut rng, p.nvars, npt);
        let n = [3usize, 4, 5, 8, 32, 255][k % 6];
        with_n!(n, vm_case(&mut cx, &p, &specs, &pts, &bxs));
        match jit_fn(&p) {
            Ok(f) => run_all(&mut cx, "jit", 12, &f, &p, &specs, &pts, &bxs),
            Err(m) => {
                let j = json!({"ev": "compile_panic", "id": cx.id, "n": 12, "msg": m});
                writeln!(cx.w, "{j}").unwrap();
                cx.id += 1;
            }
        }
    }
    // reuse pass: one evaluator object per backend over all programs
    let mut jfns = vec![];
    let mut vfns = vec![];
    for (p0, _) in progs.iter().take(if quick { 150 } else { 1500 }) {
        if let Ok(f) = jit_fn(p0) { jfns.push((f, p0.clone())); }
        if let Ok(f) = vm_fn::<255>(p0) { vfns.push((f, p0.clone())); }
    }
    reuse_pass(&mut cx, "jit", 12, &jfns, &mut rng);
    reuse_pass(&mut cx, "vm", 255, &vfns, &mut rng);
    // tracing evaluators kept across functions whose clause counts differ (every third program, so that neighbours differ)
    let mut jt = vec![];
    let mut vt = vec![];
    for (p0, mode) in progs.iter().step_by(if quick { 3 } else { 1 }) {
        let (p, specs) = export_clause_operands(p0);
        if let Ok(f) = jit_fn(&p) { jt.push((f, p.clone(), specs.clone(), *mode)); }
        if let Ok(f) = vm_fn::<255>(&p) { vt.push((f, p, specs, *mode)); }
    }
    reuse_tracing(&mut cx, "jit", 12, &jt, &mut rng);
    reuse_tracing(&mut cx, "vm", 255, &vt, &mut rng);
    let n = cx.id;
    file.flush().unwrap();
    vharness::evalx::exit_on_build_failures("c20");
    eprintln!("c20: {n} records, {} programs", progs.len());
}
