//! C02 recorder: x86_64 JIT single-point and SIMD many-point evaluators
//! against the interpreter.  Usage: c02 <tlc-programs-file|-> <quick|thorough> <out.ndjson>
use fidget_core::eval::{BulkEvaluator, Function};
use fidget_jit::JitFunction;
use serde_json::json;
use std::collections::HashMap;
use std::io::Write;
use vharness::{
    evalx::*,
    hooks,
    keys::{bits, seed_from_env, unbits, Rng},
    pgen::{self, Inst, Mode},
    tapes::{binary_of, export_all_slots, ssa_eval, unary_of, GOp, Prog},
};

struct Cx<'a> {
    w: &'a mut dyn Write,
    id: usize,
}

/// Per-op local obligations from the values an evaluator reported for every slot
fn node_record(cx: &mut Cx, backend: &str, p: &Prog, map: &HashMap<i64, i64>, input: &[f32], outs: &[f32], extra: serde_json::Value) {
    let val = |slot: i64| outs[map[&slot] as usize];
    let mut ops = vec![];
    for g in p.ssa.iter().rev() {
        let (a, b, reference) = match g.class {
            0 => continue,
            1 => (0.0, 0.0, input[g.a as usize]),
            2 => (0.0, 0.0, unbits(g.imm)),
            3 => {
                let a = val(g.a);
                (a, 0.0, if g.name == "Copy" { a } else { unary_of(&g.name).unwrap().eval(a) })
            }
            4 => {
                let (a, b) = (val(g.a), unbits(g.imm));
                (a, b, binary_of(&g.name).unwrap().eval(a, b))
            }
            5 => {
                let (a, b) = (unbits(g.imm), val(g.a));
                (a, b, binary_of(&g.name).unwrap().eval(a, b))
            }
            _ => {
                let (a, b) = (val(g.a), val(g.b));
                (a, b, binary_of(&g.name).unwrap().eval(a, b))
            }
        };
        ops.push(json!([g.name, g.class, bits(a), bits(b), bits(val(g.out)), bits(reference)]));
    }
    let j = json!({"ev": "nodes", "id": cx.id, "backend": backend, "ops": ops, "x": extra});
    writeln!(cx.w, "{j}").unwrap();
    cx.id += 1;
}

const G: usize = 16; // guard elements on each side of every caller slice
const GUARD: f32 = 12345.678;

/// Many-point evaluation with guard regions around the caller's slices and the
/// bulk driver's native calls recorded through the H-bulk hook
fn jit_slice_guarded(f: &JitFunction, cols: &[Vec<f32>]) -> (Result<Vec<Vec<f32>>, String>, bool, Vec<serde_json::Value>) {
    let n = cols.first().map(|c| c.len()).unwrap_or(0);
    let bufs: Vec<Vec<f32>> = cols
        .iter()
        .map(|c| {
            let mut b = vec![GUARD; G];
            b.extend_from_slice(c);
            b.extend(std::iter::repeat(GUARD).take(G));
            b
        })
        .collect();
    let before = bufs.clone();
    hooks::take();
    let r = {
        let slices: Vec<&[f32]> = bufs.iter().map(|b| &b[G..G + n]).collect();
        vharness::catch(std::panic::AssertUnwindSafe(|| {
            let tape = f.float_slice_tape(Default::default());
            let mut e = JitFunction::new_float_slice_eval();
            e.eval(&tape, &slices).map(|o| (0..o.len()).map(|i| o[i].to_vec()).collect::<Vec<_>>())
        }))
    };
    let evs: Vec<serde_json::Value> = hooks::take().iter().filter(|e| e.name == "bulk_call").map(hooks::event_json).collect();
    let intact = bufs.iter().zip(&before).all(|(a, b)| a.iter().zip(b).all(|(x, y)| x.to_bits() == y.to_bits()));
    let r = match r {
        Ok(Ok(o)) => Ok(o),
        Ok(Err(e)) => Err(format!("err: {e}")),
        Err(m) => Err(format!("panic: {m}")),
    };
    (r, intact, evs)
}

fn e2e(cx: &mut Cx, p: &Prog, rng: &mut Rng, mode: Mode, lens: &[usize]) {
    let Ok(jf) = jit_fn(p) else { return };
    let Ok(vf) = vm_fn::<12>(p) else { return };
    let nout = p.nout();
    // single point
    for pt in pgen::input_points(rng, mode, p.nvars, 4) {
        let run = ssa_eval(&p.ssa, &pt);
        let j = point_trace(&jf, &pt);
        let v = point_trace(&vf, &pt);
        let rec = json!({"ev": "e2e", "id": cx.id, "kind": "point", "nout": nout,
            "in": pt.iter().map(|x| bits(*x)).collect::<Vec<_>>(),
            "jit": j.out.iter().map(|x| bits(*x)).collect::<Vec<_>>(), "vm": v.out.iter().map(|x| bits(*x)).collect::<Vec<_>>(),
            "jerr": j.err, "verr": v.err, "bs": run.bitsens, "zs": run.zerosens});
        writeln!(cx.w, "{rec}").unwrap();
        cx.id += 1;
    }
    // many points, every requested length
    for &n in lens {
        let pts = pgen::input_points(rng, mode, p.nvars, n);
        let cols: Vec<Vec<f32>> = (0..p.nvars).map(|v| pts.iter().map(|q| q[v]).collect()).collect();
        let (jr, intact, evs) = jit_slice_guarded(&jf, &cols);
        let vr = float_slice(&vf, &cols);
        let taint: Vec<(Vec<i64>, Vec<i64>)> = pts.iter().map(|q| { let r = ssa_eval(&p.ssa, q); (r.bitsens, r.zerosens) }).collect();
        let tobits = |r: &Result<Vec<Vec<f32>>, String>| match r {
            Ok(o) => (o.iter().map(|c| c.iter().map(|x| bits(*x)).collect::<Vec<_>>()).collect::<Vec<_>>(), String::new()),
            Err(e) => (vec![], e.clone()),
        };
        let (jb, jerr) = tobits(&jr);
        let (vb, verr) = tobits(&vr);
        let rec = json!({"ev": "e2e", "id": cx.id, "kind": "slice", "nout": nout, "len": n, "nvars": p.nvars,
            "jit": jb, "vm": vb, "jerr": jerr, "verr": verr, "guards_intact": intact, "calls": evs,
            "bs": taint.iter().map(|t| t.0.clone()).collect::<Vec<_>>(), "zs": taint.iter().map(|t| t.1.clone()).collect::<Vec<_>>()});
        writeln!(cx.w, "{rec}").unwrap();
        cx.id += 1;
    }
}

fn nodes(cx: &mut Cx, p0: &Prog, rng: &mut Rng, mode: Mode) {
    let (p, map) = export_all_slots(p0);
    let Ok(jf) = jit_fn(&p) else { return };
    for pt in pgen::input_points(rng, mode, p.nvars, 3) {
        let j = point_trace(&jf, &pt);
        if j.err.is_empty() && j.out.len() == p.nout() {
            node_record(cx, "jit-point", &p, &map, &pt, &j.out, json!({"in": pt.iter().map(|x| bits(*x)).collect::<Vec<_>>()}));
        } else {
            let rec = json!({"ev": "evalfail", "id": cx.id, "backend": "jit-point", "err": j.err, "got": j.out.len(), "want": p.nout()});
            writeln!(cx.w, "{rec}").unwrap();
            cx.id += 1;
        }
    }
    // SIMD lanes: 11 samples = one full vector + a 3-element tail
    let n = 11;
    let pts = pgen::input_points(rng, mode, p.nvars, n);
    let cols: Vec<Vec<f32>> = (0..p.nvars).map(|v| pts.iter().map(|q| q[v]).collect()).collect();
    match float_slice(&jf, &cols) {
        Ok(o) if o.len() == p.nout() && o.iter().all(|c| c.len() == n) => {
            for lane in [0usize, 3, 7, 8, 10] {
                let outs: Vec<f32> = o.iter().map(|c| c[lane]).collect();
                node_record(cx, "jit-slice", &p, &map, &pts[lane], &outs, json!({"lane": lane}));
            }
        }
        Ok(o) => {
            let rec = json!({"ev": "evalfail", "id": cx.id, "backend": "jit-slice", "err": "shape", "got": o.len(), "want": p.nout()});
            writeln!(cx.w, "{rec}").unwrap();
            cx.id += 1;
        }
        Err(e) => {
            let rec = json!({"ev": "evalfail", "id": cx.id, "backend": "jit-slice", "err": e, "got": 0, "want": p.nout()});
            writeln!(cx.w, "{rec}").unwrap();
            cx.id += 1;
        }
    }
}

fn main() {
    let args: Vec<String> = std::env::args().collect();
    let quick = args[2] == "quick";
    let mut file = std::io::BufWriter::new(std::fs::File::create(&args[3]).unwrap());
    let seed = seed_from_env();
    let mut cx = Cx { w: &mut file, id: 0 };
    let mut rng = Rng::new(seed.wrapping_add(202));
    hooks::install();
    let mut progs: Vec<(Prog, Mode)> = vec![];
    if args[1] != "-" {
        let aps = pgen::read_tlc_programs(&args[1]);
        let stride = if quick { 5 } else { 1 };
        for (pi, ap) in aps.iter().enumerate().step_by(stride) {
            let mode = match pi % 3 { 0 => Mode::All, 1 => Mode::Z, _ => Mode::Choice };
            let mut inst = Inst::new(seed.wrapping_mul(977).wrapping_add(pi as u64), mode, 3);
            progs.push((inst.instantiate(ap), mode));
        }
    }
    // long programs: deep enough to force stack spills at 12 registers and to
    // interleave libm calls with many live registers
    let nlong = if quick { 200 } else { 2500 };
    for k in 0..nlong {
        let mode = match k % 4 { 0 | 1 => Mode::All, 2 => Mode::Z, _ => Mode::Choice };
        let mut inst = Inst::new(rng.next(), mode, 1 + k % 6);
        let live = [4, 9, 12, 14, 18, 24][k % 6];
        let nops = [8, 20, 40, 70][k % 4];
        let ap = inst.random_abstract(nops, live, 3);
        progs.push((inst.instantiate(&ap), mode));
    }
    // very long programs (code that outgrows the initial executable mapping, frames with many spill slots) and programs
    // with dozens of input variables (argument offsets beyond one byte)
    for k in 0..(if quick { 6 } else { 40 }) {
        let big = k % 2 == 0;
        let mut inst = Inst::new(rng.next(), Mode::All, if big { 1 + k % 5 } else { 30 + 10 * (k % 4) });
        let ap = if big { inst.random_abstract([1500, 4000, 2500][k % 3], [16, 30, 60][k % 3], 3) } else { inst.random_abstract(250, 48, 3) };
        progs.push((inst.instantiate(&ap), Mode::All));
    }
    // directed families: the same immediate on both sides of every opcode; every opcode at the rounding / domain boundaries
    let ndirected = {
        let d = pgen::directed_programs();
        let n = d.len();
        progs.extend(d.into_iter().map(|(p, m, _)| (p, m)));
        n
    };
    let first_directed = progs.len() - ndirected;
    let all_lens: Vec<usize> = (0..=35).collect();
    let quick_lens = [0usize, 1, 5, 7, 8, 9, 15, 16, 17, 23, 31, 32, 33, 35];
    for (k, (p, mode)) in progs.iter().enumerate() {
        if p.ssa.len() <= 90 {
            nodes(&mut cx, p, &mut rng, *mode);
        }
        let lens: Vec<usize> = if k >= first_directed { vec![35, 9, 3] } else if !quick || k % 10 == 0 { all_lens.clone() } else { (0..4).map(|i| quick_lens[(k + i * 5) % quick_lens.len()]).collect() };
        // a few programs also over slices far longer than anything a renderer hands in (thousands of samples)
        let mut lens = lens;
        if k % 40 == 7 && p.ssa.len() <= 40 {
            lens.push([1025usize, 4099, 2049][(k / 40) % 3]);
        }
        e2e(&mut cx, p, &mut rng, *mode, &lens);
    }
    let n = cx.id;
    file.flush().unwrap();
    vharness::evalx::exit_on_build_failures("c02");
    eprintln!("c02: {n} records over {} programs", progs.len());
    let _: Option<GOp> = None;
}
