//! C19 recorder: consistent linear systems with integer coefficients, random fixed
//! subsets, equations over different subsets of the variables, both backends.
//! Usage: c19 <quick|thorough> <out.ndjson>
use fidget_core::{
    context::{Context, Tree},
    eval::MathFunction,
    var::Var,
    vm::VmFunction,
};
use fidget_jit::JitFunction;
use fidget_solver::{solve, Parameter};
use serde_json::json;
use std::collections::HashMap;
use std::hash::{Hash, Hasher};
use std::io::Write;
use vharness::{
    hooks,
    keys::{bits, seed_from_env, Rng},
};

/// kept events, total count, number to keep, limit (a solve exceeding it is reported as not returning)
static EVENTS: std::sync::Mutex<(Vec<fidget_core::verif::Event>, usize, usize, usize)> = std::sync::Mutex::new((Vec::new(), 0, 0, 0));

/// number of solves given up so far; exploration stops after a few of them (what was recorded is still judged)
static SLOW: std::sync::atomic::AtomicUsize = std::sync::atomic::AtomicUsize::new(0);
const MAX_SLOW: usize = 4;
/// 2 x (solves started) - (1 if one is running)
static SOLVES: std::sync::atomic::AtomicUsize = std::sync::atomic::AtomicUsize::new(0);

fn nfree_of(s: &System) -> usize {
    s.fixed.iter().filter(|f| !**f).count()
}

fn var_hash(v: &Var) -> i64 {
    let mut h = std::collections::hash_map::DefaultHasher::new();
    v.hash(&mut h);
    h.finish() as i64
}

struct System {
    vars: Vec<Var>,
    names: Vec<String>,
    fixed: Vec<bool>,
    start: Vec<f32>,
    /// equations: coefficients per variable (0 = absent) and right-hand side
    eqs: Vec<(Vec<i64>, i64)>,
    truth: Vec<i64>,
    /// free parameters that no equation mentions (the system is then under-determined)
    loose: Vec<bool>,
    /// scales (powers of two, so that everything stays exact): actual coefficient = coefficient x cs, actual values
    /// (solution, start) = value x xs.  A uniformly scaled system is as well conditioned as the unscaled one.
    cs: f64,
    xs: f64,
    /// rotation of the order in which the terms of equation k are added up (the order in which a tape meets its
    /// variables, and so its own numbering of them, follows from it)
    rot: bool,
}

fn gen_system(rng: &mut Rng, n: usize, satisfied_start: bool) -> System {
    let mut vars = vec![];
    let mut names = vec![];
    for i in 0..n {
        let v = match (i, rng.below(3)) { (0, 0) => Var::X, (1, 0) => Var::Y, (2, 0) => Var::Z, _ => Var::new() };
        vars.push(v);
        names.push(format!("p{i}"));
    }
    let truth: Vec<i64> = (0..n).map(|_| rng.below(9) as i64 - 4).collect();
    let mut fixed: Vec<bool> = (0..n).map(|_| rng.below(4) == 0).collect();
    if rng.below(12) == 0 {
        fixed = vec![true; n]; // nothing is free
    }
    let with_loose = rng.below(3) == 0;
    let mut loose: Vec<bool> = (0..n).map(|i| with_loose && !fixed[i] && rng.below(4) == 0).collect();
    // a well-conditioned consistent system: one equation per free variable, diagonally dominant
    let mut eqs = vec![];
    let free_idx: Vec<usize> = (0..n).filter(|i| !fixed[*i]).collect();
    for (k, &fi) in free_idx.iter().enumerate() {
        if loose[fi] {
            continue;
        }
        let mut coefs = vec![0i64; n];
        coefs[fi] = 8 + rng.below(4) as i64; // strictly dominant: at most 3 others of magnitude <= 2
        // a few other variables (free or fixed) with small coefficients: different subsets per equation
        for _ in 0..rng.below(4) {
            let j = rng.below(n);
            if j != fi && !loose[j] {
                coefs[j] = [-1i64, 1, 1, -1, 2][rng.below(5)];
            }
        }
        if k % 5 == 4 {
            // an equation that only mentions one variable
            coefs = vec![0; n];
            coefs[fi] = 3;
        }
        let b: i64 = (0..n).map(|j| coefs[j] * truth[j]).sum();
        eqs.push((coefs, b));
    }
    if eqs.is_empty() {
        // equations over fixed parameters only (already satisfied)
        let mut coefs = vec![0i64; n];
        let j = (0..n).find(|j| fixed[*j]).unwrap_or(0);
        loose[j] = false;
        coefs[j] = 1;
        eqs.push((coefs.clone(), truth[j]));
    }
    let start: Vec<f32> = (0..n).map(|i| if fixed[i] || loose[i] || satisfied_start { truth[i] as f32 } else { truth[i] as f32 + rng.below(7) as f32 - 3.0 }).collect();
    System { vars, names, fixed, start, eqs, truth, loose, cs: 1.0, xs: 1.0, rot: false }
}

/// Directed systems.  `dense`: every equation mentions every parameter (free and fixed), diagonally dominant, and the
/// terms of equation k are added up starting from term k: all tapes read the same set of variables but number them
/// differently.  `partial`: non-negative coefficients, the first equation mentions only the first free parameter, and
/// the start is the solution for that parameter and below it for all others: one residual is exactly zero at the
/// start, all others are negative.
fn gen_directed(rng: &mut Rng, n: usize, dense: bool) -> System {
    let vars: Vec<Var> = (0..n).map(|i| match (i, rng.below(3)) { (0, 0) => Var::X, (1, 0) => Var::Y, (2, 0) => Var::Z, _ => Var::new() }).collect();
    let names: Vec<String> = (0..n).map(|i| format!("p{i}")).collect();
    // distinct solution values: a parameter bound by position instead of identity is then bound to another value
    let mut truth: Vec<i64> = (0..n as i64).map(|i| i - n as i64 / 2).collect();
    for i in (1..n).rev() { truth.swap(i, rng.below(i + 1)); }
    let mut fixed: Vec<bool> = (0..n).map(|i| i > 0 && rng.below(4) == 0).collect();
    fixed[0] = false;
    let free_idx: Vec<usize> = (0..n).filter(|i| !fixed[*i]).collect();
    let mut eqs = vec![];
    for (k, &fi) in free_idx.iter().enumerate() {
        let mut coefs = vec![0i64; n];
        if dense {
            for j in 0..n { coefs[j] = [-1i64, 1, 1, -1][rng.below(4)]; }
            coefs[fi] = n as i64 + 2 + rng.below(3) as i64;
        } else if k == 0 {
            coefs[fi] = 3;
        } else {
            coefs[fi] = 8 + rng.below(4) as i64;
            for _ in 0..rng.below(4) { let j = rng.below(n); if j != fi { coefs[j] = 1 + rng.below(2) as i64; } }
        }
        let b: i64 = (0..n).map(|j| coefs[j] * truth[j]).sum();
        eqs.push((coefs, b));
    }
    let start: Vec<f32> = (0..n).map(|i| {
        if fixed[i] { truth[i] as f32 }
        else if dense { truth[i] as f32 + rng.below(7) as f32 - 3.0 }
        else if i == free_idx[0] { truth[i] as f32 }
        else { truth[i] as f32 - 1.0 - rng.below(3) as f32 }
    }).collect();
    System { vars, names, fixed, start, eqs, truth, loose: vec![false; n], cs: 1.0, xs: 1.0, rot: dense }
}

fn run<F: MathFunction + Clone>(w: &mut dyn Write, id: &mut usize, backend: &str, sys: &System) {
    let mut ctx = Context::new();
    let mut fs = vec![];
    let (cs, xs) = (sys.cs, sys.xs);
    for (k, (coefs, b)) in sys.eqs.iter().enumerate() {
        let mut t = Tree::constant(-((*b as f64 * cs * xs) as f32));
        let nv = coefs.len();
        for q in 0..nv {
            let j = if sys.rot { (q + k) % nv } else { q };
            let c = &coefs[j];
            if *c != 0 {
                // every other equation of a rotated system is also nested from the other side
                t = if sys.rot && k % 2 == 1 { Tree::from(sys.vars[j]) * Tree::constant((*c as f64 * cs) as f32) + t } else { t + Tree::from(sys.vars[j]) * Tree::constant((*c as f64 * cs) as f32) };
            }
        }
        let n = ctx.import(&t);
        fs.push(F::new(&ctx, &[n]).unwrap());
    }
    let mut params: HashMap<Var, Parameter> = HashMap::new();
    for (j, v) in sys.vars.iter().enumerate() {
        let st = (sys.start[j] as f64 * xs) as f32;
        params.insert(*v, if sys.fixed[j] { Parameter::Fixed(st) } else { Parameter::Free(st) });
    }
    let keep = sys.eqs.len() * sys.vars.len() + sys.vars.len();
    // a solve is given up (status "slow": SPEC-DRIFT, not a verdict) after 10^5 iterations, at most 3 x 10^6 hook events
    let limit = (std::env::var("C19_ITER").ok().and_then(|s| s.parse().ok()).unwrap_or(100_000usize) * sys.eqs.len().max(1) * sys.vars.len()).min(3_000_000);
    *EVENTS.lock().unwrap() = (vec![], 0, keep, limit);
    w.flush().unwrap();
    SOLVES.fetch_add(1, std::sync::atomic::Ordering::Relaxed); // odd: a solve is running
    let mut r = vharness::catch(std::panic::AssertUnwindSafe(|| solve(&fs, &params)));
    SOLVES.fetch_add(1, std::sync::atomic::Ordering::Relaxed);
    if let (Err(m), Ok(f)) = (&r, std::env::var("C19_RETRY").map(|s| s.parse::<usize>().unwrap())) {
        if m.contains("did not return") {
            let t = std::time::Instant::now();
            *EVENTS.lock().unwrap() = (vec![], 0, keep, limit * f);
            r = vharness::catch(std::panic::AssertUnwindSafe(|| solve(&fs, &params)));
            let total = EVENTS.lock().unwrap().1;
            eprintln!("retry id {} x{}: {} after {} events ({:?})", *id, f, if r.is_ok() { "returned" } else { "still running" }, total, t.elapsed());
        }
    }
    let (evs, total, _, _) = std::mem::take(&mut *EVENTS.lock().unwrap());
    let iterations = if nfree_of(sys) == 0 { 0 } else { total / (sys.eqs.len() * nfree_of(sys)).max(1) };
    let name_of: HashMap<i64, String> = sys.vars.iter().zip(&sys.names).map(|(v, n)| (var_hash(v), n.clone())).collect();
    let mut gi_name: HashMap<i64, String> = HashMap::new();
    for e in evs.iter().filter(|e| e.name == "grad_index") {
        gi_name.insert(hooks::field(e, "gi"), name_of.get(&hooks::field(e, "var")).cloned().unwrap_or("?".into()));
    }
    // Jacobian of the first iteration only (it is constant for a linear system)
    let neq = sys.eqs.len() as i64;
    let nfree = gi_name.len() as i64;
    let jac: Vec<_> = evs.iter().filter(|e| e.name == "jacobian").take((neq * nfree) as usize)
        .map(|e| {
            let v = hooks::field(e, "value");
            let v = if cs < 1.0 { bits((f32::from_bits(v as i32 as u32) as f64 / cs) as f32) } else { v };
            json!([hooks::field(e, "eq"), gi_name.get(&hooks::field(e, "gi")).cloned().unwrap_or("?".into()), v])
        }).collect();
    if matches!(&r, Err(m) if m.contains("did not return")) {
        SLOW.fetch_add(1, std::sync::atomic::Ordering::Relaxed);
    }
    let (status, result, msg): (&str, Vec<(String, f32)>, String) = match r {
        Ok(Ok(m)) => ("ok", m.iter().map(|(v, x)| (name_of.get(&var_hash(v)).cloned().unwrap_or("?".into()), *x)).collect(), String::new()),
        Ok(Err(e)) => ("err", vec![], format!("{e}")),
        Err(m) if m.contains("did not return") => ("slow", vec![], m),
        Err(m) => ("panic", vec![], m),
    };
    // residual in f64 (judged): every equation within 1e-3 of zero, scaled by coefficient magnitude
    let val = |name: &str| -> f64 {
        let j = sys.names.iter().position(|n| n == name).unwrap();
        if sys.fixed[j] { sys.start[j] as f64 * xs } else { result.iter().find(|(n, _)| n == name).map(|(_, x)| *x as f64).unwrap_or(f64::NAN) }
    };
    let mut max_res = 0.0f64;
    for (coefs, b) in &sys.eqs {
        let mut s = -(*b as f64 * cs * xs);
        for (j, c) in coefs.iter().enumerate() {
            if *c != 0 { s += *c as f64 * cs * val(&sys.names[j]); }
        }
        max_res = max_res.max(s.abs() / (cs * xs));
    }
    let near_truth = result.iter().all(|(n, x)| {
        let j = sys.names.iter().position(|m| m == n).unwrap();
        (*x as f64 / xs - sys.truth[j] as f64).abs() < 1.0e-2
    });
    let satisfied_start = sys.eqs.iter().all(|(coefs, b)| coefs.iter().enumerate().map(|(j, c)| *c as f64 * sys.start[j] as f64).sum::<f64>() == *b as f64);
    let mut res_sorted = result.clone();
    res_sorted.sort_by(|a, b| a.0.cmp(&b.0));
    let j = json!({"ev": "solve", "id": *id, "backend": backend, "status": status, "msg": msg, "n": sys.vars.len(),
        "roles": sys.names.iter().enumerate().map(|(j, n)| json!([n, if sys.fixed[j] { "fixed" } else { "free" }, bits((sys.start[j] as f64 * xs) as f32)])).collect::<Vec<_>>(),
        "eqs": sys.eqs.iter().map(|(c, b)| json!({"coefs": sys.names.iter().zip(c).filter(|(_, c)| **c != 0).map(|(n, c)| json!([n, (*c as f64 * cs.max(1.0)) as i64])).collect::<Vec<_>>(), "b": b})).collect::<Vec<_>>(),
        "cs_log2": cs.log2() as i64, "xs_log2": xs.log2() as i64,
        "jac": jac, "result": res_sorted.iter().map(|(n, x)| json!([n, bits(*x)])).collect::<Vec<_>>(),
        "residual_small": max_res.is_finite() && max_res < 1.0e-3, "satisfied_start": satisfied_start,
        "truth": sys.truth, "loose": sys.loose.iter().filter(|l| **l).count(), "near_truth": near_truth, "iterations": iterations});
    writeln!(w, "{j}").unwrap();
    *id += 1;
}

fn main() {
    let args: Vec<String> = std::env::args().collect();
    let quick = args[1] == "quick";
    let mut w = std::io::BufWriter::new(std::fs::File::create(&args[2]).unwrap());
    let mut rng = Rng::new(seed_from_env().wrapping_add(1919));
    fidget_core::verif::set_sink(Some(std::sync::Arc::new(|e: fidget_core::verif::Event| {
        let over = {
            let mut g = EVENTS.lock().unwrap();
            g.1 += 1;
            if g.0.len() < g.2 { g.0.push(e); }
            g.1 > g.3
        };
        if over { panic!("solver did not return within the iteration bound"); }
    })));
    // A solve that stops emitting hook events cannot be given up through the event budget (observed with a seeded change:
    // the SVD of a matrix full of NaNs inside nalgebra).  A watchdog ends the recorder when one solve has been running for
    // two minutes of wall-clock time: exit status 3, the records written so far are judged, the hang itself is reported
    // as SPEC-DRIFT (no verdict depends on the clock).
    std::thread::spawn(|| {
        let mut last = (0usize, std::time::Instant::now());
        loop {
            std::thread::sleep(std::time::Duration::from_secs(1));
            let n = SOLVES.load(std::sync::atomic::Ordering::Relaxed);
            if n != last.0 {
                last = (n, std::time::Instant::now());
            } else if n % 2 == 1 && last.1.elapsed().as_secs() > 120 {
                eprintln!("c19: solve {} has not returned after two minutes: giving up", n / 2);
                std::process::exit(3);
            }
        }
    });
    let mut id = 0;
    let reps = if quick { 3 } else { 40 };
    for n in 1..=40usize {
        for rep in 0..reps {
            if SLOW.load(std::sync::atomic::Ordering::Relaxed) >= MAX_SLOW {
                break;
            }
            let sys = gen_system(&mut rng, n, rep % 3 == 2);
            run::<VmFunction>(&mut w, &mut id, "vm", &sys);
            if rep % 2 == 0 {
                run::<JitFunction>(&mut w, &mut id, "jit", &sys);
            }
        }
    }
    // uniformly scaled systems: coefficients x 2^20, unknowns x 2^-26 (about 1e6 and 1.5e-8): as well conditioned as the
    // unscaled ones, but every absolute threshold in the iteration is off by many orders of magnitude
    for n in 1..=12usize {
        for rep in 0..(if quick { 2 } else { 12 }) {
            if SLOW.load(std::sync::atomic::Ordering::Relaxed) >= 2 * MAX_SLOW {
                break;
            }
            let mut sys = gen_system(&mut rng, n, rep % 4 == 3);
            // (a system scaled down is recorded with its unscaled integer coefficients; the Jacobian entries the hook
            // reports are divided by the scale, a power of two, before they are recorded: exact)
            (sys.cs, sys.xs) = if rep % 2 == 0 { (1048576.0, 1.0 / 67108864.0) } else { (1.0 / 16384.0, 1024.0) };
            run::<VmFunction>(&mut w, &mut id, "vm", &sys);
            if rep % 2 == 0 {
                run::<JitFunction>(&mut w, &mut id, "jit", &sys);
            }
        }
    }
    // directed systems: the same parameters numbered differently by every tape; one residual exactly zero at the start
    for n in 2..=(if quick { 9 } else { 16 }) {
        for rep in 0..(if quick { 2 } else { 8 }) {
            if SLOW.load(std::sync::atomic::Ordering::Relaxed) >= 2 * MAX_SLOW {
                break;
            }
            let sys = gen_directed(&mut rng, n, rep % 2 == 0);
            run::<VmFunction>(&mut w, &mut id, "vm", &sys);
            if (n + rep) % 2 == 0 {
                run::<JitFunction>(&mut w, &mut id, "jit", &sys);
            }
        }
    }
    // many unknowns (the property says any number): more than 64 samples of three free parameters each
    for (k, n) in (if quick { vec![100usize, 300] } else { vec![80, 100, 150, 200, 230, 260, 300, 400] }).into_iter().enumerate() {
        if SLOW.load(std::sync::atomic::Ordering::Relaxed) >= 3 * MAX_SLOW {
            break;
        }
        // no free parameter without an equation: every free parameter is an unknown with an equation of its own
        let mut sys = gen_system(&mut rng, n, false);
        while sys.loose.iter().any(|l| *l) || nfree_of(&sys) == 0 { sys = gen_system(&mut rng, n, false); }
        if k % 2 == 0 { run::<VmFunction>(&mut w, &mut id, "vm", &sys); } else { run::<JitFunction>(&mut w, &mut id, "jit", &sys); }
    }
    // equations that are constants (they read no variable at all) next to free parameters: everything is satisfied
    // exactly at the start, which must be returned unchanged
    for n in 1..=4usize {
        let mut sys = gen_system(&mut rng, n, true);
        sys.fixed = vec![false; n];
        sys.loose = vec![true; n];
        sys.eqs = (0..n).map(|_| (vec![0i64; n], 0i64)).collect();
        run::<VmFunction>(&mut w, &mut id, "vm", &sys);
        run::<JitFunction>(&mut w, &mut id, "jit", &sys);
    }
    w.flush().unwrap();
    eprintln!("c19: {id} solves");
}
