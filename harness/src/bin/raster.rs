//! C06 / C07 recorder: renders shapes with the real 2D and 3D renderers and
//! records each image next to the brute-force evaluation of the shape at the
//! same sample positions.
//! Usage: raster <c06|c07> <bitmaps-file|-> <quick|thorough> <out.ndjson>
use fidget_core::{
    context::{Context, Node},
    eval::{Function, MathFunction},
    render::{ImageSize, RenderHints, ThreadPool, TileSizes, VoxelSize},
    shape::{EzShape, Shape, ShapeVars},
    types::Grad,
    vm::VmFunction,
};
use fidget_jit::JitFunction;
use fidget_raster::{pixel, voxel};
use nalgebra::{Matrix3, Matrix4};
use serde_json::{json, Value};
use std::io::Write;
use vharness::{
    keys::{bits, seed_from_env, Rng},
    shapes::{self, Built},
};

struct Cx<'a> {
    w: &'a mut dyn Write,
    id: usize,
    vbits: Option<(usize, Vec<u8>)>,
}

fn pool(n: usize) -> ThreadPool {
    ThreadPool::Custom(rayon::ThreadPoolBuilder::new().num_threads(n).build().unwrap())
}

/// reference values of the unsimplified shape at transformed sample positions (interpreter, fresh evaluator)
fn reference(b: &Built, m: &Matrix4<f32>, pts: &[(f32, f32, f32)]) -> Vec<f32> {
    let shape = Shape::<VmFunction>::new(&b.ctx, b.root).unwrap();
    let tape = shape.ez_float_slice_tape();
    let mut e = Shape::<VmFunction>::new_float_slice_eval();
    let mut out = Vec::with_capacity(pts.len());
    for chunk in pts.chunks(4096) {
        let xs: Vec<f32> = chunk.iter().map(|p| p.0).collect();
        let ys: Vec<f32> = chunk.iter().map(|p| p.1).collect();
        let zs: Vec<f32> = chunk.iter().map(|p| p.2).collect();
        out.extend_from_slice(e.eval_with_transform(&tape, &xs, &ys, &zs, m).unwrap());
    }
    out
}

/// The documented screen-to-world mapping of a region (fidget-core/src/render/region.rs, struct docstring): the centre of
/// the region goes to the origin, the y axis is flipped (+1 lies one pixel beyond the top edge), and the *shortest* axis
/// of the region spans -1 .. +1 (the longer ones exceed it).  Written here from the documentation, not from the code.
fn documented_s2w(size: &[u32]) -> Vec<Vec<f64>> {
    let n = size.len();
    let scale = 2.0 / *size.iter().min().unwrap() as f64;
    let mut m = vec![vec![0.0f64; n + 1]; n + 1];
    for a in 0..n {
        let centre = size[a] as f64 / 2.0 - if a == 1 { 1.0 } else { 0.0 };
        let s = if a == 1 { -scale } else { scale };
        m[a][a] = s;
        m[a][n] = -centre * s;
    }
    m[n][n] = 1.0;
    m
}
fn s2w_matches<const R: usize>(got: &nalgebra::SMatrix<f32, R, R>, size: &[u32]) -> bool {
    let want = documented_s2w(size);
    (0..R).all(|i| (0..R).all(|j| (got[(i, j)] as f64 - want[i][j]).abs() <= 1.0e-6 * (1.0 + want[i][j].abs())))
}

fn mat3_to_4(m: &Matrix3<f32>) -> Matrix4<f32> {
    // x' = m00 x + m01 y + m02 ; y' likewise ; z preserved ; w = m20 x + m21 y + m22
    Matrix4::new(
        m[(0, 0)], m[(0, 1)], 0.0, m[(0, 2)],
        m[(1, 0)], m[(1, 1)], 0.0, m[(1, 2)],
        0.0, 0.0, 1.0, 0.0,
        m[(2, 0)], m[(2, 1)], 0.0, m[(2, 2)],
    )
}

fn random_view2(rng: &mut Rng, k: usize) -> Matrix3<f32> {
    let mut m = Matrix3::identity();
    match k % 5 {
        0 => {}
        1 => {
            let s = rng.range(0.5, 2.0);
            m[(0, 0)] = s;
            m[(1, 1)] = s * rng.range(0.7, 1.3);
            m[(0, 2)] = rng.range(-0.5, 0.5);
            m[(1, 2)] = rng.range(-0.5, 0.5);
        }
        2 => {
            let a = rng.range(0.0, 6.28);
            m[(0, 0)] = a.cos();
            m[(0, 1)] = -a.sin();
            m[(1, 0)] = a.sin();
            m[(1, 1)] = a.cos();
        }
        3 => {
            // projective: zoom stored in w
            m[(2, 2)] = rng.range(0.5, 2.0);
        }
        _ => {
            // keystone
            m[(2, 0)] = rng.range(-0.2, 0.2);
            m[(2, 1)] = rng.range(-0.2, 0.2);
            m[(0, 1)] = rng.range(-0.3, 0.3);
        }
    }
    m
}

const TILE_LISTS_2D: [&[usize]; 12] = [&[4, 2], &[8, 4, 2], &[8, 2], &[16, 4], &[2], &[8], &[32, 8], &[24, 8], &[30, 10, 5], &[20], &[12, 6, 3], &[16, 8, 4, 2, 1]];

fn render2<F: Function + RenderHints + MathFunction + Clone>(cx: &mut Cx, backend: &str, b: &Built, w: u32, h: u32, tiles: &[usize], view: Matrix3<f32>, perfect: bool, z: f32, threads: usize) {
    let shape = Shape::<F>::new(&b.ctx, b.root).unwrap();
    let cfg = pixel::RenderConfig { image_size: ImageSize::new(w, h), world_to_model: view, pixel_perfect: perfect, z };
    let tp = if threads > 0 { Some(pool(threads)) } else { None };
    let vars = ShapeVars::<f32>::new();
    let bound = shape.bind(&vars).unwrap();
    // an empty tile list stands for the default evaluation configuration (the backend's own tile sizes, the global
    // pool), reached through the convenience entry point RenderConfig::run
    let r = if tiles.is_empty() {
        vharness::catch(std::panic::AssertUnwindSafe(|| Some(cfg.run(bound))))
    } else {
        let ecfg = pixel::EvalConfig { tile_sizes: Some(TileSizes::new(tiles).unwrap()), threads: tp.as_ref(), cancel: Default::default() };
        vharness::catch(std::panic::AssertUnwindSafe(|| pixel::render(bound, &cfg, &ecfg)))
    };
    let m4 = mat3_to_4(&cfg.mat());
    let pts: Vec<(f32, f32, f32)> = (0..h).flat_map(|j| (0..w).map(move |i| (i as f32, j as f32, z))).collect();
    let reference = reference(b, &m4, &pts);
    let (ok, err, pix, val): (bool, String, Vec<i64>, Vec<i64>) = match r {
        Ok(Some(img)) => {
            let mut pix = vec![];
            let mut val = vec![];
            for p in img.iter() {
                pix.push(p.inside() as i64);
                val.push(match p.unpack() { pixel::DistancePixel::Value(v) => bits(v), _ => i32::MIN as i64 + 5 });
            }
            (true, String::new(), pix, val)
        }
        Ok(None) => (false, "none".into(), vec![], vec![]),
        Err(m) => (false, format!("panic: {m}"), vec![], vec![]),
    };
    let j = json!({"ev": "image2d", "id": cx.id, "backend": backend, "w": w, "h": h, "tiles": tiles, "perfect": perfect, "threads": threads,
        "ok": ok, "err": err, "pix": pix, "val": if perfect { val } else { vec![] }, "ref": reference.iter().map(|v| bits(*v)).collect::<Vec<_>>(),
        "band": bits(2.0e-5), "desc": b.desc, "view": view.as_slice().iter().map(|v| bits(*v)).collect::<Vec<_>>(), "z": bits(z),
        "s2w_ok": s2w_matches::<3>(&ImageSize::new(w, h).screen_to_world(), &[w, h])});
    writeln!(cx.w, "{j}").unwrap();
    cx.id += 1;
}

/// union of pixel-aligned rectangles realising a bitmap in model space (identity view)
fn bitmap_shape(rows: &[Vec<u8>], w: u32, h: u32) -> Built {
    let size = ImageSize::new(w, h);
    let s2w = size.screen_to_world();
    let pos = |i: f32, j: f32| s2w.transform_point(&nalgebra::Point2::new(i, j));
    let mut ctx = Context::new();
    let mut used = vec![vec![false; w as usize]; h as usize];
    let mut acc: Option<Node> = None;
    // greedy decomposition into maximal rectangles
    for j in 0..h as usize {
        for i in 0..w as usize {
            if rows[j][i] == 0 || used[j][i] { continue; }
            let mut i1 = i;
            while i1 + 1 < w as usize && rows[j][i1 + 1] == 1 && !used[j][i1 + 1] { i1 += 1; }
            let mut j1 = j;
            'grow: while j1 + 1 < h as usize {
                for x in i..=i1 { if rows[j1 + 1][x] == 0 || used[j1 + 1][x] { break 'grow; } }
                j1 += 1;
            }
            for y in j..=j1 { for x in i..=i1 { used[y][x] = true; } }
            let a = pos(i as f32 - 0.5, j as f32 - 0.5);
            let c = pos(i1 as f32 + 0.5, j1 as f32 + 0.5);
            let r = shapes::rect2(&mut ctx, a.x.min(c.x), a.x.max(c.x), a.y.min(c.y), a.y.max(c.y));
            acc = Some(match acc { None => r, Some(p) => ctx.min(p, r).unwrap() });
        }
    }
    let root = acc.unwrap_or_else(|| ctx.constant(1.0));
    Built { ctx, root, desc: format!("bitmap {w}x{h}") }
}

fn read_bitmaps(path: &str) -> Vec<(u32, u32, Vec<Vec<u8>>)> {
    let text = std::fs::read_to_string(path).unwrap_or_default();
    let mut lines: Vec<&str> = text.lines().filter(|l| l.starts_with("<<\"GEN\", \"")).collect();
    lines.sort();
    lines.dedup();
    lines.iter().filter_map(|l| {
        let body = l.trim_start_matches("<<\"GEN\", \"").trim_end_matches("\">>").replace("\\\"", "\"");
        let v: Value = serde_json::from_str(&body).ok()?;
        let w = v["w"].as_u64()? as u32;
        let h = v["h"].as_u64()? as u32;
        let rows = v["rows"].as_array()?.iter().map(|r| r.as_array().unwrap().iter().map(|b| b.as_u64().unwrap() as u8).collect()).collect();
        Some((w, h, rows))
    }).collect()
}

fn c06(cx: &mut Cx, bitmaps: &str, quick: bool, rng: &mut Rng) {
    // (a) TLC bitmaps on tiny grids: every pixel matters, tile lists that overhang
    let bms = read_bitmaps(bitmaps);
    for (k, (w, h, rows)) in bms.iter().enumerate() {
        let b = bitmap_shape(rows, *w, *h);
        // every inside set of the bound under three tile lists (root tiles that overhang, single-level lists, 1-pixel leaves)
        for t in 0..3 {
            let k = k + 3 * t + t;
            let tl: &[usize] = [&[4usize, 2][..], &[4, 2, 1], &[2], &[4], &[2, 1], &[3], &[6, 3]][k % 7];
            if k % 2 == 0 { render2::<VmFunction>(cx, "vm", &b, *w, *h, tl, Matrix3::identity(), k % 3 == 0, 0.0, 0); }
            else { render2::<JitFunction>(cx, "jit", &b, *w, *h, tl, Matrix3::identity(), k % 3 == 0, 0.0, [0, 2, 5][k % 3]); }
        }
    }
    // (b) random bitmaps on larger grids
    let sizes: [(u32, u32); 8] = [(16, 16), (17, 9), (9, 23), (32, 20), (40, 40), (13, 13), (64, 64), (96, 40)];
    for k in 0..(if quick { 200 } else { 2000 }) {
        let (w, h) = sizes[k % sizes.len()];
        let (w, h) = (w.min(40), h.min(40));
        let rows: Vec<Vec<u8>> = {
            let mut r = vec![vec![0u8; w as usize]; h as usize];
            for _ in 0..(1 + rng.below(6)) {
                let (x0, y0) = (rng.below(w as usize), rng.below(h as usize));
                let (x1, y1) = ((x0 + rng.below(w as usize / 2 + 1)).min(w as usize - 1), (y0 + rng.below(h as usize / 2 + 1)).min(h as usize - 1));
                for y in y0..=y1 { for x in x0..=x1 { r[y][x] = 1; } }
            }
            r
        };
        let b = bitmap_shape(&rows, w, h);
        let tl = TILE_LISTS_2D[rng.below(TILE_LISTS_2D.len())];
        if k % 2 == 0 { render2::<VmFunction>(cx, "vm", &b, w, h, tl, Matrix3::identity(), k % 4 == 1, 0.0, [0, 1, 3][k % 3]); }
        else { render2::<JitFunction>(cx, "jit", &b, w, h, tl, Matrix3::identity(), k % 4 == 1, 0.0, [0, 2, 7][k % 3]); }
    }
    // (b2) the default evaluation configuration through RenderConfig::run, on images larger than the backends' root tiles
    for (k, (w, h)) in [(300u32, 140u32), (129, 257), (64, 64), (260, 131)].iter().enumerate() {
        let n = 2 + k;
        let b = shapes::random_csg2(rng, n);
        let view = random_view2(rng, k % 3);
        if k % 2 == 0 { render2::<VmFunction>(cx, "vm", &b, *w, *h, &[], view, k % 3 == 0, 0.0, 0); }
        render2::<JitFunction>(cx, "jit", &b, *w, *h, &[], view, k % 3 == 1, 0.0, 0);
    }
    // (c) CSG, NaN-interval shapes and bundled models with views, sizes, tile lists, pools
    let n = if quick { 300 } else { 3000 };
    for k in 0..n {
        // every fourth shape depends on z (3D CSG cut at the slice height), so the `z` of the configuration matters
        let solid = k % 4 == 3;
        let b = match k % 6 {
            _ if solid => { let n = 1 + rng.below(5); shapes::random_csg3(rng, n, false) }
            0 | 1 | 2 => { let n = 1 + rng.below(6); shapes::random_csg2(rng, n) }
            3 | 5 => shapes::nan_interval_shape(k / 6 + k % 2),
            4 => shapes::model(["hi", "quarter"][(k / 6) % 2]).unwrap_or_else(|| shapes::random_csg2(rng, 3)),
            _ => shapes::random_csg2(rng, 8),
        };
        let (w, h) = sizes[rng.below(sizes.len())];
        let tl = TILE_LISTS_2D[rng.below(TILE_LISTS_2D.len())];
        // z-dependent shapes only under affine views: what a slice height means under a projective 2D view is not stated
        let view = random_view2(rng, if solid { k % 3 } else { k });
        let perfect = k % 3 == 0;
        let z = if solid { rng.range(-0.7, 0.7) } else if k % 7 == 0 { rng.range(-0.5, 0.5) } else { 0.0 };
        let threads = [0usize, 1, 2, 4, 8, 16][rng.below(6)];
        if k % 2 == 0 { render2::<VmFunction>(cx, "vm", &b, w, h, tl, view, perfect, z, threads); }
        else { render2::<JitFunction>(cx, "jit", &b, w, h, tl, view, perfect, z, threads); }
    }
}

// ---------------------------------------------------------------------------------------------
const TILE_LISTS_3D: [&[usize]; 8] = [&[4, 2], &[8, 4], &[8], &[4], &[8, 2], &[16, 8, 4], &[12, 6], &[16, 4]];

fn render3<F: Function + RenderHints + MathFunction + Clone>(cx: &mut Cx, backend: &str, b: &Built, size: (u32, u32, u32), tiles: &[usize], view: Matrix4<f32>, threads: usize) {
    let (w, h, d) = size;
    let shape = Shape::<F>::new(&b.ctx, b.root).unwrap();
    let cfg = voxel::RenderConfig { image_size: VoxelSize::new(w, h, d), world_to_model: view };
    let tp = if threads > 0 { Some(pool(threads)) } else { None };
    let vars = ShapeVars::<f32>::new();
    let bound = shape.bind(&vars).unwrap();
    let r = if tiles.is_empty() {
        vharness::catch(std::panic::AssertUnwindSafe(|| Some(cfg.run(bound))))
    } else {
        let ecfg = voxel::EvalConfig { tile_sizes: Some(TileSizes::new(tiles).unwrap()), threads: tp.as_ref(), cancel: Default::default() };
        vharness::catch(std::panic::AssertUnwindSafe(|| voxel::render(bound, &cfg, &ecfg)))
    };
    let m4 = cfg.mat();
    // brute force over the grid and one root tile beyond its top (default configuration: the backend's own root tile)
    // The renderer drops leading tile sizes that are larger than it needs for the image ("trims items off the front of the
    // list based on the image size": the root tile is the smallest size that is not below max(width, height), or the
    // largest of the list).  The overhang above the grid is that of the root tile actually used; what lies between it
    // and the top of the untrimmed root tile is never looked at by one renderer and looked at by another: left out.
    let default_tiles = F::tile_sizes_3d();
    let list: &[usize] = if tiles.is_empty() { &default_tiles[0..] } else { tiles };
    let eff = {
        let i = list.iter().position(|t| *t < w.max(h) as usize).unwrap_or(list.len()).saturating_sub(1);
        list[i] as u32
    };
    let t0 = list[0] as u32;
    let ztop = d + t0;
    let pts: Vec<(f32, f32, f32)> = (0..h).flat_map(|j| (0..w).flat_map(move |i| (0..=ztop).map(move |k| (i as f32, j as f32, k as f32)))).collect();
    let vals = reference(b, &m4, &pts);
    let band = 2.0e-5f32;
    let col = |i: u32, j: u32| -> &[f32] { let o = ((j * w + i) * (ztop + 1)) as usize; &vals[o..o + ztop as usize + 1] };
    let mut ref_depth = vec![];
    let mut excluded = vec![];
    let mut clamped = vec![];
    let mut ambiguous = vec![];
    let mut hits: Vec<(usize, (f32, f32, f32))> = vec![];
    for j in 0..h {
        for i in 0..w {
            let c = col(i, j);
            let top = (0..d as usize).rev().find(|k| c[*k] < 0.0);
            // root tiles overhang a depth that is not a multiple of the root tile size: a negative voxel between the
            // grid depth and the top of the last root tile is a hit above the grid, reported clamped to the grid depth
            let ztile = ((d + eff - 1) / eff * eff) as usize;
            let zmax = ((d + t0 - 1) / t0 * t0) as usize;
            let over = (d as usize..ztile).any(|k| c[k] < 0.0);
            let dref = if over { d as i64 } else { top.map(|k| k as i64 + 1).unwrap_or(0) };
            ref_depth.push(dref);
            // the normal of a column that is still negative at or above the top of the grid is not stated
            clamped.push(over || (d as usize..=ztile).any(|k| c[k] < 0.0));
            // undecidable above the grid: a NaN or a value within the rounding band there
            excluded.push((d as usize..=ztile).any(|k| c[k].is_nan() || (c[k] != 0.0 && c[k].abs() < band))
                || (!over && (ztile..=zmax.max(ztile)).any(|k| c[k] < 0.0 || c[k].is_nan())));
            // a voxel at or above the reference surface that is within the rounding band (or NaN) makes the column ambiguous
            ambiguous.push(c.iter().enumerate().any(|(k, v)| (k as i64 + 1 >= dref) && ((*v != 0.0 && v.abs() < band) || v.is_nan())));
            if let (Some(k), false) = (top, over) { hits.push(((j * w + i) as usize, (i as f32, j as f32, k as f32))); }
        }
    }
    // reference normals: gradient of the unsimplified shape at the hit voxel, same backend
    let gshape = Shape::<F>::new(&b.ctx, b.root).unwrap();
    let gt = gshape.ez_grad_slice_tape();
    let mut ge = Shape::<F>::new_grad_slice_eval();
    let mut ref_normal = vec![[0i64; 3]; (w * h) as usize];
    if !hits.is_empty() {
        let xs: Vec<Grad> = hits.iter().map(|(_, p)| Grad::new(p.0, 1.0, 0.0, 0.0)).collect();
        let ys: Vec<Grad> = hits.iter().map(|(_, p)| Grad::new(p.1, 0.0, 1.0, 0.0)).collect();
        let zs: Vec<Grad> = hits.iter().map(|(_, p)| Grad::new(p.2, 0.0, 0.0, 1.0)).collect();
        if let Ok(o) = ge.eval_with_transform(&gt, &xs, &ys, &zs, &m4) {
            for ((idx, _), g) in hits.iter().zip(o.iter()) {
                ref_normal[*idx] = [bits(g.dx), bits(g.dy), bits(g.dz)];
            }
        }
    }
    let (ok, err, depth, normal): (bool, String, Vec<i64>, Vec<[i64; 3]>) = match r {
        Ok(Some(img)) => (true, String::new(), img.iter().map(|p| p.depth as i64).collect(), img.iter().map(|p| [bits(p.normal[0]), bits(p.normal[1]), bits(p.normal[2])]).collect()),
        Ok(None) => (false, "none".into(), vec![], vec![]),
        Err(m) => (false, format!("panic: {m}"), vec![], vec![]),
    };
    let mut j = json!({"ev": "image3d", "id": cx.id, "backend": backend, "w": w, "h": h, "d": d, "tiles": tiles, "threads": threads,
        "ok": ok, "err": err, "depth": depth, "normal": normal, "ref_depth": ref_depth, "ref_normal": ref_normal,
        "excluded": excluded, "clamped": clamped, "ambiguous": ambiguous, "desc": b.desc,
        "s2w_ok": s2w_matches::<4>(&VoxelSize::new(w, h, d).screen_to_world(), &[w, h, d])});
    if let Some((t0, vb)) = cx.vbits.take() {
        // the voxel set of the model (Render3D.tla generator): Trace_C07 recomputes the heightmap from it
        j["vbits"] = json!(vb);
        j["vt0"] = json!(t0);
    }
    writeln!(cx.w, "{j}").unwrap();
    cx.id += 1;
}

/// a few objects stacked along columns: spheres over slabs, tilted planes, boxes with flat tops on tile boundaries
fn stacked(rng: &mut Rng, k: usize) -> Built {
    let mut ctx = Context::new();
    let mut parts = vec![];
    let mut desc = String::from("stack:");
    let n = 1 + rng.below(4);
    for _ in 0..n {
        match (k + rng.below(4)) % 4 {
            0 => {
                let z0 = rng.range(-0.9, 0.3);
                let th = rng.range(0.05, 0.5);
                desc += &format!("slab({z0:.2},{th:.2})");
                parts.push(shapes::box3(&mut ctx, [-2.0, -2.0, z0], [2.0, 2.0, z0 + th]));
            }
            1 => {
                let p = [rng.range(-0.5, 0.5), rng.range(-0.5, 0.5), rng.range(-0.6, 0.8)];
                let r = rng.range(0.1, 0.5);
                desc += &format!("sphere({:.2},{:.2},{:.2};{r:.2})", p[0], p[1], p[2]);
                parts.push(shapes::sphere(&mut ctx, p, r));
            }
            2 => {
                let nrm = [rng.range(-0.5, 0.5), rng.range(-0.5, 0.5), 1.0];
                let d = rng.range(-0.8, 0.6);
                desc += &format!("plane({:.2},{:.2};{d:.2})", nrm[0], nrm[1]);
                parts.push(shapes::plane(&mut ctx, nrm, d));
            }
            _ => {
                let lo = [rng.range(-0.9, 0.0), rng.range(-0.9, 0.0), rng.range(-0.9, 0.2)];
                let hi = [lo[0] + rng.range(0.2, 0.9), lo[1] + rng.range(0.2, 0.9), lo[2] + rng.range(0.1, 0.7)];
                desc += "box";
                parts.push(shapes::box3(&mut ctx, lo, hi));
            }
        }
    }
    let mut acc = parts[0];
    for p in &parts[1..] {
        acc = ctx.min(acc, *p).unwrap();
    }
    if k % 3 == 0 {
        // cut by a plane that lies exactly on a voxel layer of power-of-two grids: the voxels of
        // that layer evaluate to exactly -0.0 (which is not negative)
        let cz = (rng.below(9) as f32 - 4.0) / 8.0;
        let z = ctx.z();
        let kc = ctx.constant(cz);
        let d = ctx.sub(kc, z).unwrap();
        let nd = ctx.neg(d).unwrap();
        acc = ctx.max(acc, nd).unwrap();
        desc += &format!(" cut(z<={cz})");
    }
    Built { ctx, root: acc, desc }
}

/// voxel-aligned boxes in screen space (identity view is not available in 3D: use exact screen_to_world inverse bounds)
fn voxel_boxes(rng: &mut Rng, size: (u32, u32, u32)) -> Built {
    let vs = VoxelSize::new(size.0, size.1, size.2);
    let s2w = vs.screen_to_world();
    let pos = |i: f32, j: f32, k: f32| s2w.transform_point(&nalgebra::Point3::new(i, j, k));
    let mut ctx = Context::new();
    let mut acc: Option<Node> = None;
    for _ in 0..(1 + rng.below(4)) {
        let lo = [rng.below(size.0 as usize) as f32, rng.below(size.1 as usize) as f32, rng.below(size.2 as usize) as f32];
        let hi = [(lo[0] + rng.below(size.0 as usize / 2 + 1) as f32).min(size.0 as f32 - 1.0), (lo[1] + rng.below(size.1 as usize / 2 + 1) as f32).min(size.1 as f32 - 1.0), (lo[2] + rng.below(size.2 as usize / 2 + 1) as f32).min(size.2 as f32 - 1.0)];
        let a = pos(lo[0] - 0.5, lo[1] - 0.5, lo[2] - 0.5);
        let c = pos(hi[0] + 0.5, hi[1] + 0.5, hi[2] + 0.5);
        let b = shapes::box3(&mut ctx, [a.x.min(c.x), a.y.min(c.y), a.z.min(c.z)], [a.x.max(c.x), a.y.max(c.y), a.z.max(c.z)]);
        acc = Some(match acc { None => b, Some(p) => ctx.min(p, b).unwrap() });
    }
    Built { ctx, root: acc.unwrap(), desc: "voxel-boxes".into() }
}

/// solids that run through the front of the grid: boxes and cylinders along z from somewhere inside to far beyond the top,
/// so that whole tiles are proved full at the top of the stack whatever the depth is a multiple of
fn pillars(rng: &mut Rng, size: (u32, u32, u32)) -> Built {
    let vs = VoxelSize::new(size.0, size.1, size.2);
    let s2w = vs.screen_to_world();
    let pos = |i: f32, j: f32, k: f32| s2w.transform_point(&nalgebra::Point3::new(i, j, k));
    let mut ctx = Context::new();
    let mut acc: Option<Node> = None;
    for q in 0..(1 + rng.below(3)) {
        let z0 = rng.below(size.2 as usize) as f32;
        let far = size.2 as f32 + 100.0;
        let b = if q % 2 == 0 {
            let lo = [rng.below(size.0 as usize) as f32, rng.below(size.1 as usize) as f32];
            let hi = [(lo[0] + 1.0 + rng.below(size.0 as usize) as f32).min(size.0 as f32 + 3.0), (lo[1] + 1.0 + rng.below(size.1 as usize) as f32).min(size.1 as f32 + 3.0)];
            let a = pos(lo[0] - 0.5, lo[1] - 0.5, z0 - 0.5);
            let c = pos(hi[0] + 0.5, hi[1] + 0.5, far);
            shapes::box3(&mut ctx, [a.x.min(c.x), a.y.min(c.y), a.z.min(c.z)], [a.x.max(c.x), a.y.max(c.y), a.z.max(c.z)])
        } else {
            // a cylinder along z, cut below z0
            let c0 = pos(rng.range(0.0, size.0 as f32), rng.range(0.0, size.1 as f32), z0 - 0.5);
            let r = rng.range(0.2, 0.9);
            let cyl = shapes::circle(&mut ctx, c0.x, c0.y, r);
            let z = ctx.z();
            let k = ctx.constant(c0.z);
            let below = ctx.sub(k, z).unwrap();
            ctx.max(cyl, below).unwrap()
        };
        acc = Some(match acc { None => b, Some(p) => ctx.min(p, b).unwrap() });
    }
    Built { ctx, root: acc.unwrap(), desc: "pillars".into() }
}

/// a voxel set of the Render3D.tla generator realised as a union of voxel-aligned boxes (one per run of a column)
fn voxel_set_shape(bits: &[u8], t0: usize, size: (u32, u32, u32)) -> Built {
    let vs = VoxelSize::new(size.0, size.1, size.2);
    let s2w = vs.screen_to_world();
    let pos = |i: f32, j: f32, k: f32| s2w.transform_point(&nalgebra::Point3::new(i, j, k));
    let mut ctx = Context::new();
    let mut acc: Option<Node> = None;
    let at = |x: usize, y: usize, z: usize| -> bool { let i = x + y * t0 + z * t0 * t0; i < bits.len() && bits[i] == 1 };
    for y in 0..size.1 as usize {
        for x in 0..size.0 as usize {
            let mut z = 0usize;
            while z < size.2 as usize {
                if !at(x, y, z) { z += 1; continue; }
                let z0 = z;
                while z + 1 < size.2 as usize && at(x, y, z + 1) { z += 1; }
                let a = pos(x as f32 - 0.5, y as f32 - 0.5, z0 as f32 - 0.5);
                let c = pos(x as f32 + 0.5, y as f32 + 0.5, z as f32 + 0.5);
                let b = shapes::box3(&mut ctx, [a.x.min(c.x), a.y.min(c.y), a.z.min(c.z)], [a.x.max(c.x), a.y.max(c.y), a.z.max(c.z)]);
                acc = Some(match acc { None => b, Some(p) => ctx.min(p, b).unwrap() });
                z += 1;
            }
        }
    }
    let root = acc.unwrap_or_else(|| ctx.constant(1.0));
    Built { ctx, root, desc: format!("voxel-set {}x{}x{}", size.0, size.1, size.2) }
}

fn read_voxsets(path: &str) -> Vec<((u32, u32, u32), usize, Vec<u8>)> {
    let text = std::fs::read_to_string(path).unwrap_or_default();
    let mut lines: Vec<&str> = text.lines().filter(|l| l.starts_with("<<\"GEN\", \"")).collect();
    lines.sort();
    lines.dedup();
    lines.iter().filter_map(|l| {
        let body = l.trim_start_matches("<<\"GEN\", \"").trim_end_matches("\">>").replace("\\\"", "\"");
        let v: Value = serde_json::from_str(&body).ok()?;
        let size = (v["w"].as_u64()? as u32, v["h"].as_u64()? as u32, v["d"].as_u64()? as u32);
        let bits = v["bits"].as_array()?.iter().map(|b| b.as_u64().unwrap() as u8).collect();
        Some((size, v["t0"].as_u64()? as usize, bits))
    }).collect()
}

fn c07(cx: &mut Cx, voxsets: &str, quick: bool, rng: &mut Rng) {
    // (a) every voxel set of the Render3D.tla generator bound, under two tile lists each (multi-level, single-level,
    // 1-voxel leaves, root tiles larger than the grid, depths that are not multiples of the root tile)
    for (k, (size, t0, bits)) in read_voxsets(voxsets).iter().enumerate() {
        let b = voxel_set_shape(bits, *t0, *size);
        for t in 0..2 {
            let k = k + 4 * t + t;
            let tl: &[usize] = [&[2usize, 1][..], &[2], &[4, 2], &[1], &[3], &[4, 2, 1], &[4]][k % 7];
            cx.vbits = Some((*t0, bits.clone()));
            if k % 2 == 0 { render3::<VmFunction>(cx, "vm", &b, *size, tl, Matrix4::identity(), 0); }
            else { render3::<JitFunction>(cx, "jit", &b, *size, tl, Matrix4::identity(), [0, 2][k % 3 % 2]); }
        }
    }
    // (a2) the default evaluation configuration through RenderConfig::run (the backends' own tile sizes, global pool)
    for (k, size) in [(70u32, 66u32, 72u32), (40, 33, 130)].iter().enumerate() {
        let b = stacked(rng, k);
        if k % 2 == 0 { render3::<VmFunction>(cx, "vm", &b, *size, &[], Matrix4::identity(), 0); }
        render3::<JitFunction>(cx, "jit", &b, *size, &[], Matrix4::identity(), 0);
    }
    // (a3) shapes whose interval is undefined (NaN) on tiles that contain surface: a height field under sqrt(x + 0.3) (undefined
    // for x < -0.3: the tiles that straddle that plane cannot be decided by intervals) and under 0.1 / (y + 0.01)
    for (k, size) in [(32u32, 32u32, 32u32), (24, 16, 20), (16, 16, 16), (20, 28, 12)].iter().enumerate() {
        for variant in 0..2 {
            let mut ctx = Context::new();
            let (x, y, z) = (ctx.x(), ctx.y(), ctx.z());
            let root = if variant == 0 {
                let c = ctx.constant(0.3); let a = ctx.add(x, c).unwrap(); let q = ctx.sqrt(a).unwrap();
                let k8 = ctx.constant(0.8); let h = ctx.sub(q, k8).unwrap(); ctx.sub(z, h).unwrap()
            } else {
                let c = ctx.constant(0.013); let a = ctx.add(y, c).unwrap(); let n1 = ctx.constant(0.1); let q = ctx.div(n1, a).unwrap();
                let k2 = ctx.constant(0.2); let h = ctx.sub(q, k2).unwrap(); ctx.sub(z, h).unwrap()
            };
            let b = Built { ctx, root, desc: format!("undefined-interval height field {variant}") };
            let tl = TILE_LISTS_3D[(k + variant) % TILE_LISTS_3D.len()];
            if (k + variant) % 2 == 0 { render3::<VmFunction>(cx, "vm", &b, *size, tl, Matrix4::identity(), 0); }
            else { render3::<JitFunction>(cx, "jit", &b, *size, tl, Matrix4::identity(), [0usize, 3][k % 2]); }
        }
    }
    // shallow grids too (a depth below width and height: the depth is then the axis that spans -1 .. +1)
    let sizes: [(u32, u32, u32); 10] = [(8, 8, 8), (13, 9, 12), (16, 16, 16), (24, 16, 40), (12, 20, 7), (32, 32, 32), (9, 9, 25), (16, 8, 24), (32, 32, 16), (24, 20, 8)];
    let n = if quick { 250 } else { 2500 };
    for k in 0..n {
        let size = sizes[if quick { [0usize, 1, 2, 3, 4, 5, 6, 8, 9][k % 9] } else { k % 10 }];
        let size = if quick && k % 7 == 5 { (20, 20, 20) } else { size };
        let b = match k % 5 {
            0 | 1 => stacked(rng, k),
            2 => voxel_boxes(rng, size),
            3 => { let n = 1 + rng.below(4); shapes::random_csg3(rng, n, false) }
            _ => pillars(rng, size),
        };
        let tl = TILE_LISTS_3D[rng.below(TILE_LISTS_3D.len())];
        let mut view = Matrix4::identity();
        if k % 4 == 1 {
            view[(0, 3)] = rng.range(-0.3, 0.3);
            view[(2, 3)] = rng.range(-0.3, 0.3);
            view[(0, 0)] = rng.range(0.7, 1.4);
        } else if k % 4 == 3 {
            let a = rng.range(-0.6, 0.6);
            view[(0, 0)] = a.cos(); view[(0, 2)] = a.sin(); view[(2, 0)] = -a.sin(); view[(2, 2)] = a.cos();
            if k % 8 == 7 { view[(3, 2)] = rng.range(-0.3, 0.3); }
        }
        let threads = [0usize, 1, 2, 4, 8][rng.below(5)];
        if k % 2 == 0 { render3::<VmFunction>(cx, "vm", &b, size, tl, view, threads); }
        else { render3::<JitFunction>(cx, "jit", &b, size, tl, view, threads); }
    }
}

/// Trimmed tile list the renderers use for an image whose largest XY extent is `max`
/// (TileSizesRef::new: leading sizes are dropped while the next one still covers the image)
fn trimmed(list: &[usize], max: usize) -> &[usize] {
    let i = list.iter().position(|t| *t < max).unwrap_or(list.len()).saturating_sub(1);
    &list[i..]
}

/// Tile-decision traces of the voxel renderer (Trace_Tiles3.tla): the hook events of one render, ordered per thread,
/// cut into one case per root tile column, coordinates translated to the column's corner; with the reference sign of
/// the shape at every lattice position of the column.  Cases with a reference value in the rounding band are left out.
fn tiles3<F: Function + RenderHints + MathFunction + Clone>(cx: &mut Cx, b: &Built, size: (u32, u32, u32), tiles: &[usize], view: Matrix4<f32>, threads: usize, skipped: &mut usize) {
    use vharness::hooks;
    let (w, h, d) = size;
    let shape = Shape::<F>::new(&b.ctx, b.root).unwrap();
    let cfg = voxel::RenderConfig { image_size: VoxelSize::new(w, h, d), world_to_model: view };
    let tp = if threads > 0 { Some(pool(threads)) } else { None };
    let vars = ShapeVars::<f32>::new();
    let bound = shape.bind(&vars).unwrap();
    let ecfg = voxel::EvalConfig { tile_sizes: Some(TileSizes::new(tiles).unwrap()), threads: tp.as_ref(), cancel: Default::default() };
    hooks::install();
    let _ = hooks::take();
    let r = vharness::catch(std::panic::AssertUnwindSafe(|| voxel::render(bound, &cfg, &ecfg)));
    let mut evs = hooks::take();
    hooks::uninstall();
    let img = match r { Ok(Some(img)) => img, _ => { *skipped += 1; return; } };
    let ts = trimmed(tiles, w.max(h) as usize);
    let t0 = ts[0];
    let kmax = (d as usize + t0 - 1) / t0;
    let ztop = kmax * t0;
    evs.retain(|e| e.name.starts_with("vox_"));
    evs.sort_by_key(|e| (e.thread, e.seq));
    let m4 = cfg.mat();
    let band = 2.0e-5f32;
    let mut k = 0;
    while k < evs.len() {
        assert_eq!(evs[k].name, "vox_root");
        let (x0, y0) = (hooks::field(&evs[k], "x") as usize, hooks::field(&evs[k], "y") as usize);
        let th = evs[k].thread;
        let mut e = k + 1;
        while e < evs.len() && evs[e].name != "vox_root" && evs[e].thread == th { e += 1; }
        // reference signs over the column's lattice, VoxSeq order of Render3D.tla (x fastest, then y, then z)
        let pts: Vec<(f32, f32, f32)> = (0..=ztop).flat_map(|z| (0..t0).flat_map(move |y| (0..t0).map(move |x| ((x0 + x) as f32, (y0 + y) as f32, z as f32)))).collect();
        let vals = reference(b, &m4, &pts);
        if vals.iter().any(|v| v.is_nan() || (*v != 0.0 && v.abs() < band)) { *skipped += 1; k = e; continue; }
        let vox: Vec<u8> = vals.iter().map(|v| (*v < 0.0) as u8).collect();
        let cw = (w as usize - x0).min(t0);
        let ch = (h as usize - y0).min(t0);
        let key = format!("TS_{}|{}|{}|{}", ts.iter().map(|t| t.to_string()).collect::<Vec<_>>().join("_"), cw, ch, d);
        writeln!(cx.w, "{}", json!({"cfg": key, "e": "reset", "id": cx.id, "vox": vox, "desc": b.desc, "threads": threads})).unwrap();
        for ev in &evs[k + 1..e] {
            let f = |n: &str| hooks::field(ev, n);
            if ev.name == "vox_tile" {
                writeln!(cx.w, "{}", json!({"cfg": key, "e": "tile", "d": f("d"), "x": f("x") - x0 as i64, "y": f("y") - y0 as i64, "z": f("z"), "s": f("s"), "act": f("act")})).unwrap();
            } else {
                writeln!(cx.w, "{}", json!({"cfg": key, "e": "hit", "x": f("x") - x0 as i64, "y": f("y") - y0 as i64, "z": f("z")})).unwrap();
            }
        }
        let mut depth = vec![];
        for j in 0..ch { for i in 0..cw { depth.push(img[(y0 + j, x0 + i)].depth as i64); } }
        writeln!(cx.w, "{}", json!({"cfg": key, "e": "end", "depth": depth})).unwrap();
        cx.id += 1;
        k = e;
    }
}

fn tiles3_cases(cx: &mut Cx, quick: bool, rng: &mut Rng) {
    let mut skipped = 0usize;
    // (image size, tile list): root tiles that overhang the image in x / y / z, one to four levels, several root
    // tile columns, sizes that make the renderer trim the list
    let confs: [((u32, u32, u32), &[usize]); 10] = [
        ((8, 8, 8), &[4, 2]), ((8, 8, 16), &[8, 4, 2]), ((4, 4, 7), &[4, 2, 1]), ((7, 5, 6), &[4, 2]), ((16, 16, 12), &[8, 4]),
        ((8, 8, 12), &[8]), ((6, 6, 9), &[2, 1]), ((16, 8, 16), &[8, 2]), ((4, 4, 8), &[8, 4, 2]), ((12, 12, 8), &[4]),
    ];
    // a solid that fills the whole grid and beyond (every tile full), and nothing at all (every tile empty), whatever the seed
    for (k, (size, tl)) in confs.iter().enumerate() {
        let mut ctx = Context::new();
        let root = if k % 2 == 0 { shapes::sphere(&mut ctx, [0.0, 0.0, 0.0], 50.0) } else { shapes::sphere(&mut ctx, [40.0, 40.0, 40.0], 1.0) };
        let b = Built { ctx, root, desc: if k % 2 == 0 { "everything".into() } else { "nothing".into() } };
        tiles3::<VmFunction>(cx, &b, *size, tl, Matrix4::identity(), 0, &mut skipped);
    }
    let n = if quick { 60 } else { 600 };
    for k in 0..n {
        let (size, tl) = confs[k % confs.len()];
        let b = match k % 4 {
            0 => voxel_boxes(rng, size),
            1 => stacked(rng, k),
            2 => { let n = 1 + rng.below(3); shapes::random_csg3(rng, n, false) }
            _ => pillars(rng, size),
        };
        let mut view = Matrix4::identity();
        if k % 5 == 3 { view[(0, 3)] = rng.range(-0.3, 0.3); view[(2, 3)] = rng.range(-0.3, 0.3); }
        let threads = [0usize, 0, 2, 4][k % 4];
        if k % 2 == 0 { tiles3::<VmFunction>(cx, &b, size, tl, view, threads, &mut skipped); }
        else { tiles3::<JitFunction>(cx, &b, size, tl, view, threads, &mut skipped); }
    }
    eprintln!("raster tiles3: {skipped} cases left out (reference value in the rounding band, or no image)");
}

/// Tile-decision traces of the 2D renderer (Trace_Tiles2.tla): one case per root tile, see tiles3.
fn tiles2<F: Function + RenderHints + MathFunction + Clone>(cx: &mut Cx, b: &Built, w: u32, h: u32, tiles: &[usize], view: Matrix3<f32>, perfect: bool, z: f32, threads: usize, skipped: &mut usize) {
    use vharness::hooks;
    let shape = Shape::<F>::new(&b.ctx, b.root).unwrap();
    let cfg = pixel::RenderConfig { image_size: ImageSize::new(w, h), world_to_model: view, pixel_perfect: perfect, z };
    let tp = if threads > 0 { Some(pool(threads)) } else { None };
    let vars = ShapeVars::<f32>::new();
    let bound = shape.bind(&vars).unwrap();
    let ecfg = pixel::EvalConfig { tile_sizes: Some(TileSizes::new(tiles).unwrap()), threads: tp.as_ref(), cancel: Default::default() };
    hooks::install();
    let _ = hooks::take();
    let r = vharness::catch(std::panic::AssertUnwindSafe(|| pixel::render(bound, &cfg, &ecfg)));
    let mut evs = hooks::take();
    hooks::uninstall();
    let img = match r { Ok(Some(img)) => img, _ => { *skipped += 1; return; } };
    let ts = trimmed(tiles, w.max(h) as usize);
    let t0 = ts[0];
    evs.retain(|e| e.name.starts_with("pix_"));
    evs.sort_by_key(|e| (e.thread, e.seq));
    let m4 = mat3_to_4(&cfg.mat());
    let band = 2.0e-5f32;
    let mut k = 0;
    while k < evs.len() {
        assert_eq!(evs[k].name, "pix_root");
        let (x0, y0) = (hooks::field(&evs[k], "x") as usize, hooks::field(&evs[k], "y") as usize);
        let th = evs[k].thread;
        let mut e = k + 1;
        while e < evs.len() && evs[e].name != "pix_root" && evs[e].thread == th { e += 1; }
        // reference signs over the closed root tile, LatSeq order of Render2D.tla (x fastest)
        let pts: Vec<(f32, f32, f32)> = (0..=t0).flat_map(|y| (0..=t0).map(move |x| ((x0 + x) as f32, (y0 + y) as f32, z))).collect();
        let vals = reference(b, &m4, &pts);
        if vals.iter().any(|v| v.is_nan() || (*v != 0.0 && v.abs() < band)) { *skipped += 1; k = e; continue; }
        let ins: Vec<u8> = vals.iter().map(|v| (*v < 0.0) as u8).collect();
        let cw = (w as usize - x0).min(t0);
        let ch = (h as usize - y0).min(t0);
        let key = format!("TS_{}|{}|{}|{}", ts.iter().map(|t| t.to_string()).collect::<Vec<_>>().join("_"), cw, ch, if perfect { "P" } else { "F" });
        writeln!(cx.w, "{}", json!({"cfg": key, "e": "reset", "id": cx.id, "ins": ins, "desc": b.desc, "threads": threads})).unwrap();
        for ev in &evs[k + 1..e] {
            let f = |n: &str| hooks::field(ev, n);
            writeln!(cx.w, "{}", json!({"cfg": key, "e": "tile", "d": f("d"), "x": f("x") - x0 as i64, "y": f("y") - y0 as i64, "s": f("s"), "act": f("act")})).unwrap();
        }
        let mut pix = vec![];
        for j in 0..ch { for i in 0..cw { pix.push(img[(y0 + j, x0 + i)].inside() as i64); } }
        writeln!(cx.w, "{}", json!({"cfg": key, "e": "end", "pix": pix})).unwrap();
        cx.id += 1;
        k = e;
    }
}

fn tiles2_cases(cx: &mut Cx, quick: bool, rng: &mut Rng) {
    let mut skipped = 0usize;
    let confs: [((u32, u32), &[usize]); 10] = [
        ((8, 8), &[4, 2]), ((16, 16), &[8, 4, 2]), ((7, 5), &[4, 2, 1]), ((16, 12), &[8, 2]), ((24, 24), &[8, 4]),
        ((12, 9), &[6, 3]), ((16, 16), &[16, 4]), ((8, 8), &[8, 4, 2, 1]), ((10, 10), &[2, 1]), ((8, 8), &[32, 8]),
    ];
    let n = if quick { 80 } else { 800 };
    for k in 0..n {
        let ((w, h), tl) = confs[k % confs.len()];
        let b = match k % 3 {
            0 => { let n = 1 + rng.below(4); shapes::random_csg2(rng, n) }
            1 => {
                let rows: Vec<Vec<u8>> = (0..h).map(|_| (0..w).map(|_| (rng.below(3) == 0) as u8).collect()).collect();
                bitmap_shape(&rows, w, h)
            }
            _ => { let n = 1 + rng.below(3); shapes::random_csg3(rng, n, false) }
        };
        let view = if k % 3 == 1 { Matrix3::identity() } else { random_view2(rng, k / 3) };
        let z = if k % 3 == 2 { rng.range(-0.5, 0.5) } else { 0.0 };
        let perfect = k % 7 == 3;
        let threads = [0usize, 0, 2, 4][k % 4];
        if k % 2 == 0 { tiles2::<VmFunction>(cx, &b, w, h, tl, view, perfect, z, threads, &mut skipped); }
        else { tiles2::<JitFunction>(cx, &b, w, h, tl, view, perfect, z, threads, &mut skipped); }
    }
    eprintln!("raster tiles2: {skipped} cases left out (reference value in the rounding band, or no image)");
}

fn main() {
    let args: Vec<String> = std::env::args().collect();
    let quick = args[3] == "quick";
    let mut file = std::io::BufWriter::new(std::fs::File::create(&args[4]).unwrap());
    let mut cx = Cx { w: &mut file, id: 0, vbits: None };
    let mut rng = Rng::new(seed_from_env().wrapping_add(606));
    match args[1].as_str() {
        "c06" => c06(&mut cx, &args[2], quick, &mut rng),
        "c07" => c07(&mut cx, &args[2], quick, &mut rng),
        "tiles3" => tiles3_cases(&mut cx, quick, &mut rng),
        "tiles2" => tiles2_cases(&mut cx, quick, &mut rng),
        m => panic!("mode {m}"),
    }
    let n = cx.id;
    file.flush().unwrap();
    eprintln!("raster {}: {n} images", args[1]);
}
