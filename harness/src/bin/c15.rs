//! C15 recorder: real Bytecode::new(&VmData<N>) words for generated programs,
//! plus an independent interpreter written only from the format
//! documentation (opcode table from iter_ops(), 0xFF = immediate, Mem
//! direction flags).  Usage: c15 <tlc-programs-file|-> <quick|thorough> <out.ndjson>
use fidget_bytecode::{iter_ops, Bytecode};
use fidget_core::{
    context::{BinaryOpcode, UnaryOpcode},
    vm::VmData,
};
use serde_json::json;
use std::io::Write;
use vharness::{
    evalx::*,
    keys::{bits, seed_from_env, Rng},
    pgen::{self, Inst, Mode},
    tapes::{make_vmdata, ops_json, read_vmdata, ssa_eval, Prog},
    with_n,
};

/// Executes bytecode words following only the documentation. Returns the
/// outputs or a description of the malformation.
fn interpret(words: &[u32], nout: usize, reg_count: usize, mem_count: usize, vars: &[f32]) -> Result<Vec<f32>, String> {
    let names: std::collections::HashMap<u8, &str> = iter_ops().map(|(n, c)| (c, n)).collect();
    if words.len() < 4 || words.len() % 2 != 0 {
        return Err("length".into());
    }
    if words[0] != u32::MAX || words[1] != 0 || words[words.len() - 2] != u32::MAX || words[words.len() - 1] != u32::MAX {
        return Err("markers".into());
    }
    let mut regs = vec![f32::NAN; reg_count];
    let mut mem = vec![f32::NAN; mem_count];
    let mut out = vec![f32::NAN; nout];
    let mut i = 2;
    while i + 1 < words.len() - 2 {
        let [op, o, a, b] = words[i].to_le_bytes();
        let immw = words[i + 1];
        let imm = f32::from_bits(immw);
        let name = *names.get(&op).ok_or(format!("opcode {op}"))?;
        let rd = |regs: &Vec<f32>, r: u8| -> Result<f32, String> {
            if r == 0xFF { Ok(imm) } else { regs.get(r as usize).copied().ok_or(format!("register {r} >= reg_count")) }
        };
        let reg_only = |r: u8| -> Result<usize, String> {
            if (r as usize) < reg_count && r != 0xFF { Ok(r as usize) } else { Err(format!("register {r}")) }
        };
        match name {
            "Output" => {
                let v = regs[reg_only(o)?];
                *out.get_mut(immw as usize).ok_or("output index")? = v;
            }
            "Input" => {
                let r = reg_only(o)?;
                regs[r] = *vars.get(immw as usize).ok_or("input index")?;
            }
            "Mem" => {
                if a == 0xFF && o != 0xFF {
                    let r = reg_only(o)?;
                    regs[r] = *mem.get(immw as usize).ok_or("mem slot")?;
                } else if o == 0xFF && a != 0xFF {
                    let v = regs[reg_only(a)?];
                    *mem.get_mut(immw as usize).ok_or("mem slot")? = v;
                } else {
                    return Err("mem direction".into());
                }
            }
            "Copy" => {
                let v = rd(&regs, a)?;
                let r = reg_only(o)?;
                regs[r] = v;
            }
            n => {
                let un = match n {
                    "Neg" => Some(UnaryOpcode::Neg), "Abs" => Some(UnaryOpcode::Abs), "Recip" => Some(UnaryOpcode::Recip),
                    "Sqrt" => Some(UnaryOpcode::Sqrt), "Square" => Some(UnaryOpcode::Square), "Floor" => Some(UnaryOpcode::Floor),
                    "Ceil" => Some(UnaryOpcode::Ceil), "Round" => Some(UnaryOpcode::Round), "Not" => Some(UnaryOpcode::Not),
                    "Rand" => Some(UnaryOpcode::Rand), "Sin" => Some(UnaryOpcode::Sin), "Cos" => Some(UnaryOpcode::Cos),
                    "Tan" => Some(UnaryOpcode::Tan), "Asin" => Some(UnaryOpcode::Asin), "Acos" => Some(UnaryOpcode::Acos),
                    "Atan" => Some(UnaryOpcode::Atan), "Exp" => Some(UnaryOpcode::Exp), "Ln" => Some(UnaryOpcode::Ln),
                    _ => None,
                };
                if let Some(u) = un {
                    let v = regs[reg_only(a)?];
                    let r = reg_only(o)?;
                    regs[r] = u.eval(v);
                } else {
                    let bo = match n {
                        "Add" => BinaryOpcode::Add, "Sub" => BinaryOpcode::Sub, "Mul" => BinaryOpcode::Mul, "Div" => BinaryOpcode::Div,
                        "Atan2" => BinaryOpcode::Atan, "Compare" => BinaryOpcode::Compare, "Mix" => BinaryOpcode::Mix,
                        "Mod" => BinaryOpcode::Mod, "Min" => BinaryOpcode::Min, "Max" => BinaryOpcode::Max,
                        "And" => BinaryOpcode::And, "Or" => BinaryOpcode::Or,
                        other => return Err(format!("unknown op {other}")),
                    };
                    if a == 0xFF && b == 0xFF {
                        return Err("two immediates".into());
                    }
                    let (x, y) = (rd(&regs, a)?, rd(&regs, b)?);
                    let r = reg_only(o)?;
                    regs[r] = bo.eval(x, y);
                }
            }
        }
        i += 2;
    }
    Ok(out)
}

/// Returns the number of lines written (1, or 2 when the tape could also be serialised after a simplification)
fn emit<const N: usize>(w: &mut dyn Write, id: usize, p: &Prog, pts: &[Vec<f32>]) -> usize {
    let d: VmData<N> = match make_vmdata::<N>(p) {
        Ok(d) => d,
        Err(m) => {
            let j = json!({"ev": "bytecode", "id": id, "n": N, "skip": true, "msg": m, "ok": true, "words": [], "ssa": [], "ops": [], "regs": 0, "mems": 0, "nout": 0, "evals": [], "err": ""});
            writeln!(w, "{j}").unwrap();
            return 1;
        }
    };
    // the tape after a simplification (variables may have dropped out of use: the child keeps the parent's numbering, so
    // the inputs it still reads need not be numbered densely): traced at the first point, serialised like any other
    let child: Option<VmData<N>> = {
        use fidget_core::eval::{Function, TracingEvaluator};
        let f = fidget_core::vm::GenericVmFunction::<N>::from(make_vmdata::<N>(p).unwrap());
        vharness::catch(std::panic::AssertUnwindSafe(|| {
            let tape = f.point_tape(Default::default());
            let mut e = fidget_core::vm::GenericVmFunction::<N>::new_point_eval();
            let trace = pts.first().and_then(|pt| e.eval(&tape, pt).ok().and_then(|(_, t)| t.cloned()));
            trace.and_then(|t| f.simplify(&t, Default::default(), &mut Default::default()).ok()).map(|c| {
                // a copy of the child's data through the exact serializer (VmData is not Clone)
                vharness::tapes::clone_vmdata::<N>(c.data())
            })
        })).ok().flatten()
    };
    emit_data::<N>(w, id, d, pts);
    if let Some(c) = child {
        emit_data::<N>(w, id + 1, c, pts);
        return 2;
    }
    1
}

fn emit_data<const N: usize>(w: &mut dyn Write, id: usize, d: VmData<N>, pts: &[Vec<f32>]) {
    let rec = read_vmdata(&d);
    let bc = vharness::catch(std::panic::AssertUnwindSafe(|| Bytecode::new(&d)));
    let f = fidget_core::vm::GenericVmFunction::<N>::from(d);
    let ops: Vec<_> = iter_ops().map(|(n, c)| json!([n, c])).collect();
    match bc {
        Ok(Ok(bc)) => {
            let words: Vec<i64> = bc.data().iter().map(|w| *w as i32 as i64).collect();
            let mut evals = vec![];
            for pt in pts {
                let vm = point_trace(&f, pt);
                let run = ssa_eval(&rec.ssa, pt);
                let (bcv, berr) = match interpret(bc.data(), rec.nout, bc.reg_count() as usize, bc.mem_count() as usize, pt) {
                    Ok(o) => (o.iter().map(|v| bits(*v)).collect::<Vec<_>>(), String::new()),
                    Err(e) => (vec![], e),
                };
                evals.push(json!({"in": pt.iter().map(|v| bits(*v)).collect::<Vec<_>>(), "vm": vm.out.iter().map(|v| bits(*v)).collect::<Vec<_>>(),
                    "bc": bcv, "berr": berr, "bs": run.bitsens}));
            }
            let j = json!({"ev": "bytecode", "id": id, "n": N, "skip": false, "ok": true, "err": "", "words": words, "ssa": ops_json(&rec.ssa), "ops": ops,
                "regs": bc.reg_count(), "mems": bc.mem_count(), "nout": rec.nout, "slots": rec.slots, "evals": evals, "len": bc.len()});
            writeln!(w, "{j}").unwrap();
        }
        Ok(Err(e)) => {
            let j = json!({"ev": "bytecode", "id": id, "n": N, "skip": false, "ok": false, "err": format!("{e}"), "words": [], "ssa": ops_json(&rec.ssa), "ops": ops,
                "regs": 0, "mems": 0, "nout": rec.nout, "slots": rec.slots, "evals": []});
            writeln!(w, "{j}").unwrap();
        }
        Err(m) => {
            let j = json!({"ev": "bytecode", "id": id, "n": N, "skip": false, "ok": false, "err": format!("panic: {m}"), "words": [], "ssa": ops_json(&rec.ssa), "ops": ops,
                "regs": 0, "mems": 0, "nout": rec.nout, "slots": rec.slots, "evals": []});
            writeln!(w, "{j}").unwrap();
        }
    }
}

fn main() {
    let args: Vec<String> = std::env::args().collect();
    let quick = args[2] == "quick";
    let mut file = std::io::BufWriter::new(std::fs::File::create(&args[3]).unwrap());
    let seed = seed_from_env();
    let mut rng = Rng::new(seed.wrapping_add(1515));
    let mut progs: Vec<(Prog, Mode)> = vec![];
    if args[1] != "-" {
        let aps = pgen::read_tlc_programs(&args[1]);
        for (pi, ap) in aps.iter().enumerate().step_by(if quick { 2 } else { 1 }) {
            let mode = match pi % 3 { 0 => Mode::All, 1 => Mode::Z, _ => Mode::Choice };
            let mut inst = Inst::new(seed.wrapping_mul(53).wrapping_add(pi as u64), mode, 3);
            progs.push((inst.instantiate(ap), mode));
        }
    }
    for k in 0..(if quick { 300 } else { 3000 }) {
        let mode = match k % 3 { 0 => Mode::All, 1 => Mode::Z, _ => Mode::Choice };
        let mut inst = Inst::new(rng.next(), mode, 1 + k % 5);
        let ap = inst.random_abstract(8 + rng.below(70), [3, 5, 8, 12, 20][k % 5], 4);
        progs.push((inst.instantiate(&ap), mode));
    }
    let mut id = 0;
    progs.extend(pgen::directed_programs().into_iter().map(|(p, m, _)| (p, m)));
    for (k, (p, mode)) in progs.iter().enumerate() {
        let pts = pgen::input_points(&mut rng, *mode, p.nvars, 3);
        // budgets small enough to force memory traffic, and the default
        let n = [3usize, 4, 5, 8, 12, 255][k % 6];
        id += with_n!(n, emit(&mut file, id, p, &pts));
    }
    file.flush().unwrap();
    vharness::evalx::exit_on_build_failures("c15");
    eprintln!("c15: {id} programs");
}
