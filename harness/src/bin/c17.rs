//! C17: scripts vs the Rust API.
//!   c17 meta <out.ndjson>                 shape metadata by reflection (read by Script.tla)
//!   c17 run <cases.out> <out.ndjson>      evaluate the scripts TLC generated, build the expected trees in Rust
//!   c17 probe <script>...                 print what a script evaluates to
use facet::Facet;
use fidget_core::context::{Tree, TreeOp};
use fidget_core::var::Var;
use fidget_shapes::types::{Axis, Plane, Type, Value, Vec2, Vec3};
use fidget_shapes::*;
use serde_json::{json, Value as J};
use std::io::Write;

// ---------------------------------------------------------------- metadata
struct MetaVisitor(Vec<J>);
fn q(v: f32) -> J {
    let (n, d) = dyadic(v).expect("default values are dyadic");
    json!({"n": n, "d": d})
}
fn axis_name(a: &Axis) -> &'static str {
    if *a == Axis::X { "x" } else if *a == Axis::Y { "y" } else if *a == Axis::Z { "z" } else { "?" }
}
impl ShapeVisitor for MetaVisitor {
    fn visit<T: Facet<'static> + Clone + Send + Sync + Into<Tree> + 'static>(&mut self) {
        let facet::Type::User(facet::UserType::Struct(s)) = T::SHAPE.ty else { panic!() };
        let mut fields = vec![];
        for f in s.fields {
            let tag = Type::try_from(f.shape().id).unwrap();
            let (hasdef, c, sx) = match f.default.map(|d| unsafe { tag.build_from_default_fn(d) }) {
                None => (false, vec![], String::new()),
                Some(Value::Float(v)) => (true, vec![q(v)], String::new()),
                Some(Value::Vec2(v)) => (true, vec![q(v.x), q(v.y)], String::new()),
                Some(Value::Vec3(v)) => (true, vec![q(v.x), q(v.y), q(v.z)], String::new()),
                Some(Value::Axis(a)) => (true, vec![], axis_name(&a).to_string()),
                Some(Value::Plane(p)) => (true, vec![q(p.offset)], axis_name(&p.axis).to_string()),
                Some(_) => panic!("unexpected default kind"),
            };
            fields.push(json!({"name": f.name, "ty": format!("{tag:?}"), "hasdef": hasdef, "c": c, "s": sx}));
        }
        use heck_lite::snake;
        self.0.push(json!({"name": T::SHAPE.to_string(), "fname": snake(&T::SHAPE.to_string()), "fields": fields}));
    }
}
mod heck_lite {
    /// CamelCase -> snake_case as `heck` does for the names in fidget-shapes (ReflectXY -> reflect_xy)
    pub fn snake(s: &str) -> String {
        let cs: Vec<char> = s.chars().collect();
        let mut out = String::new();
        for (i, c) in cs.iter().enumerate() {
            if c.is_uppercase() {
                let prev_lower = i > 0 && cs[i - 1].is_lowercase();
                let next_lower = i + 1 < cs.len() && cs[i + 1].is_lowercase();
                if i > 0 && (prev_lower || (cs[i - 1].is_uppercase() && next_lower)) {
                    out.push('_');
                }
                out.extend(c.to_lowercase());
            } else {
                out.push(*c);
            }
        }
        out
    }
}

// ---------------------------------------------------------------- terms
fn dyadic(v: f32) -> Option<(i64, i64)> {
    if !v.is_finite() || v.abs() >= 1048576.0 {
        return None;
    }
    let s = v as f64 * 1024.0;
    if s.fract() != 0.0 {
        return None;
    }
    let (mut n, mut d) = (s as i64, 1024i64);
    while d > 1 && n % 2 == 0 {
        n /= 2;
        d /= 2;
    }
    Some((n, d))
}
fn term(o: &str, f: &str, n: i64, d: i64, m: Vec<i64>, a: Vec<J>) -> J {
    json!({"o": o, "f": f, "n": n, "d": d, "m": m, "a": a, "fl": []})
}
fn ser(t: &TreeOp, budget: &mut usize) -> J {
    if *budget == 0 {
        return term("toolarge", "", 0, 0, vec![], vec![]);
    }
    *budget -= 1;
    match t {
        TreeOp::Input(v) => term("var", match v { Var::X => "x", Var::Y => "y", Var::Z => "z", _ => "v" }, 0, 0, vec![], vec![]),
        TreeOp::Const(c) => match dyadic(*c) {
            Some((n, d)) => term("const", "", n, d, vec![], vec![]),
            None => term("constbits", "", 0, 0, vec![c.to_bits() as i32 as i64], vec![]),
        },
        TreeOp::Unary(op, a) => term("un", &format!("{op:?}").to_lowercase(), 0, 0, vec![], vec![ser(a, budget)]),
        TreeOp::Binary(op, a, b) => term("bin", &format!("{op:?}").to_lowercase(), 0, 0, vec![], vec![ser(a, budget), ser(b, budget)]),
        TreeOp::RemapAxes { target, x, y, z } => term("remap", "", 0, 0, vec![], vec![ser(target, budget), ser(x, budget), ser(y, budget), ser(z, budget)]),
        TreeOp::RemapAffine { target, mat } => term("affine", "", 0, 0, mat.matrix().iter().map(|v| v.to_bits() as i32 as i64).collect(), vec![ser(target, budget)]),
    }
}
fn ser_tree(t: &Tree) -> J {
    let mut b = 4000;
    ser(t, &mut b)
}

// ---------------------------------------------------------------- script text from the AST
fn num(n: i64, d: i64) -> f64 {
    n as f64 / d as f64
}
fn render(a: &J) -> String {
    let s = a["s"].as_str().unwrap_or("");
    let e: Vec<String> = a["e"].as_array().map(|v| v.iter().map(render).collect()).unwrap_or_default();
    match a["a"].as_str().unwrap() {
        "var" => s.to_string(),
        "int" => { let n = a["n"].as_i64().unwrap(); if n < 0 { format!("({n})") } else { format!("{n}") } }
        "flt" => { let v = num(a["n"].as_i64().unwrap(), a["d"].as_i64().unwrap()); if v < 0.0 { format!("({v:?})") } else { format!("{v:?}") } }
        "str" => format!("\"{s}\""),
        "chr" => format!("'{s}'"),
        "arr" => format!("[{}]", e.join(", ")),
        "map" => format!("#{{{}}}", a["kv"].as_array().unwrap().iter().map(|p| format!("{}: {}", p["k"].as_str().unwrap(), render(&p["v"]))).collect::<Vec<_>>().join(", ")),
        "neg" => format!("(-{})", e[0]),
        "infix" | "cmp" => format!("({} {} {})", e[0], s, e[1]),
        "call" => format!("{}({})", s, e.join(", ")),
        "meth" => format!("{}.{}({})", e[0], s, e[1..].join(", ")),
        "let" => format!("let {} = {}; {}", s, e[0], e[1]),
        k => panic!("unknown ast kind {k}"),
    }
}

// ---------------------------------------------------------------- the expected tree through the Rust API
fn qf(j: &J) -> f32 {
    num(j["n"].as_i64().unwrap(), j["d"].as_i64().unwrap()) as f32
}
fn build_term(t: &J) -> Tree {
    let a: Vec<Tree> = t["a"].as_array().unwrap().iter().map(build_term).collect();
    let f = t["f"].as_str().unwrap();
    match t["o"].as_str().unwrap() {
        "var" => match f { "x" => Tree::x(), "y" => Tree::y(), _ => Tree::z() },
        "const" => Tree::constant(qf(t)),
        "un" => {
            let x = &a[0];
            match f {
                "neg" => x.neg(), "abs" => x.abs(), "sqrt" => x.sqrt(), "square" => x.square(), "sin" => x.sin(), "cos" => x.cos(),
                "tan" => x.tan(), "asin" => x.asin(), "acos" => x.acos(), "atan" => x.atan(), "exp" => x.exp(), "ln" => x.ln(),
                "not" => x.not(), "rand" => x.rand(), "ceil" => x.ceil(), "floor" => x.floor(), "round" => x.round(),
                _ => panic!("unary {f}"),
            }
        }
        "bin" => {
            let (x, y) = (a[0].clone(), a[1].clone());
            match f {
                "add" => x + y, "sub" => x - y, "mul" => x * y, "div" => x / y, "mod" => x.modulo(y), "min" => x.min(y), "max" => x.max(y),
                "compare" => x.compare(y), "mix" => x.mix(y), "and" => x.and(y), "or" => x.or(y), "atan" => x.atan2(y),
                _ => panic!("binary {f}"),
            }
        }
        "shape" => build_shape(f, t["fl"].as_array().unwrap()),
        "remap" => a[0].remap_xyz(a[1].clone(), a[2].clone(), a[3].clone()),
        o => panic!("term kind {o}"),
    }
}
fn build_shape(name: &str, fl: &[J]) -> Tree {
    let get = |n: &str| fl.iter().find(|f| f["name"] == n).unwrap_or_else(|| panic!("{name}: field {n} missing in expectation"));
    let f = |n: &str| qf(&get(n)["c"][0]);
    let v2 = |n: &str| { let c = &get(n)["c"]; Vec2::new(qf(&c[0]), qf(&c[1])) };
    let v3 = |n: &str| { let c = &get(n)["c"]; Vec3::new(qf(&c[0]), qf(&c[1]), qf(&c[2])) };
    let t = |n: &str| build_term(&get(n)["t"][0]);
    let vt = |n: &str| get(n)["t"].as_array().unwrap().iter().map(build_term).collect::<Vec<Tree>>();
    let ax = |n: &str| match get(n)["s"].as_str().unwrap() { "x" => Axis::X, "y" => Axis::Y, _ => Axis::Z };
    let pl = |n: &str| Plane { axis: ax(n), offset: qf(&get(n)["c"][0]) };
    match name {
        "Sphere" => Sphere { center: v3("center"), radius: f("radius") }.into(),
        "Box" => fidget_shapes::Box { lower: v3("lower"), upper: v3("upper") }.into(),
        "Plane" => Plane { axis: ax("axis"), offset: f("offset") }.into(),
        "Circle" => Circle { center: v2("center"), radius: f("radius") }.into(),
        "Rectangle" => Rectangle { lower: v2("lower"), upper: v2("upper") }.into(),
        "Move" => Move { shape: t("shape"), offset: v3("offset") }.into(),
        "Scale" => Scale { shape: t("shape"), scale: v3("scale") }.into(),
        "ScaleUniform" => ScaleUniform { shape: t("shape"), scale: f("scale") }.into(),
        "Reflect" => Reflect { shape: t("shape"), plane: pl("plane") }.into(),
        "ReflectX" => ReflectX { shape: t("shape"), offset: f("offset") }.into(),
        "ReflectY" => ReflectY { shape: t("shape"), offset: f("offset") }.into(),
        "ReflectZ" => ReflectZ { shape: t("shape"), offset: f("offset") }.into(),
        "ReflectXY" => ReflectXY { shape: t("shape"), offset: f("offset") }.into(),
        "RepeatX" => RepeatX { shape: t("shape"), radius: f("radius"), offset: f("offset") }.into(),
        "Rotate" => Rotate { shape: t("shape"), axis: ax("axis"), angle: f("angle"), center: v3("center") }.into(),
        "RotateX" => RotateX { shape: t("shape"), angle: f("angle"), center: v3("center") }.into(),
        "RotateY" => RotateY { shape: t("shape"), angle: f("angle"), center: v3("center") }.into(),
        "RotateZ" => RotateZ { shape: t("shape"), angle: f("angle"), center: v3("center") }.into(),
        "RevolveY" => RevolveY { shape: t("shape"), offset: f("offset") }.into(),
        "ExtrudeZ" => ExtrudeZ { shape: t("shape"), lower: f("lower"), upper: f("upper") }.into(),
        "LoftZ" => LoftZ { a: t("a"), b: t("b"), lower: f("lower"), upper: f("upper") }.into(),
        "Union" => Union { input: vt("input") }.into(),
        "Blend" => Blend { a: t("a"), b: t("b"), radius: f("radius") }.into(),
        "Intersection" => Intersection { input: vt("input") }.into(),
        "Difference" => Difference { shape: t("shape"), cutout: t("cutout") }.into(),
        "Inverse" => Inverse { shape: t("shape") }.into(),
        _ => panic!("shape {name} is not in the harness table"),
    }
}

// ---------------------------------------------------------------- directed cases outside the generated grammar
/// the constants of a tree in traversal order, as bit patterns (structural equality of trees identifies the two zeros)
fn const_bits(t: &Tree) -> Vec<i64> {
    use fidget_core::context::TreeOp;
    let mut out = vec![];
    let mut todo: Vec<&TreeOp> = vec![&**t];
    let mut budget = 10000;
    while let Some(n) = todo.pop() {
        budget -= 1;
        if budget == 0 { break; }
        match n {
            TreeOp::Const(c) => out.push(c.to_bits() as i32 as i64),
            TreeOp::Input(..) => {}
            TreeOp::Unary(_, a) => todo.push(a),
            TreeOp::Binary(_, a, b) => { todo.push(b); todo.push(a); }
            TreeOp::RemapAxes { target, x, y, z } => { todo.push(z); todo.push(y); todo.push(x); todo.push(target); }
            TreeOp::RemapAffine { target, .. } => todo.push(target),
        }
    }
    out
}

/// Scripts and ways of running them that the grammar of Script.tla does not generate: negative zero as a number (a
/// constant is a bit pattern: `x / -0.0`), names bound by the host's scope, by an earlier script on the same scope, or
/// before an `eval` inside the script.  Each is compared with the tree the corresponding Rust calls build.
fn direct_cases(w: &mut dyn Write, id: &mut usize) {
    use rhai::Scope;
    let (x, y, z) = (Tree::x(), Tree::y(), Tree::z());
    type Run = std::boxed::Box<dyn Fn(&rhai::Engine) -> Result<Tree, String>>;
    let script = |s: &'static str| -> Run { std::boxed::Box::new(move |e: &rhai::Engine| e.eval::<Tree>(s).map_err(|e| format!("{e}"))) };
    let mut cases: Vec<(&str, Run, Tree)> = vec![
        ("x / -0.0", script("x / -0.0"), x.clone() / Tree::constant(-0.0)),
        ("atan2(y, -0.0)", script("atan2(y, -0.0)"), y.clone().atan2(Tree::constant(-0.0))),
        ("let dir = -1.0; let k = dir * 0.0; x * k", script("let dir = -1.0; let k = dir * 0.0; x * k"), x.clone() * Tree::constant(-0.0)),
        ("-0.0 - z", script("-0.0 - z"), Tree::constant(-0.0) - z.clone()),
        ("x + 0.0", script("x + 0.0"), x.clone() + Tree::constant(0.0)),
        ("min(x, 1.0) * 1", script("min(x, 1.0) * 1"), x.clone().min(Tree::constant(1.0)) * Tree::constant(1.0)),
        ("let x = x * 2; x + 3", script("let x = x * 2; x + 3"), x.clone() * Tree::constant(2.0) + Tree::constant(3.0)),
    ];
    // a name bound in the host's scope wins over the built-in axis of the same name
    {
        let bound = x.clone() * Tree::constant(2.0);
        let b2 = bound.clone();
        cases.push(("scope {x = x * 2}: x + 3", std::boxed::Box::new(move |e: &rhai::Engine| {
            let mut scope = Scope::new();
            scope.push("x", b2.clone());
            e.eval_with_scope::<Tree>(&mut scope, "x + 3").map_err(|e| format!("{e}"))
        }), bound + Tree::constant(3.0)));
    }
    // ... and so does a name bound by an earlier script on the same scope
    {
        let (x1, z1) = (x.clone(), z.clone());
        cases.push(("scope; `let y = x * 2;` then `y + z`", std::boxed::Box::new(move |e: &rhai::Engine| {
            let mut scope = Scope::new();
            e.run_with_scope(&mut scope, "let y = x * 2;").map_err(|e| format!("{e}"))?;
            e.eval_with_scope::<Tree>(&mut scope, "y + z").map_err(|e| format!("{e}"))
        }), x1 * Tree::constant(2.0) + z1));
    }
    {
        let y1 = y.clone();
        cases.push(("scope; `let PI = y;` then `PI + 1`", std::boxed::Box::new(move |e: &rhai::Engine| {
            let mut scope = Scope::new();
            e.run_with_scope(&mut scope, "let PI = y;").map_err(|e| format!("{e}"))?;
            e.eval_with_scope::<Tree>(&mut scope, "PI + 1").map_err(|e| format!("{e}"))
        }), y1 + Tree::constant(1.0)));
    }
    // ... and a name shadowed before an `eval` inside the script
    cases.push(("let x = x * 2; eval(\"let q = 1;\"); x + 3", script("let x = x * 2; eval(\"let q = 1;\"); x + 3"), x.clone() * Tree::constant(2.0) + Tree::constant(3.0)));
    let engine = fidget_rhai::engine();
    for (desc, run, want) in cases {
        let r = vharness::catch(std::panic::AssertUnwindSafe(|| run(&engine)));
        let (status, equal, got_bits, msg) = match r {
            Err(m) => ("panic", false, vec![], m),
            Ok(Err(e)) => ("err", false, vec![], e),
            Ok(Ok(t)) => ("ok", t == want, const_bits(&t), String::new()),
        };
        writeln!(w, "{}", json!({"ev": "direct", "id": *id, "script": desc, "status": status, "msg": msg, "equal": equal,
            "gotbits": got_bits, "wantbits": const_bits(&want), "ast": {"a": "none"}})).unwrap();
        *id += 1;
    }
}

fn main() {
    let args: Vec<String> = std::env::args().collect();
    match args[1].as_str() {
        "meta" => {
            let mut v = MetaVisitor(vec![]);
            visit_shapes(&mut v);
            let mut w = std::fs::File::create(&args[2]).unwrap();
            for j in v.0 {
                writeln!(w, "{j}").unwrap();
            }
        }
        "probe" => {
            let e = fidget_rhai::engine();
            for s in &args[2..] {
                match e.eval::<rhai::Dynamic>(s) {
                    Ok(v) => println!("{s}  =>  {} {}", v.type_name(), v.clone().try_cast::<Tree>().map(|t| format!("{t:?}")).unwrap_or(format!("{v:?}"))),
                    Err(err) => println!("{s}  =>  ERR {err}"),
                }
            }
        }
        "run" => {
            let text = std::fs::read_to_string(&args[2]).unwrap();
            let mut lines: Vec<&str> = text.lines().filter(|l| l.contains("\"GEN\"")).collect();
            lines.sort();
            lines.dedup();
            let mut w = std::io::BufWriter::new(std::fs::File::create(&args[3]).unwrap());
            let engine = fidget_rhai::engine();
            let mut id = 0;
            for l in lines {
                // <<"GEN", "json">> : the JSON is a TLA+ string literal (escaped quotes)
                let start = l.find(", \"").unwrap() + 3;
                let end = l.rfind("\">>").unwrap();
                let body = l[start..end].replace("\\\"", "\"").replace("\\\\", "\\");
                let c: J = serde_json::from_str(&body).unwrap_or_else(|e| panic!("bad GEN line {e}: {body}"));
                let script = render(&c["ast"]);
                let r = vharness::catch(std::panic::AssertUnwindSafe(|| engine.eval::<rhai::Dynamic>(&script)));
                let (status, got, msg) = match r {
                    Err(m) => ("panic", J::Null, m),
                    Ok(Err(e)) => ("err", J::Null, format!("{e}")),
                    Ok(Ok(v)) => match v.clone().try_cast::<Tree>() {
                        Some(t) => ("ok", ser_tree(&t), String::new()),
                        None => ("nontree", J::Null, format!("{} {v:?}", v.type_name())),
                    },
                };
                // the tree the corresponding Rust calls build, from the model's expectation
                let want = &c["want"];
                let rust = if want["k"] == "tree" {
                    match vharness::catch(std::panic::AssertUnwindSafe(|| ser_tree(&build_term(&want["t"][0])))) {
                        Ok(j) => j,
                        Err(m) => term("harness-error", &m, 0, 0, vec![], vec![]),
                    }
                } else {
                    J::Null
                };
                let empty = term("none", "", 0, 0, vec![], vec![]);
                let j = json!({"ev": "script", "id": id, "script": script, "ast": c["ast"], "status": status, "msg": msg,
                    "got": if got.is_null() { empty.clone() } else { got }, "rust": if rust.is_null() { empty } else { rust }});
                writeln!(w, "{j}").unwrap();
                id += 1;
            }
            direct_cases(&mut w, &mut id);
            w.flush().unwrap();
            eprintln!("c17: {id} scripts");
        }
        _ => panic!("usage"),
    }
}
