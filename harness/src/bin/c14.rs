//! C14 recorder: variable binding by identity and input transforms, for the
//! point, interval, many-point and gradient shape evaluators of VM and JIT,
//! before and after simplification.
//! Usage: c14 <tlc-cases-file> <quick|thorough> <out.ndjson>
use fidget_core::{
    context::{Context, Node},
    eval::{Function, MathFunction},
    shape::{EzShape, Shape, ShapeVars},
    types::{Grad, Interval},
    var::Var,
    vm::{VmFunction, VmTrace},
};
use fidget_jit::JitFunction;
use nalgebra::Matrix4;
use serde_json::{json, Value};
use std::collections::HashMap;
use std::io::Write;
use vharness::{
    evalx::{gbits, ibits},
    keys::{bits, seed_from_env, Rng},
};

const PRIMES: [i64; 10] = [2, 3, 5, 7, 11, 13, 17, 19, 23, 29];

struct Case {
    order: Vec<String>,
    supplied: Vec<String>,
}

fn read_cases(path: &str) -> Vec<Case> {
    let text = std::fs::read_to_string(path).unwrap();
    let mut lines: Vec<&str> = text.lines().filter(|l| l.starts_with("<<\"GEN\", \"")).collect();
    lines.sort();
    lines.dedup();
    lines
        .iter()
        .map(|l| {
            let body = l.trim_start_matches("<<\"GEN\", \"").trim_end_matches("\">>").replace("\\\"", "\"");
            let v: Value = serde_json::from_str(&body).unwrap();
            let strs = |x: &Value| x.as_array().map(|a| a.iter().map(|s| s.as_str().unwrap().to_string()).collect()).unwrap_or_default();
            Case { order: strs(&v["order"]), supplied: strs(&v["supplied"]) }
        })
        .collect()
}

/// integer matrices (row major); bottom row (0,0,0,1) = affine
fn matrices() -> Vec<(&'static str, [i64; 16])> {
    vec![
        ("translate", [1, 0, 0, 1, 0, 1, 0, -2, 0, 0, 1, 3, 0, 0, 0, 1]),
        ("permute", [0, 1, 0, 0, 0, 0, 1, 0, 1, 0, 0, 0, 0, 0, 0, 1]),
        ("scale", [2, 0, 0, 0, 0, -1, 0, 0, 0, 0, 3, 0, 0, 0, 0, 1]),
        ("shear", [1, 2, 0, 0, 0, 1, 0, 0, -1, 0, 1, 1, 0, 0, 0, 1]),
        ("rot90z", [0, -1, 0, 0, 1, 0, 0, 0, 0, 0, 1, 0, 0, 0, 0, 1]),
        ("proj-neg", [1, 0, 0, 0, 0, 1, 0, 2, 0, 0, 1, 0, 0, 0, 0, -1]),
        ("proj-w2", [2, 0, 0, 4, 0, 4, 0, 0, 0, 0, 2, -2, 0, 0, 0, 2]),
        // projective row without any translation (w = z + 1, x + y + 2): divisions by w in {+-1, +-2, +-4} stay exact
        ("persp-z", [2, 0, 0, 0, 0, 2, 0, 0, 0, 0, 2, 0, 0, 0, 1, 1]),
        ("persp-xy", [4, 0, 0, 0, 0, -4, 0, 0, 0, 4, 4, 0, 1, 1, 0, 2]),
    ]
}

fn sum(ctx: &mut Context, terms: &[Node], shape: usize) -> Node {
    match shape % 3 {
        0 => terms.iter().skip(1).fold(terms[0], |a, t| ctx.add(a, *t).unwrap()),
        1 => {
            let mut it = terms.iter().rev();
            let mut acc = *it.next().unwrap();
            for t in it {
                acc = ctx.add(*t, acc).unwrap();
            }
            acc
        }
        _ => {
            if terms.len() == 1 {
                terms[0]
            } else {
                let (a, b) = terms.split_at(terms.len() / 2);
                let l = sum(ctx, a, shape);
                let r = sum(ctx, b, shape);
                ctx.add(l, r).unwrap()
            }
        }
    }
}

struct Built<F> {
    shape: Shape<F>,
    /// terms whose sum is the value: (var name, weight)
    terms: Vec<(String, i64)>,
    vars: HashMap<String, Var>,
    has_choice: bool,
}

fn build<F: MathFunction + Clone>(case: &Case, shape_id: usize) -> Built<F> {
    build_with(case, shape_id, HashMap::new())
}

fn build_with<F: MathFunction + Clone>(case: &Case, shape_id: usize, vars: HashMap<String, Var>) -> Built<F> {
    let mut ctx = Context::new();
    let mut vars = vars;
    let mut var_of = |name: &str| -> Var {
        *vars.entry(name.to_string()).or_insert_with(|| match name {
            "X" => Var::X,
            "Y" => Var::Y,
            "Z" => Var::Z,
            _ => Var::new(),
        })
    };
    let mut distinct: Vec<String> = vec![];
    for v in &case.order {
        if !distinct.contains(v) {
            distinct.push(v.clone());
        }
    }
    let drop = if distinct.len() >= 2 && shape_id % 2 == 1 { Some(distinct.last().unwrap().clone()) } else { None };
    let mut a_nodes = vec![];
    let mut b_nodes = vec![];
    let mut terms = vec![];
    for (k, v) in case.order.iter().enumerate() {
        let w = PRIMES[k % PRIMES.len()];
        let vn = ctx.var(var_of(v));
        let wn = ctx.constant(w as f32);
        let t = ctx.mul(vn, wn).unwrap();
        if Some(v) == drop.as_ref() {
            b_nodes.push(t);
        } else {
            a_nodes.push(t);
            terms.push((v.clone(), w));
        }
    }
    let sa = sum(&mut ctx, &a_nodes, shape_id / 2);
    let (root, has_choice) = if b_nodes.is_empty() {
        (sa, false)
    } else {
        let sb = sum(&mut ctx, &b_nodes, shape_id / 2);
        let k = ctx.constant(1.0e6);
        let sb = ctx.sub(sb, k).unwrap();
        (ctx.max(sa, sb).unwrap(), true)
    };
    Built { shape: Shape::<F>::new(&ctx, root).unwrap(), terms, vars, has_choice }
}

fn run_case<F: MathFunction + Function<Trace = VmTrace> + Clone>(
    w: &mut dyn Write,
    id: &mut usize,
    backend: &str,
    case: &Case,
    shape_id: usize,
    rng: &mut Rng,
) {
    let b = build::<F>(case, shape_id);
    let mut varmap: Vec<(String, usize)> = vec![];
    for (name, var) in &b.vars {
        if let Some(i) = b.shape.inner().vars().get(var) {
            varmap.push((name.clone(), i));
        }
    }
    varmap.sort();
    let nvars_total = b.shape.inner().vars().len();
    // values for every variable name, small integers
    let mut values: HashMap<String, i64> = HashMap::new();
    for name in b.vars.keys() {
        values.insert(name.clone(), rng.below(9) as i64 - 4);
    }
    let mats = matrices();
    let mat_choice = rng.below(mats.len() + 2);
    let (mname, mat): (&str, Option<[i64; 16]>) = if mat_choice >= mats.len() { ("none", None) } else { (mats[mat_choice].0, Some(mats[mat_choice].1)) };
    // the position: for proj-w2 coordinates must keep the division exact (all outputs even)
    let p: [i64; 3] = [rng.below(7) as i64 - 3, rng.below(7) as i64 - 3, rng.below(7) as i64 - 3];
    let m4 = mat.map(|m| Matrix4::from_row_slice(&m.map(|v| v as f32)));
    let mut sv = ShapeVars::<f32>::new();
    let mut sva = ShapeVars::<Vec<f32>>::new();
    let nsamp = 3;
    for s in &case.supplied {
        let (var, val) = if s == "extra" { (Var::new(), 77.0) } else {
            match b.vars.get(s) { Some(v) => (*v, values[s] as f32), None => (Var::new(), 55.0) }
        };
        if let Some(ix) = var.index() {
            sv.insert(ix, val);
            // a supplied variable that the shape does not use is ignored, whatever the length of its array
            let unused = s == "extra" || !b.vars.contains_key(s);
            sva.insert(ix, vec![val; if unused { nsamp + 2 } else { nsamp }]);
        }
    }
    let base = json!({"backend": backend, "terms": b.terms.iter().map(|(n, w)| json!([n, w])).collect::<Vec<_>>(),
        "values": values.iter().map(|(n, v)| json!([n, v])).collect::<Vec<_>>(), "supplied": case.supplied,
        "point": p, "mat": mat.map(|m| m.to_vec()).unwrap_or_default(), "mname": mname,
        "vars": varmap.iter().map(|(n, i)| json!([n, i])).collect::<Vec<_>>(), "nvars": nvars_total,
        "allvars": b.vars.keys().collect::<Vec<_>>()});
    let wrappers = *id % 2 == 0;
    let idc = *id;
    let mut emit = |kind: &str, simplified: bool, ok: bool, err: String, got: Value, seeds: Option<Value>| {
        let mut j = base.clone();
        if let Some(sd) = seeds { j["seeds"] = sd; }
        j["ev"] = json!("bind");
        j["id"] = json!(*id);
        j["kind"] = json!(kind);
        j["simplified"] = json!(simplified);
        j["ok"] = json!(ok);
        j["err"] = json!(err);
        j["got"] = got;
        writeln!(w, "{j}").unwrap();
        *id += 1;
    };
    let (x, y, z) = (p[0] as f32, p[1] as f32, p[2] as f32);
    // every other case goes through the public entry points (eval_with_vars, eval_with_transform_and_vars,
    // eval_with_var_arrays, ...) instead of eval_raw
    let mut shapes: Vec<(Shape<F>, bool)> = vec![(b.shape.clone(), false)];
    // simplified child (only when there is a choice and the interval evaluation gives a trace)
    if b.has_choice {
        let mut ie = Shape::<F>::new_interval_eval();
        let tape = b.shape.ez_interval_tape();
        let bx = |v: f32| Interval::new(v - 1.0, v + 1.0);
        if let Ok((_, Some(tr))) = ie.eval_raw(&tape, bx(x), bx(y), bx(z), m4.as_ref(), &sv) {
            if let Ok(c) = b.shape.ez_simplify(tr) {
                shapes.push((c, true));
            }
        }
    }
    for (shape, simplified) in &shapes {
        // point
        {
            let tape = shape.ez_point_tape();
            let mut e = Shape::<F>::new_point_eval();
            let r = match (wrappers, m4.as_ref()) {
                (true, Some(m)) => e.eval_with_transform_and_vars(&tape, x, y, z, m, &sv),
                (true, None) => e.eval_with_vars(&tape, x, y, z, &sv),
                (false, m) => e.eval_raw(&tape, x, y, z, m, &sv),
            };
            match r {
                Ok((v, _)) => emit("point", *simplified, true, String::new(), json!([bits(v)]), None),
                Err(er) => emit("point", *simplified, false, format!("{er}"), json!([]), None),
            }
        }
        // interval on the degenerate box
        {
            let tape = shape.ez_interval_tape();
            let mut e = Shape::<F>::new_interval_eval();
            let (ix, iy, iz) = (Interval::from(x), Interval::from(y), Interval::from(z));
            let r = match (wrappers, m4.as_ref()) {
                (true, Some(m)) => e.eval_with_transform_and_vars(&tape, ix, iy, iz, m, &sv),
                (true, None) => e.eval_with_vars(&tape, ix, iy, iz, &sv),
                (false, m) => e.eval_raw(&tape, ix, iy, iz, m, &sv),
            };
            match r {
                Ok((v, _)) => emit("interval", *simplified, true, String::new(), json!(ibits(&v)), None),
                Err(er) => emit("interval", *simplified, false, format!("{er}"), json!([]), None),
            }
        }
        // many-point, variables as single values and as arrays
        {
            let tape = shape.ez_float_slice_tape();
            let mut e = Shape::<F>::new_float_slice_eval();
            // without a transform, an axis that the function does not read may hold anything (infinity, NaN): the position
            // is handed to the function as it is, axis by axis
            let reads = |n: &str| varmap.iter().any(|(t, _)| t == n);     // in the function's variable map at all
            let wild = |v: f32, n: &str, k: usize| if m4.is_none() && !reads(n) { [f32::INFINITY, f32::NAN, f32::NEG_INFINITY][(idc + k) % 3] } else { v };
            let (xs, ys, zs) = (vec![wild(x, "X", 0); nsamp], vec![wild(y, "Y", 1); nsamp], vec![wild(z, "Z", 2); nsamp]);
            let r = match (wrappers, m4.as_ref()) {
                (true, Some(m)) => e.eval_with_transform_and_vars(&tape, &xs, &ys, &zs, m, &sv).map(|o| o.to_vec()),
                (true, None) => e.eval_with_vars(&tape, &xs, &ys, &zs, &sv).map(|o| o.to_vec()),
                (false, m) => e.eval_raw(&tape, &xs, &ys, &zs, m, fidget_core::shape::ShapeBulkEval::<F::FloatSliceEval>::var_value(&sv)).map(|o| o.to_vec()),
            };
            match r {
                Ok(o) => emit("float-values", *simplified, true, String::new(), json!(o.iter().map(|v| bits(*v)).collect::<Vec<_>>()), None),
                Err(er) => emit("float-values", *simplified, false, format!("{er}"), json!([]), None),
            }
            let r = match (wrappers, m4.as_ref()) {
                (true, Some(m)) => e.eval_with_transform_and_var_arrays(&tape, &xs, &ys, &zs, m, &sva).map(|o| o.to_vec()),
                (true, None) => e.eval_with_var_arrays(&tape, &xs, &ys, &zs, &sva).map(|o| o.to_vec()),
                (false, m) => e.eval_raw(&tape, &xs, &ys, &zs, m, fidget_core::shape::ShapeBulkEval::<F::FloatSliceEval>::var_array(&sva)).map(|o| o.to_vec()),
            };
            match r {
                Ok(o) => emit("float-arrays", *simplified, true, String::new(), json!(o.iter().map(|v| bits(*v)).collect::<Vec<_>>()), None),
                Err(er) => emit("float-arrays", *simplified, false, format!("{er}"), json!([]), None),
            }
        }
        // gradient
        {
            let tape = shape.ez_grad_slice_tape();
            let mut e = Shape::<F>::new_grad_slice_eval();
            // the caller's own derivative seeds (small integers, every other case; the unit axes otherwise): the gradient of
            // the input transform is applied to them
            let seeds: [[i64; 3]; 3] = if idc % 4 < 2 { [[1, 0, 0], [0, 1, 0], [0, 0, 1]] } else {
                let k = idc;
                [[(k % 5) as i64 - 2, ((k / 5) % 3) as i64 - 1, 2], [0, ((k / 3) % 5) as i64 - 2, -1], [((k / 7) % 3) as i64, 1, ((k / 2) % 5) as i64 - 2]]
            };
            let g = |v: f32, sd: [i64; 3]| Grad::new(v, sd[0] as f32, sd[1] as f32, sd[2] as f32);
            let xs = vec![g(x, seeds[0]); 2];
            let ys = vec![g(y, seeds[1]); 2];
            let zs = vec![g(z, seeds[2]); 2];
            let r = match (wrappers, m4.as_ref()) {
                (true, Some(m)) => e.eval_with_transform_and_vars(&tape, &xs, &ys, &zs, m, &sv).map(|o| o.to_vec()),
                (true, None) => e.eval_with_vars(&tape, &xs, &ys, &zs, &sv).map(|o| o.to_vec()),
                (false, m) => e.eval_raw(&tape, &xs, &ys, &zs, m, fidget_core::shape::ShapeBulkEval::<F::GradSliceEval>::var_value(&sv)).map(|o| o.to_vec()),
            };
            match r {
                Ok(o) => emit("grad", *simplified, true, String::new(), json!(o.iter().map(gbits).collect::<Vec<_>>()), Some(json!(seeds))),
                Err(er) => emit("grad", *simplified, false, format!("{er}"), json!([]), Some(json!(seeds))),
            }

        }
    }
}


// ---------------------------------------------------------------------------------------------------------
// Histories (C14): binding must not depend on where a shape's storage came from or on what an evaluator
// object evaluated before.

fn base_of<F: MathFunction + Clone>(backend: &str, b: &Built<F>, shape: &Shape<F>, values: &HashMap<String, i64>, supplied: &[String], p: [i64; 3], mat: Option<[i64; 16]>, mname: &str) -> Value {
    let mut varmap: Vec<(String, usize)> = vec![];
    for (name, var) in &b.vars {
        if let Some(i) = shape.inner().vars().get(var) {
            varmap.push((name.clone(), i));
        }
    }
    varmap.sort();
    json!({"backend": backend, "terms": b.terms.iter().map(|(n, w)| json!([n, w])).collect::<Vec<_>>(),
        "values": values.iter().map(|(n, v)| json!([n, v])).collect::<Vec<_>>(), "supplied": supplied,
        "point": p, "mat": mat.map(|m| m.to_vec()).unwrap_or_default(), "mname": mname,
        "vars": varmap.iter().map(|(n, i)| json!([n, i])).collect::<Vec<_>>(), "nvars": shape.inner().vars().len(),
        "allvars": b.vars.keys().collect::<Vec<_>>()})
}

fn emit_rec(w: &mut dyn Write, id: &mut usize, base: &Value, kind: &str, simplified: bool, r: Result<Value, String>) {
    let mut j = base.clone();
    j["ev"] = json!("bind");
    j["id"] = json!(*id);
    j["kind"] = json!(kind);
    j["simplified"] = json!(simplified);
    j["ok"] = json!(r.is_ok());
    j["err"] = json!(r.as_ref().err().cloned().unwrap_or_default());
    j["got"] = r.unwrap_or(json!([]));
    writeln!(w, "{j}").unwrap();
    *id += 1;
}

fn shape_vars<F>(b: &Built<F>, values: &HashMap<String, i64>) -> (ShapeVars<f32>, Vec<String>) {
    let mut sv = ShapeVars::<f32>::new();
    let mut supplied = vec![];
    for (name, var) in &b.vars {
        if let Some(ix) = var.index() {
            sv.insert(ix, values[name] as f32);
            supplied.push(name.clone());
        }
    }
    (sv, supplied)
}

fn simplify_left<F: MathFunction + Function<Trace = VmTrace> + Clone>(b: &Built<F>, p: [i64; 3], sv: &ShapeVars<f32>, storage: Option<F::Storage>) -> Option<Shape<F>> {
    let mut ie = Shape::<F>::new_interval_eval();
    let tape = b.shape.ez_interval_tape();
    let bx = |v: i64| Interval::new(v as f32 - 1.0, v as f32 + 1.0);
    let (_, tr) = ie.eval_raw(&tape, bx(p[0]), bx(p[1]), bx(p[2]), None, sv).ok()?;
    let tr = tr?.clone();
    drop(tape);
    match storage {
        None => b.shape.ez_simplify(&tr).ok(),
        Some(s) => {
            let mut ws = F::Workspace::default();
            b.shape.simplify(&tr, s, &mut ws).ok()
        }
    }
}

fn run_histories<F: MathFunction + Function<Trace = VmTrace> + Clone>(w: &mut dyn Write, id: &mut usize, backend: &str, rng: &mut Rng, rounds: usize) {
    let pairs: [[&str; 2]; 4] = [["X", "Y"], ["w0", "w1"], ["Y", "w0"], ["Z", "X"]];
    for round in 0..rounds {
        // (1) storage recycled from the simplified child of A goes into the simplification of B, which meets
        //     the same two variables in the opposite order
        let names = pairs[round % pairs.len()];
        let ca = Case { order: vec![names[0].into(), names[1].into()], supplied: vec![] };
        let cb = Case { order: vec![names[1].into(), names[0].into()], supplied: vec![] };
        let a = build_with::<F>(&ca, 1, HashMap::new());
        let b = build_with::<F>(&cb, 1, a.vars.clone());
        let mut values: HashMap<String, i64> = HashMap::new();
        for (k, name) in b.vars.keys().enumerate() {
            values.insert(name.clone(), 1 + k as i64 + rng.below(3) as i64 * 2);
        }
        let p: [i64; 3] = [rng.below(5) as i64 - 2, 3 - rng.below(3) as i64, rng.below(7) as i64 - 3];
        let (sv, supplied) = shape_vars(&b, &values);
        let storage = simplify_left(&a, p, &sv, None).and_then(|child| child.recycle());
        let from = if storage.is_some() { "recycled" } else { "default" };
        if let Some(child) = simplify_left(&b, p, &sv, storage) {
            let base = base_of(backend, &b, &child, &values, &supplied, p, None, from);
            let (x, y, z) = (p[0] as f32, p[1] as f32, p[2] as f32);
            let tape = child.ez_point_tape();
            let mut e = Shape::<F>::new_point_eval();
            let r = vharness::catch(std::panic::AssertUnwindSafe(|| e.eval_raw(&tape, x, y, z, None, &sv).map(|(v, _)| json!([bits(v)])).map_err(|er| format!("{er}"))));
            emit_rec(w, id, &base, "point", true, r.unwrap_or_else(|m| Err(format!("panic: {m}"))));
            let tape = child.ez_interval_tape();
            let mut e = Shape::<F>::new_interval_eval();
            let r = vharness::catch(std::panic::AssertUnwindSafe(|| e.eval_raw(&tape, Interval::from(x), Interval::from(y), Interval::from(z), None, &sv).map(|(v, _)| json!(ibits(&v))).map_err(|er| format!("{er}"))));
            emit_rec(w, id, &base, "interval", true, r.unwrap_or_else(|m| Err(format!("panic: {m}"))));
        }
        // (3) long-lived tracing evaluators over shapes that are built, evaluated and dropped in turn: the shapes have
        //     the same number of variables in different encounter orders, and a dropped shape's variable map is
        //     typically reallocated at the same address for the next one
        {
            let mut pe = Shape::<F>::new_point_eval();
            let mut ie = Shape::<F>::new_interval_eval();
            let orders: [[&str; 3]; 6] = [["w0", "X", "w1"], ["X", "w1", "w0"], ["w1", "w0", "X"], ["X", "w0", "w1"], ["w0", "w1", "X"], ["w1", "X", "w0"]];
            let mut shared: HashMap<String, Var> = HashMap::new();
            for step in 0..6 {
                let c = Case { order: orders[(step * 5 + round) % 6].iter().map(|s| s.to_string()).collect(), supplied: vec![] };
                let bb = build_with::<F>(&c, round % 3, shared.clone());
                shared = bb.vars.clone();
                let mut values: HashMap<String, i64> = HashMap::new();
                for (k, name) in bb.vars.keys().enumerate() {
                    values.insert(name.clone(), 2 + 3 * k as i64 + rng.below(3) as i64);
                }
                let (sv, supplied) = shape_vars(&bb, &values);
                let base = base_of(backend, &bb, &bb.shape, &values, &supplied, p, None, "tracing-reuse");
                let (x, y, z) = (p[0] as f32, p[1] as f32, p[2] as f32);
                let tape = bb.shape.ez_point_tape();
                let r = vharness::catch(std::panic::AssertUnwindSafe(|| pe.eval_raw(&tape, x, y, z, None, &sv).map(|(v, _)| json!([bits(v)])).map_err(|er| format!("{er}"))));
                emit_rec(w, id, &base, "point", false, r.unwrap_or_else(|m| Err(format!("panic: {m}"))));
                let tape = bb.shape.ez_interval_tape();
                let r = vharness::catch(std::panic::AssertUnwindSafe(|| ie.eval_raw(&tape, Interval::from(x), Interval::from(y), Interval::from(z), None, &sv).map(|(v, _)| json!(ibits(&v))).map_err(|er| format!("{er}"))));
                emit_rec(w, id, &base, "interval", false, r.unwrap_or_else(|m| Err(format!("panic: {m}"))));
                // bb (shape, tapes, variable map) is dropped here
            }
        }
        // (4) one bulk evaluator: a call with per-sample arrays for the variables, then a call with one value per variable
        //     that equals the first and the last element of the array used before
        {
            let c = Case { order: vec!["w0".into(), "X".into(), "w1".into()], supplied: vec![] };
            let bb = build_with::<F>(&c, 0, HashMap::new());
            let mut fe = Shape::<F>::new_float_slice_eval();
            let tape = bb.shape.ez_float_slice_tape();
            let n = 4usize;
            let a0 = 1 + rng.below(4) as i64;
            let mut sva = ShapeVars::<Vec<f32>>::new();
            let mut sv1 = ShapeVars::<f32>::new();
            let mut values: HashMap<String, i64> = HashMap::new();
            for (k, (name, var)) in bb.vars.iter().enumerate() {
                if let Some(ix) = var.index() {
                    let v = a0 + k as i64;
                    values.insert(name.clone(), v);
                    sva.insert(ix, vec![v as f32, (v + 3) as f32, (v - 2) as f32, v as f32]);
                    sv1.insert(ix, v as f32);
                }
            }
            let (x, y, z) = (p[0] as f32, p[1] as f32, p[2] as f32);
            let (xs, ys, zs) = (vec![x; n], vec![y; n], vec![z; n]);
            let _ = vharness::catch(std::panic::AssertUnwindSafe(|| fe.eval_with_var_arrays(&tape, &xs, &ys, &zs, &sva).map(|o| o.to_vec())));
            let supplied: Vec<String> = values.keys().cloned().collect();
            let base = base_of(backend, &bb, &bb.shape, &values, &supplied, p, None, "arrays-then-values");
            let r = vharness::catch(std::panic::AssertUnwindSafe(|| fe.eval_with_vars(&tape, &xs, &ys, &zs, &sv1).map(|o| o[..3].to_vec()).map_err(|er| format!("{er}"))));
            emit_rec(w, id, &base, "float-values", false, r.unwrap_or_else(|m| Err(format!("panic: {m}"))).map(|o| json!(o.iter().map(|v| bits(*v)).collect::<Vec<_>>())));
        }
        // (2) one bulk evaluator: many variables at n samples, then fewer variables at another n (and back)
        let many: Vec<String> = ["w0", "w1", "w2", "X", "w3", "Y"].iter().take(3 + round % 4).map(|s| s.to_string()).collect();
        let few: Vec<String> = [["Z"], ["w9"], ["X"]][round % 3].iter().map(|s| s.to_string()).collect();
        let big = build_with::<F>(&Case { order: many, supplied: vec![] }, 0, HashMap::new());
        let small = build_with::<F>(&Case { order: few, supplied: vec![] }, 0, HashMap::new());
        let mut fe = Shape::<F>::new_float_slice_eval();
        let mut ge = Shape::<F>::new_grad_slice_eval();
        let order: Vec<(&Built<F>, usize, usize)> = if round % 2 == 0 { vec![(&big, 5, 4), (&small, 3, 2)] } else { vec![(&small, 7, 5), (&big, 3, 2), (&small, 3, 2)] };
        for (bb, n, gn) in order {
            let mut values: HashMap<String, i64> = HashMap::new();
            for name in bb.vars.keys() {
                values.insert(name.clone(), rng.below(9) as i64 - 4);
            }
            let (sv, supplied) = shape_vars(bb, &values);
            let base = base_of(backend, bb, &bb.shape, &values, &supplied, p, None, "bulk-reuse");
            let (x, y, z) = (p[0] as f32, p[1] as f32, p[2] as f32);
            let tape = bb.shape.ez_float_slice_tape();
            let (xs, ys, zs) = (vec![x; n], vec![y; n], vec![z; n]);
            let r = vharness::catch(std::panic::AssertUnwindSafe(|| fe.eval_raw(&tape, &xs, &ys, &zs, None, fidget_core::shape::ShapeBulkEval::<F::FloatSliceEval>::var_value(&sv)).map(|o| o.to_vec()).map_err(|er| format!("{er}"))));
            let r = r.unwrap_or_else(|m| Err(format!("panic: {m}")));
            if n == 3 || r.is_err() {
                emit_rec(w, id, &base, "float-values", false, r.map(|o| json!(o.iter().map(|v| bits(*v)).collect::<Vec<_>>())));
            }
            let tape = bb.shape.ez_grad_slice_tape();
            let xs = vec![Grad::new(x, 1.0, 0.0, 0.0); gn];
            let ys = vec![Grad::new(y, 0.0, 1.0, 0.0); gn];
            let zs = vec![Grad::new(z, 0.0, 0.0, 1.0); gn];
            let r = vharness::catch(std::panic::AssertUnwindSafe(|| ge.eval_raw(&tape, &xs, &ys, &zs, None, fidget_core::shape::ShapeBulkEval::<F::GradSliceEval>::var_value(&sv)).map(|o| o.to_vec()).map_err(|er| format!("{er}"))));
            let r = r.unwrap_or_else(|m| Err(format!("panic: {m}")));
            if gn == 2 || r.is_err() {
                emit_rec(w, id, &base, "grad", false, r.map(|o| json!(o.iter().map(gbits).collect::<Vec<_>>())));
            }
        }
    }
}

fn main() {
    let args: Vec<String> = std::env::args().collect();
    let cases = read_cases(&args[1]);
    let quick = args[2] == "quick";
    let mut file = std::io::BufWriter::new(std::fs::File::create(&args[3]).unwrap());
    let mut rng = Rng::new(seed_from_env().wrapping_add(1414));
    let mut id = 0;
    let stride = if quick { 5 } else { 1 };
    for (k, c) in cases.iter().enumerate().step_by(stride) {
        let shape_id = rng.below(6);
        if k % 2 == 0 {
            run_case::<VmFunction>(&mut file, &mut id, "vm", c, shape_id, &mut rng);
        } else {
            run_case::<JitFunction>(&mut file, &mut id, "jit", c, shape_id, &mut rng);
        }
    }
    // dozens of free variables: long random orders
    for k in 0..(if quick { 40 } else { 400 }) {
        let nfree = 5 + rng.below(40);
        let mut order: Vec<String> = (0..nfree).map(|i| format!("w{i}")).collect();
        for a in ["X", "Y", "Z"] {
            if rng.below(3) > 0 {
                order.push(a.to_string());
            }
        }
        for i in (1..order.len()).rev() {
            order.swap(i, rng.below(i + 1));
        }
        order.truncate(PRIMES.len());
        let mut supplied: Vec<String> = order.iter().filter(|v| v.starts_with('w')).cloned().collect();
        if k % 5 == 4 && !supplied.is_empty() {
            supplied.remove(rng.below(supplied.len()));
        }
        supplied.push("extra".into());
        let c = Case { order, supplied };
        if k % 2 == 0 {
            run_case::<VmFunction>(&mut file, &mut id, "vm", &c, rng.below(6), &mut rng);
        } else {
            run_case::<JitFunction>(&mut file, &mut id, "jit", &c, rng.below(6), &mut rng);
        }
    }
    // histories: recycled storage across variable orders, one bulk evaluator across variable counts
    let rounds = if quick { 24 } else { 240 };
    run_histories::<VmFunction>(&mut file, &mut id, "vm", &mut rng, rounds);
    run_histories::<JitFunction>(&mut file, &mut id, "jit", &mut rng, rounds);
    file.flush().unwrap();
    eprintln!("c14: {id} records");
}
