//! C16 recorder: builds each shape term enumerated by spec/MC_Shapes.tla with the real
//! library structs, converts to a tree, evaluates at lattice points and records the signs.
//! Usage: c16 <tlc-shapes-file> <quick|thorough> <out.ndjson>
use fidget_core::{
    context::{Context, Tree},
    shape::{EzShape, Shape},
    vm::VmFunction,
};
use fidget_shapes::{
    types::{Axis, Plane, Vec2, Vec3},
    Circle, Difference, ExtrudeZ, Intersection, Inverse, Move, Rectangle, Reflect, ReflectX, ReflectXY, ReflectY,
    ReflectZ, RepeatX, RevolveY, Rotate, RotateX, RotateY, RotateZ, Scale, ScaleUniform, Sphere, Union,
};
use serde_json::{json, Value};
use std::io::Write;
use vharness::keys::{seed_from_env, Rng};

fn f(v: &Value) -> f32 {
    v.as_f64().unwrap() as f32
}
fn v3(v: &Value) -> Vec3 {
    Vec3::new(f(&v[0]), f(&v[1]), f(&v[2]))
}
fn v2(v: &Value) -> Vec2 {
    Vec2::new(f(&v[0]), f(&v[1]))
}
fn axis(name: &str) -> Axis {
    match name { "X" => Axis::X, "Y" => Axis::Y, _ => Axis::Z }
}

/// `alt` selects between equivalent ways of writing the same shape (named vs generic forms)
fn build(t: &Value, alt: &mut usize) -> Tree {
    *alt += 1;
    let k = t[0].as_str().unwrap();
    match k {
        "sphere" => Sphere { center: v3(&t[1]), radius: f(&t[2]) }.into(),
        "circle" => Circle { center: v2(&t[1]), radius: f(&t[2]) }.into(),
        "box" => fidget_shapes::Box { lower: v3(&t[1]), upper: v3(&t[2]) }.into(),
        "rect" => Rectangle { lower: v2(&t[1]), upper: v2(&t[2]) }.into(),
        "plane" => {
            let o = f(&t[2]);
            let p = match t[1].as_str().unwrap() {
                "XY" => Plane { offset: o, ..Plane::XY },
                "YZ" => Plane { offset: o, ..Plane::YZ },
                "ZX" => Plane { offset: o, ..Plane::ZX },
                a => Plane { axis: axis(a), offset: o },
            };
            p.into()
        }
        "move" => Move { shape: build(&t[1], alt), offset: v3(&t[2]) }.into(),
        "scale" => Scale { shape: build(&t[1], alt), scale: v3(&t[2]) }.into(),
        "scaleu" => ScaleUniform { shape: build(&t[1], alt), scale: f(&t[2]) }.into(),
        "reflect" => {
            let shape = build(&t[1], alt);
            let (a, o) = (t[2].as_str().unwrap(), f(&t[3]));
            if *alt % 2 == 0 {
                Reflect { shape, plane: Plane { axis: axis(a), offset: o } }.into()
            } else {
                match a { "X" => ReflectX { shape, offset: o }.into(), "Y" => ReflectY { shape, offset: o }.into(), _ => ReflectZ { shape, offset: o }.into() }
            }
        }
        "reflectxy" => ReflectXY { shape: build(&t[1], alt), offset: 0.0 }.into(),
        "rot" => {
            let shape = build(&t[1], alt);
            let (a, q, c) = (t[2].as_str().unwrap(), t[3].as_i64().unwrap(), v3(&t[4]));
            // the same rotation written with different angles: 90 q, 90 q - 360, 90 q + 360
            let angle = 90.0 * q as f32 + [0.0, -360.0, 360.0][*alt % 3];
            if *alt % 2 == 0 {
                Rotate { shape, axis: axis(a), angle, center: c }.into()
            } else {
                match a { "X" => RotateX { shape, angle, center: c }.into(), "Y" => RotateY { shape, angle, center: c }.into(), _ => RotateZ { shape, angle, center: c }.into() }
            }
        }
        "repeatx" => RepeatX { shape: build(&t[1], alt), radius: f(&t[2]), offset: f(&t[3]) }.into(),
        "revolvey" => RevolveY { shape: build(&t[1], alt), offset: f(&t[2]) }.into(),
        "extrudez" => ExtrudeZ { shape: build(&t[1], alt), lower: f(&t[2]), upper: f(&t[3]) }.into(),
        "union" => Union { input: t[1].as_array().unwrap().iter().map(|s| build(s, alt)).collect() }.into(),
        "inter" => Intersection { input: t[1].as_array().unwrap().iter().map(|s| build(s, alt)).collect() }.into(),
        "diff" => Difference { shape: build(&t[1], alt), cutout: build(&t[2], alt) }.into(),
        "inv" => Inverse { shape: build(&t[1], alt) }.into(),
        other => panic!("unknown shape {other}"),
    }
}

// ---- transforms and planes in general position (judged): T(s)(p) = s(T^-1 p) ---------------------------------
fn eval_tree(tree: &Tree, pts: &[[f32; 3]]) -> Vec<f32> {
    let mut ctx = Context::new();
    let node = ctx.import(tree);
    let shape = Shape::<VmFunction>::new(&ctx, node).unwrap();
    let tape = shape.ez_float_slice_tape();
    let mut e = Shape::<VmFunction>::new_float_slice_eval();
    let xs: Vec<f32> = pts.iter().map(|p| p[0]).collect();
    let ys: Vec<f32> = pts.iter().map(|p| p[1]).collect();
    let zs: Vec<f32> = pts.iter().map(|p| p[2]).collect();
    e.eval(&tape, &xs, &ys, &zs).unwrap().to_vec()
}

fn unit(v: [f64; 3]) -> [f64; 3] {
    let n = (v[0] * v[0] + v[1] * v[1] + v[2] * v[2]).sqrt();
    [v[0] / n, v[1] / n, v[2] / n]
}
fn dot(a: [f64; 3], b: [f64; 3]) -> f64 {
    a[0] * b[0] + a[1] * b[1] + a[2] * b[2]
}
/// Rodrigues rotation of v about the unit axis a by t radians (right-handed)
fn rot(a: [f64; 3], t: f64, v: [f64; 3]) -> [f64; 3] {
    let (c, s) = (t.cos(), t.sin());
    let cr = [a[1] * v[2] - a[2] * v[1], a[2] * v[0] - a[0] * v[2], a[0] * v[1] - a[1] * v[0]];
    let d = dot(a, v);
    [0, 1, 2].map(|i| v[i] * c + cr[i] * s + a[i] * d * (1.0 - c))
}

/// Random direction: general, or within a few milliradians of a coordinate axis (which must not be snapped to it)
fn random_axis(rng: &mut Rng, k: usize) -> [f32; 3] {
    match k % 4 {
        0 | 1 => [rng.range(-1.0, 1.0), rng.range(-1.0, 1.0), rng.range(0.2, 1.0) * if rng.below(2) == 0 { 1.0 } else { -1.0 }],
        _ => {
            // a tilt of 0.2 .. 4 milliradians away from a coordinate axis
            let t = rng.range(0.0002, 0.004);
            let a = rng.range(0.0, 6.28);
            let main = rng.below(3);
            let len = rng.range(0.5, 2.0) * if rng.below(2) == 0 { 1.0 } else { -1.0 };
            let mut v = [0.0f32; 3];
            v[main] = len;
            v[(main + 1) % 3] = len.abs() * t * a.cos();
            v[(main + 2) % 3] = len.abs() * t * a.sin();
            v
        }
    }
}

fn law_cases(w: &mut impl Write, id: &mut usize, rng: &mut Rng, count: usize) {
    for k in 0..count {
        // the solid s: a sphere or a box in general position (hundreds of units large in the `far` cases, where a
        // direction that is off by a milliradian moves the surface by a whole unit)
        let far = k % 5 == 4;
        let u = if far { 250.0 } else { 1.0 };
        // `near` holds points at a distance of 0.05 % .. 1 % of the solid's size from its surface, on either side
        let mut near: Vec<[f64; 3]> = vec![];
        let (stree, sdesc): (Tree, String) = if k % 2 == 0 {
            let c = [rng.range(-2.0, 2.0) * u, rng.range(-2.0, 2.0) * u, rng.range(-2.0, 2.0) * u];
            let r = rng.range(1.5, 3.0) * u;
            for i in 0..120 {
                let d = unit([rng.range(-1.0, 1.0) as f64, rng.range(-1.0, 1.0) as f64, rng.range(-1.0, 1.0) as f64 + 1.0e-3]);
                let rr = r as f64 * (1.0 + if i % 2 == 0 { 1.0 } else { -1.0 } * rng.range(0.0005, 0.01) as f64);
                near.push([c[0] as f64 + rr * d[0], c[1] as f64 + rr * d[1], c[2] as f64 + rr * d[2]]);
            }
            (Sphere { center: Vec3::new(c[0], c[1], c[2]), radius: r }.into(), format!("sphere({c:?},{r})"))
        } else {
            let lo = [rng.range(-3.0, 0.0) * u, rng.range(-3.0, 0.0) * u, rng.range(-3.0, 0.0) * u];
            let hi = [lo[0] + rng.range(1.5, 4.0) * u, lo[1] + rng.range(1.5, 4.0) * u, lo[2] + rng.range(1.5, 4.0) * u];
            for i in 0..120 {
                // a point of one face, pushed in or out
                let ax = i % 3;
                let mut q = [0.0f64; 3];
                for a in 0..3 { q[a] = rng.range(lo[a] + 0.1 * (hi[a] - lo[a]), hi[a] - 0.1 * (hi[a] - lo[a])) as f64; }
                let size = (hi[ax] - lo[ax]) as f64;
                let dlt = size * rng.range(0.0005, 0.01) as f64 * if i % 2 == 0 { 1.0 } else { -1.0 };
                q[ax] = if (i / 3) % 2 == 0 { hi[ax] as f64 + dlt } else { lo[ax] as f64 - dlt };
                near.push(q);
            }
            (fidget_shapes::Box { lower: Vec3::new(lo[0], lo[1], lo[2]), upper: Vec3::new(hi[0], hi[1], hi[2]) }.into(), format!("box({lo:?},{hi:?})"))
        };
        let span = 6.0 * u;
        let mut cands: Vec<[f32; 3]> = (0..400).map(|_| [rng.range(-span, span), rng.range(-span, span), rng.range(-span, span)]).collect();
        let kind = ["move", "scale", "scaleu", "reflect", "reflect-named", "rotate", "rotate-named", "plane", "repeatx"][k % 9];
        // the transformed tree and the inverse action on a point (f64)
        let inv: Box<dyn Fn([f64; 3]) -> Option<[f64; 3]>>;
        // the documented action itself (where a point has one image): used to place sample points next to the surface
        let mut fwd: Option<Box<dyn Fn([f64; 3]) -> [f64; 3]>> = None;
        let ttree: Tree;
        let mut plane_only: Option<([f64; 3], f64)> = None;
        let desc;
        match kind {
            "move" => {
                let o = [rng.range(-5.0, 5.0), rng.range(-5.0, 5.0), rng.range(-5.0, 5.0)];
                ttree = Move { shape: stree.clone(), offset: Vec3::new(o[0], o[1], o[2]) }.into();
                inv = Box::new(move |p| Some([p[0] - o[0] as f64, p[1] - o[1] as f64, p[2] - o[2] as f64]));
                fwd = Some(Box::new(move |q| [q[0] + o[0] as f64, q[1] + o[1] as f64, q[2] + o[2] as f64]));
                desc = format!("move {o:?}");
            }
            "scale" => {
                let sc = [0, 1, 2].map(|_| rng.range(0.3, 3.0) * if rng.below(3) == 0 { -1.0 } else { 1.0 });
                ttree = Scale { shape: stree.clone(), scale: Vec3::new(sc[0], sc[1], sc[2]) }.into();
                inv = Box::new(move |p| Some([p[0] / sc[0] as f64, p[1] / sc[1] as f64, p[2] / sc[2] as f64]));
                fwd = Some(Box::new(move |q| [q[0] * sc[0] as f64, q[1] * sc[1] as f64, q[2] * sc[2] as f64]));
                desc = format!("scale {sc:?}");
            }
            "scaleu" => {
                let sc = rng.range(0.3, 3.0) * if rng.below(3) == 0 { -1.0 } else { 1.0 };
                ttree = ScaleUniform { shape: stree.clone(), scale: sc }.into();
                inv = Box::new(move |p| Some([p[0] / sc as f64, p[1] / sc as f64, p[2] / sc as f64]));
                fwd = Some(Box::new(move |q| [q[0] * sc as f64, q[1] * sc as f64, q[2] * sc as f64]));
                desc = format!("scaleu {sc}");
            }
            "reflect" | "plane" => {
                let a = random_axis(rng, k / 9);
                let off = rng.range(-2.0, 2.0);
                let axis = Axis::try_from(Vec3::new(a[0], a[1], a[2])).unwrap();
                let n = unit([a[0] as f64, a[1] as f64, a[2] as f64]);
                if kind == "plane" {
                    ttree = Plane { axis, offset: off }.into();
                    plane_only = Some((n, off as f64));
                    inv = Box::new(|p| Some(p));
                } else {
                    ttree = Reflect { shape: stree.clone(), plane: Plane { axis, offset: off } }.into();
                    inv = Box::new(move |p| { let d = dot(n, p) - off as f64; Some([p[0] - 2.0 * d * n[0], p[1] - 2.0 * d * n[1], p[2] - 2.0 * d * n[2]]) });
                    fwd = Some(Box::new(move |p| { let d = dot(n, p) - off as f64; [p[0] - 2.0 * d * n[0], p[1] - 2.0 * d * n[1], p[2] - 2.0 * d * n[2]] }));
                }
                desc = format!("{kind} axis {a:?} offset {off}");
            }
            "reflect-named" => {
                let off = rng.range(-2.0, 2.0);
                let j = rng.below(4);
                if j == 3 {
                    // the named reflection about the line x = y, moved along its unit normal (-1, 1, 0) / sqrt 2 by `off`
                    ttree = fidget_shapes::ReflectXY { shape: stree.clone(), offset: off }.into();
                    let refl = move |p: [f64; 3]| { let h = std::f64::consts::FRAC_1_SQRT_2; let n = [-h, h, 0.0]; let d = n[0] * p[0] + n[1] * p[1] - off as f64; [p[0] - 2.0 * d * n[0], p[1] - 2.0 * d * n[1], p[2]] };
                    inv = Box::new(move |p| Some(refl(p)));
                    fwd = Some(Box::new(refl));
                } else {
                    ttree = match j { 0 => ReflectX { shape: stree.clone(), offset: off }.into(), 1 => ReflectY { shape: stree.clone(), offset: off }.into(), _ => ReflectZ { shape: stree.clone(), offset: off }.into() };
                    inv = Box::new(move |mut p| { p[j] = 2.0 * off as f64 - p[j]; Some(p) });
                    fwd = Some(Box::new(move |mut p| { p[j] = 2.0 * off as f64 - p[j]; p }));
                }
                desc = format!("reflect-{j} offset {off}");
            }
            "rotate" | "rotate-named" => {
                let named = kind == "rotate-named";
                let j = rng.below(3);
                let a = if named { let mut v = [0.0f32; 3]; v[j] = 1.0; v } else { random_axis(rng, k / 9) };
                // every third case an exact multiple of a quarter turn, of either sign and beyond a full turn
                let angle = if k % 3 == 0 { [-180.0f32, -270.0, -540.0, 90.0, 180.0, 270.0, -90.0, 360.0, -450.0, 630.0][(k / 3) % 10] } else { rng.range(-400.0, 400.0) };
                let c = [rng.range(-2.0, 2.0), rng.range(-2.0, 2.0), rng.range(-2.0, 2.0)];
                let center = Vec3::new(c[0], c[1], c[2]);
                ttree = if named {
                    match j { 0 => RotateX { shape: stree.clone(), angle, center }.into(), 1 => RotateY { shape: stree.clone(), angle, center }.into(), _ => RotateZ { shape: stree.clone(), angle, center }.into() }
                } else {
                    Rotate { shape: stree.clone(), axis: Axis::try_from(Vec3::new(a[0], a[1], a[2])).unwrap(), angle, center }.into()
                };
                let n = unit([a[0] as f64, a[1] as f64, a[2] as f64]);
                let t = -(angle as f64).to_radians();
                inv = Box::new(move |p| { let v = rot(n, t, [p[0] - c[0] as f64, p[1] - c[1] as f64, p[2] - c[2] as f64]); Some([v[0] + c[0] as f64, v[1] + c[1] as f64, v[2] + c[2] as f64]) });
                fwd = Some(Box::new(move |p| { let v = rot(n, -t, [p[0] - c[0] as f64, p[1] - c[1] as f64, p[2] - c[2] as f64]); [v[0] + c[0] as f64, v[1] + c[1] as f64, v[2] + c[2] as f64] }));
                desc = format!("{kind} axis {a:?} angle {angle} center {c:?}");
            }
            _ => {
                // the window that is repeated is [offset - radius, offset + radius): also far from the origin
                let (r, o) = (rng.range(0.5, 4.0), if rng.below(2) == 0 { rng.range(-2.0, 2.0) } else { rng.range(-15.0, 15.0) });
                ttree = RepeatX { shape: stree.clone(), radius: r, offset: o }.into();
                inv = Box::new(move |p| {
                    let (r, o) = (r as f64, o as f64);
                    let m = (p[0] - o + r).rem_euclid(2.0 * r);
                    // undecided within rounding distance of the seam of the repetition
                    if m < 1.0e-3 * (1.0 + p[0].abs()) || 2.0 * r - m < 1.0e-3 * (1.0 + p[0].abs()) { None } else { Some([m - r + o, p[1], p[2]]) }
                });
                desc = format!("repeatx radius {r} offset {o}");
            }
        }
        // candidates next to the expected surface come first
        let mut first: Vec<[f32; 3]> = vec![];
        if let Some(f) = &fwd {
            first = near.iter().map(|q| { let p = f(*q); [p[0] as f32, p[1] as f32, p[2] as f32] }).collect();
        } else if let Some((n, off)) = plane_only {
            let e1 = unit(if n[0].abs() < 0.9 { [0.0, -n[2], n[1]] } else { [-n[2], 0.0, n[0]] });
            let e2 = [n[1] * e1[2] - n[2] * e1[1], n[2] * e1[0] - n[0] * e1[2], n[0] * e1[1] - n[1] * e1[0]];
            for i in 0..120 {
                let (a, b) = (rng.range(-span, span) as f64, rng.range(-span, span) as f64);
                let d = off + (u as f64) * rng.range(0.002, 0.05) as f64 * if i % 2 == 0 { 1.0 } else { -1.0 };
                first.push([0, 1, 2].map(|c| (a * e1[c] + b * e2[c] + d * n[c]) as f32));
            }
        }
        first.extend(cands.drain(..));
        let cands = first;
        // keep about as many points inside the transformed solid as outside it
        let pts: Vec<[f32; 3]> = {
            let g = eval_tree(&ttree, &cands);
            let mut inside: Vec<[f32; 3]> = cands.iter().zip(&g).filter(|(_, v)| **v < 0.0).map(|(p, _)| *p).take(20).collect();
            let need = 40 - inside.len();
            inside.extend(cands.iter().zip(&g).filter(|(_, v)| !(**v < 0.0)).map(|(p, _)| *p).take(need));
            inside
        };
        let got = eval_tree(&ttree, &pts);
        let qs: Vec<Option<[f64; 3]>> = pts.iter().map(|p| inv([p[0] as f64, p[1] as f64, p[2] as f64])).collect();
        let qf: Vec<[f32; 3]> = qs.iter().map(|q| q.map(|v| [v[0] as f32, v[1] as f32, v[2] as f32]).unwrap_or([0.0; 3])).collect();
        let sref = eval_tree(&stree, &qf);
        let sign = |v: f32| -> i64 { if v.is_nan() { 5 } else if v < 0.0 { -1 } else if v > 0.0 { 1 } else { 0 } };
        let mut want = vec![];
        for (i, p) in pts.iter().enumerate() {
            let scale = 1.0 + p.iter().fold(0.0f32, |m, v| m.max(v.abs()));
            let band = std::env::var("VERIF_LAW_BAND").ok().and_then(|v| v.parse::<f32>().ok()).unwrap_or(3.0e-5) * scale + 1.0e-4;
            let w = match (plane_only, qs[i]) {
                (Some((n, off)), _) => { let d = dot(n, [p[0] as f64, p[1] as f64, p[2] as f64]) - off; if d.abs() < band as f64 { 0 } else if d < 0.0 { -1 } else { 1 } }
                (None, None) => 0,
                (None, Some(_)) => if sref[i].abs() < band || got[i].abs() < band * 0.01 { 0 } else { sign(sref[i]) },
            };
            want.push(w);
        }
        let j = json!({"ev": "law", "id": *id, "kind": kind, "term": ["law", kind], "desc": format!("{desc} of {sdesc}"), "far": far,
            "pts": pts.iter().map(|p| p.iter().map(|v| vharness::keys::bits(*v)).collect::<Vec<_>>()).collect::<Vec<_>>(),
            "sign": got.iter().map(|v| sign(*v)).collect::<Vec<_>>(), "want": want, "panic": "",
            "margin": pts.iter().enumerate().map(|(i, p)| { let sc = 1.0 + p.iter().fold(0.0f32, |m, v| m.max(v.abs())); (sref[i].abs().min(1.0e6) / sc * 1.0e9) as i64 }).collect::<Vec<_>>()});
        writeln!(w, "{j}").unwrap();
        *id += 1;
    }
}

/// Boxes and rectangles with corners at infinity (the usual way of writing half-spaces, slabs and infinite bars): a
/// point is inside exactly when it lies strictly between the finite bounds
fn unbounded_box_cases(w: &mut impl Write, id: &mut usize, rng: &mut Rng) {
    for k in 0..48usize {
        let mut lo = [rng.range(-3.0, 0.0), rng.range(-3.0, 0.0), rng.range(-3.0, 0.0)];
        let mut hi = [lo[0] + rng.range(1.0, 4.0), lo[1] + rng.range(1.0, 4.0), lo[2] + rng.range(1.0, 4.0)];
        // which bounds are infinite: one digit per axis (0 none, 1 lower, 2 upper, 3 both)
        let code = [1 + k % 3, (k / 3) % 4, (k / 12) % 4];
        let rect = k % 2 == 1;
        for a in 0..3 {
            if code[a] & 1 != 0 { lo[a] = f32::NEG_INFINITY; }
            if code[a] & 2 != 0 { hi[a] = f32::INFINITY; }
        }
        let tree: Tree = if rect {
            fidget_shapes::Rectangle { lower: fidget_shapes::types::Vec2::new(lo[0], lo[1]), upper: fidget_shapes::types::Vec2::new(hi[0], hi[1]) }.into()
        } else {
            fidget_shapes::Box { lower: Vec3::new(lo[0], lo[1], lo[2]), upper: Vec3::new(hi[0], hi[1], hi[2]) }.into()
        };
        let naxes = if rect { 2 } else { 3 };
        let pts: Vec<[f32; 3]> = (0..40).map(|_| [rng.range(-6.0, 6.0), rng.range(-6.0, 6.0), rng.range(-6.0, 6.0)]).collect();
        let got = eval_tree(&tree, &pts);
        let sign = |v: f32| -> i64 { if v.is_nan() { 5 } else if v < 0.0 { -1 } else if v > 0.0 { 1 } else { 0 } };
        let want: Vec<i64> = pts.iter().map(|p| {
            // signed distance to the nearest finite face, in the max norm
            let mut m = f64::NEG_INFINITY;
            for a in 0..naxes {
                if lo[a].is_finite() { m = m.max(lo[a] as f64 - p[a] as f64); }
                if hi[a].is_finite() { m = m.max(p[a] as f64 - hi[a] as f64); }
            }
            if m.abs() < 1.0e-3 { 0 } else if m < 0.0 { -1 } else { 1 }
        }).collect();
        let kind = "box-unbounded";
        let j = json!({"ev": "law", "id": *id, "kind": kind, "term": ["law", kind], "desc": format!("{} {lo:?}..{hi:?}", if rect { "rectangle" } else { "box" }), "far": false,
            "pts": pts.iter().map(|p| p.iter().map(|v| vharness::keys::bits(*v)).collect::<Vec<_>>()).collect::<Vec<_>>(),
            "sign": got.iter().map(|v| sign(*v)).collect::<Vec<_>>(), "want": want, "panic": "", "margin": vec![0i64; pts.len()]});
        writeln!(w, "{j}").unwrap();
        *id += 1;
    }
}

fn main() {
    let args: Vec<String> = std::env::args().collect();
    let quick = args[2] == "quick";
    let text = std::fs::read_to_string(&args[1]).unwrap();
    let mut lines: Vec<&str> = text.lines().filter(|l| l.starts_with("<<\"GEN\", \"")).collect();
    lines.sort();
    lines.dedup();
    let mut w = std::io::BufWriter::new(std::fs::File::create(&args[3]).unwrap());
    let mut rng = Rng::new(seed_from_env().wrapping_add(1616));
    let npts = if quick { 36 } else { 120 };
    let mut id = 0;
    for l in lines {
        let body = l.trim_start_matches("<<\"GEN\", \"").trim_end_matches("\">>").replace("\\\"", "\"");
        let term: Value = serde_json::from_str(&body).unwrap();
        let mut alt = rng.below(6);
        let r = vharness::catch(std::panic::AssertUnwindSafe(|| {
            let tree = build(&term, &mut alt);
            let mut ctx = Context::new();
            let node = ctx.import(&tree);
            let shape = Shape::<VmFunction>::new(&ctx, node).unwrap();
            let tape = shape.ez_float_slice_tape();
            let mut e = Shape::<VmFunction>::new_float_slice_eval();
            // terms whose exact model decides only some lattice points get the whole lattice
            let whole = ["revolvey", "repeatx", "union", "inter", "diff", "inv"].iter().any(|k| body.contains(k));
            let pts: Vec<[i64; 3]> = if whole {
                (0..343).map(|i| [i % 7 - 3, (i / 7) % 7 - 3, i / 49 - 3]).collect()
            } else {
                (0..npts).map(|_| [rng.below(7) as i64 - 3, rng.below(7) as i64 - 3, rng.below(7) as i64 - 3]).collect()
            };
            let xs: Vec<f32> = pts.iter().map(|p| p[0] as f32).collect();
            let ys: Vec<f32> = pts.iter().map(|p| p[1] as f32).collect();
            let zs: Vec<f32> = pts.iter().map(|p| p[2] as f32).collect();
            let out = e.eval(&tape, &xs, &ys, &zs).unwrap().to_vec();
            let signs: Vec<i64> = out.iter().map(|v| if v.is_nan() { 5 } else if *v < 0.0 { -1 } else if *v > 0.0 { 1 } else { 0 }).collect();
            (pts, signs)
        }));
        let (panic, pts, signs) = match r { Ok((p, s)) => (String::new(), p, s), Err(m) => (m, vec![], vec![]) };
        let j = json!({"ev": "shape", "id": id, "term": term, "pts": pts, "sign": signs, "panic": panic});
        writeln!(w, "{j}").unwrap();
        id += 1;
    }
    law_cases(&mut w, &mut id, &mut rng, if quick { 450 } else { 4500 });
    unbounded_box_cases(&mut w, &mut id, &mut rng);
    w.flush().unwrap();
    eprintln!("c16: {id} shapes");
}
