//! C16 recorder: builds each shape term enumerated by spec/MC_Shapes.tla with the real
//! library structs, converts to a tree, evaluates at lattice points and records the signs.
//! Usage: c16 <tlc-shapes-file> <quick|thorough> <out.ndjson>
use fidget_core::{
    context::{Context, Tree},
    shape::{EzShape, Shape},
    vm::VmFunction,
};
use fidget_shapes::{
    types::{Axis, Plane, Vec2, Vec3},
    Circle, Difference, ExtrudeZ, Intersection, Inverse, Move, Rectangle, Reflect, ReflectX, ReflectXY, ReflectY,
    ReflectZ, RepeatX, RevolveY, Rotate, RotateX, RotateY, RotateZ, Scale, ScaleUniform, Sphere, Union,
};
use serde_json::{json, Value};
use std::io::Write;
use vharness::keys::{seed_from_env, Rng};

fn f(v: &Value) -> f32 {
    v.as_f64().unwrap() as f32
}
fn v3(v: &Value) -> Vec3 {
    Vec3::new(f(&v[0]), f(&v[1]), f(&v[2]))
}
fn v2(v: &Value) -> Vec2 {
    Vec2::new(f(&v[0]), f(&v[1]))
}
fn axis(name: &str) -> Axis {
    match name { "X" => Axis::X, "Y" => Axis::Y, _ => Axis::Z }
}

/// `alt` selects between equivalent ways of writing the same shape (named vs generic forms)
fn build(t: &Value, alt: &mut usize) -> Tree {
    *alt += 1;
    let k = t[0].as_str().unwrap();
    match k {
        "sphere" => Sphere { center: v3(&t[1]), radius: f(&t[2]) }.into(),
        "circle" => Circle { center: v2(&t[1]), radius: f(&t[2]) }.into(),
        "box" => fidget_shapes::Box { lower: v3(&t[1]), upper: v3(&t[2]) }.into(),
        "rect" => Rectangle { lower: v2(&t[1]), upper: v2(&t[2]) }.into(),
        "plane" => {
            let o = f(&t[2]);
            let p = match t[1].as_str().unwrap() {
                "XY" => Plane { offset: o, ..Plane::XY },
                "YZ" => Plane { offset: o, ..Plane::YZ },
                "ZX" => Plane { offset: o, ..Plane::ZX },
                a => Plane { axis: axis(a), offset: o },
            };
            p.into()
        }
        "move" => Move { shape: build(&t[1], alt), offset: v3(&t[2]) }.into(),
        "scale" => Scale { shape: build(&t[1], alt), scale: v3(&t[2]) }.into(),
        "scaleu" => ScaleUniform { shape: build(&t[1], alt), scale: f(&t[2]) }.into(),
        "reflect" => {
            let shape = build(&t[1], alt);
            let (a, o) = (t[2].as_str().unwrap(), f(&t[3]));
            if *alt % 2 == 0 {
                Reflect { shape, plane: Plane { axis: axis(a), offset: o } }.into()
            } else {
                match a { "X" => ReflectX { shape, offset: o }.into(), "Y" => ReflectY { shape, offset: o }.into(), _ => ReflectZ { shape, offset: o }.into() }
            }
        }
        "reflectxy" => ReflectXY { shape: build(&t[1], alt), offset: 0.0 }.into(),
        "rot" => {
            let shape = build(&t[1], alt);
            let (a, q, c) = (t[2].as_str().unwrap(), t[3].as_i64().unwrap(), v3(&t[4]));
            // the same rotation written with different angles: 90 q, 90 q - 360, 90 q + 360
            let angle = 90.0 * q as f32 + [0.0, -360.0, 360.0][*alt % 3];
            if *alt % 2 == 0 {
                Rotate { shape, axis: axis(a), angle, center: c }.into()
            } else {
                match a { "X" => RotateX { shape, angle, center: c }.into(), "Y" => RotateY { shape, angle, center: c }.into(), _ => RotateZ { shape, angle, center: c }.into() }
            }
        }
        "repeatx" => RepeatX { shape: build(&t[1], alt), radius: f(&t[2]), offset: f(&t[3]) }.into(),
        "revolvey" => RevolveY { shape: build(&t[1], alt), offset: 0.0 }.into(),
        "extrudez" => ExtrudeZ { shape: build(&t[1], alt), lower: f(&t[2]), upper: f(&t[3]) }.into(),
        "union" => Union { input: t[1].as_array().unwrap().iter().map(|s| build(s, alt)).collect() }.into(),
        "inter" => Intersection { input: t[1].as_array().unwrap().iter().map(|s| build(s, alt)).collect() }.into(),
        "diff" => Difference { shape: build(&t[1], alt), cutout: build(&t[2], alt) }.into(),
        "inv" => Inverse { shape: build(&t[1], alt) }.into(),
        other => panic!("unknown shape {other}"),
    }
}

fn main() {
    let args: Vec<String> = std::env::args().collect();
    let quick = args[2] == "quick";
    let text = std::fs::read_to_string(&args[1]).unwrap();
    let mut lines: Vec<&str> = text.lines().filter(|l| l.starts_with("<<\"GEN\", \"")).collect();
    lines.sort();
    lines.dedup();
    let mut w = std::io::BufWriter::new(std::fs::File::create(&args[3]).unwrap());
    let mut rng = Rng::new(seed_from_env().wrapping_add(1616));
    let npts = if quick { 36 } else { 120 };
    let mut id = 0;
    for l in lines {
        let body = l.trim_start_matches("<<\"GEN\", \"").trim_end_matches("\">>").replace("\\\"", "\"");
        let term: Value = serde_json::from_str(&body).unwrap();
        let mut alt = rng.below(6);
        let r = vharness::catch(std::panic::AssertUnwindSafe(|| {
            let tree = build(&term, &mut alt);
            let mut ctx = Context::new();
            let node = ctx.import(&tree);
            let shape = Shape::<VmFunction>::new(&ctx, node).unwrap();
            let tape = shape.ez_float_slice_tape();
            let mut e = Shape::<VmFunction>::new_float_slice_eval();
            // terms whose exact model decides only some lattice points get the whole lattice
            let whole = ["revolvey", "repeatx", "union", "inter", "diff", "inv"].iter().any(|k| body.contains(k));
            let pts: Vec<[i64; 3]> = if whole {
                (0..343).map(|i| [i % 7 - 3, (i / 7) % 7 - 3, i / 49 - 3]).collect()
            } else {
                (0..npts).map(|_| [rng.below(7) as i64 - 3, rng.below(7) as i64 - 3, rng.below(7) as i64 - 3]).collect()
            };
            let xs: Vec<f32> = pts.iter().map(|p| p[0] as f32).collect();
            let ys: Vec<f32> = pts.iter().map(|p| p[1] as f32).collect();
            let zs: Vec<f32> = pts.iter().map(|p| p[2] as f32).collect();
            let out = e.eval(&tape, &xs, &ys, &zs).unwrap().to_vec();
            let signs: Vec<i64> = out.iter().map(|v| if v.is_nan() { 5 } else if *v < 0.0 { -1 } else if *v > 0.0 { 1 } else { 0 }).collect();
            (pts, signs)
        }));
        let (panic, pts, signs) = match r { Ok((p, s)) => (String::new(), p, s), Err(m) => (m, vec![], vec![]) };
        let j = json!({"ev": "shape", "id": id, "term": term, "pts": pts, "sign": signs, "panic": panic});
        writeln!(w, "{j}").unwrap();
        id += 1;
    }
    w.flush().unwrap();
    eprintln!("c16: {id} shapes");
}
