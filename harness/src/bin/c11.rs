//! C11 recorder: totality.  Finite inputs (up to f32::MAX) on every evaluator
//! entry point, candidate crash paths of the interval model concretised, and
//! malformed argument lists.  Usage: c11 <vm|jit> <tlc-programs-file|-> <quick|thorough> <out.ndjson>
use fidget_core::{
    context::Context,
    eval::{BulkEvaluator, Function, MathFunction, TracingEvaluator},
    shape::{EzShape, Shape, ShapeVars},
    types::{Grad, Interval},
    var::Var,
    vm::{GenericVmFunction, VmFunction, VmTrace},
};
use fidget_jit::JitFunction;
use serde_json::json;
use std::io::Write;
use std::panic::AssertUnwindSafe;
use vharness::{
    evalx::*,
    keys::{bits, seed_from_env, Rng},
    pgen::{self, Inst, Mode},
    tapes::{ops_json, GOp, Prog},
};

struct Cx<'a> {
    w: &'a mut dyn Write,
    id: usize,
}

const EXTREMES: [f32; 14] = [f32::MAX, f32::MIN, 1.0e30, -1.0e30, 1.0e20, 1.0e-30, -1.0e-30, 1.0e-40, 0.0, -0.0, 1.0, -1.0, 3.0e38, f32::MIN_POSITIVE];

fn finite(rng: &mut Rng) -> f32 {
    match rng.below(3) {
        0 => *rng.pick(&EXTREMES),
        1 => rng.range(-4.0, 4.0),
        _ => rng.range(-1.0, 1.0) * *rng.pick(&[1.0e10f32, 1.0e25, 1.0e37, 1.0e-20, 1.0]),
    }
}
fn finite_box(rng: &mut Rng) -> Interval {
    let (a, b) = (finite(rng), finite(rng));
    match rng.below(4) {
        0 => Interval::new(a, a),
        1 => Interval::new(a.min(0.0), a.max(0.0)),
        _ => Interval::new(a.min(b), a.max(b)),
    }
}

fn run_all<F: Function<Trace = VmTrace>>(cx: &mut Cx, backend: &str, f: &F, p: &Prog, rng: &mut Rng, tag: &str) {
    let nv = p.nvars;
    let base = json!({"backend": backend, "tag": tag, "nout": p.nout()});
    let mut emit = |kind: &str, panic: bool, err: String, out: serde_json::Value, input: serde_json::Value| {
        let mut j = base.clone();
        j["ev"] = json!("eval");
        j["id"] = json!(cx.id);
        j["kind"] = json!(kind);
        j["panic"] = json!(panic);
        j["err"] = json!(err);
        j["out"] = out;
        j["in"] = input;
        j["ssa"] = if panic { ops_json(&p.ssa) } else { json!([]) };
        writeln!(cx.w, "{j}").unwrap();
        cx.id += 1;
    };
    for _ in 0..2 {
        let pt: Vec<f32> = (0..nv).map(|_| finite(rng)).collect();
        let t = point_trace(f, &pt);
        emit("point", t.panic, t.err, json!(t.out.iter().map(|v| [bits(*v), bits(*v)]).collect::<Vec<_>>()), json!(pt.iter().map(|v| bits(*v)).collect::<Vec<_>>()));
        let bx: Vec<Interval> = (0..nv).map(|_| finite_box(rng)).collect();
        let t = interval_trace(f, &bx);
        emit("interval", t.panic, t.err, json!(t.out.iter().map(ibits).collect::<Vec<_>>()), json!(bx.iter().map(ibits).collect::<Vec<_>>()));
        let n = [0usize, 1, 7, 9][rng.below(4)];
        let cols: Vec<Vec<f32>> = (0..nv).map(|_| (0..n).map(|_| finite(rng)).collect()).collect();
        match float_slice(f, &cols) {
            Ok(o) => emit("float", false, String::new(), json!(o.iter().map(|c| [c.len() as i64, n as i64]).collect::<Vec<_>>()), json!(n)),
            Err(e) => emit("float", e.starts_with("panic"), e, json!([]), json!(n)),
        }
        let gcols: Vec<Vec<Grad>> = cols.iter().map(|c| c.iter().map(|v| Grad::new(*v, finite(rng).clamp(-1.0e10, 1.0e10), 1.0, 0.0)).collect()).collect();
        match grad_slice(f, &gcols) {
            Ok(o) => emit("grad", false, String::new(), json!(o.iter().map(|c| [c.len() as i64, n as i64]).collect::<Vec<_>>()), json!(n)),
            Err(e) => emit("grad", e.starts_with("panic"), e, json!([]), json!(n)),
        }
    }
}

/// Malformed and well-formed-with-extras argument lists
fn arg_cases<F: Function<Trace = VmTrace> + MathFunction + Clone>(cx: &mut Cx, backend: &str, f: &F, p: &Prog) {
    let nv = p.nvars;
    let mut emit = |case: &str, expect: &str, outcome: Result<Result<(), String>, String>| {
        let (o, msg) = match outcome {
            Ok(Ok(())) => ("ok", String::new()),
            Ok(Err(e)) => ("err", e),
            Err(m) => ("panic", m),
        };
        let j = json!({"ev": "args", "id": cx.id, "backend": backend, "case": case, "expect": expect, "outcome": o, "msg": msg, "nvars": nv});
        writeln!(cx.w, "{j}").unwrap();
        cx.id += 1;
    };
    let ptape = f.point_tape(Default::default());
    let itape = f.interval_tape(Default::default());
    let ftape = f.float_slice_tape(Default::default());
    let gtape = f.grad_slice_tape(Default::default());
    let mut pe = F::new_point_eval();
    let mut ie = F::new_interval_eval();
    if nv > 0 {
        let few = vec![1.0f32; nv - 1];
        emit("point-too-few", "err", vharness::catch(AssertUnwindSafe(|| pe.eval(&ptape, &few).map(|_| ()).map_err(|e| format!("{e}")))));
        let fewi = vec![Interval::new(0.0, 1.0); nv - 1];
        emit("interval-too-few", "err", vharness::catch(AssertUnwindSafe(|| ie.eval(&itape, &fewi).map(|_| ()).map_err(|e| format!("{e}")))));
    }
    let extra = vec![1.0f32; nv + 2];
    emit("point-extra", "ok", vharness::catch(AssertUnwindSafe(|| pe.eval(&ptape, &extra).map(|_| ()).map_err(|e| format!("{e}")))));
    for n in [2usize, 9] {
        let mut fe = F::new_float_slice_eval();
        let mut ge = F::new_grad_slice_eval();
        if nv > 0 {
            let few: Vec<Vec<f32>> = vec![vec![1.0; n]; nv - 1];
            emit("float-too-few", "err", vharness::catch(AssertUnwindSafe(|| fe.eval(&ftape, &few).map(|_| ()).map_err(|e| format!("{e}")))));
        }
        if nv > 1 {
            let mut mism: Vec<Vec<f32>> = vec![vec![1.0; n]; nv];
            mism[nv - 1].push(2.0);
            emit("float-mismatched", "err", vharness::catch(AssertUnwindSafe(|| fe.eval(&ftape, &mism).map(|_| ()).map_err(|e| format!("{e}")))));
            let mut gm: Vec<Vec<Grad>> = vec![vec![Grad::from(1.0); n]; nv];
            gm[0].pop();
            emit("grad-mismatched", "err", vharness::catch(AssertUnwindSafe(|| ge.eval(&gtape, &gm).map(|_| ()).map_err(|e| format!("{e}")))));
        }
        // an extra slice is allowed, but its length must still match
        let mut ext: Vec<Vec<f32>> = vec![vec![1.0; n]; nv + 1];
        emit("float-extra", "ok", vharness::catch(AssertUnwindSafe(|| fe.eval(&ftape, &ext).map(|_| ()).map_err(|e| format!("{e}")))));
        ext[nv].push(3.0);
        emit("float-extra-mismatched", "err", vharness::catch(AssertUnwindSafe(|| fe.eval(&ftape, &ext).map(|_| ()).map_err(|e| format!("{e}")))));
        let mut gext: Vec<Vec<Grad>> = vec![vec![Grad::from(1.0); n]; nv + 1];
        gext[nv].push(Grad::from(3.0));
        emit("grad-extra-mismatched", "err", vharness::catch(AssertUnwindSafe(|| ge.eval(&gtape, &gext).map(|_| ()).map_err(|e| format!("{e}")))));
    }
}

/// Shape-level argument errors: missing bound variables, mismatched coordinate arrays
fn shape_arg_cases<F: MathFunction + Function<Trace = VmTrace> + Clone>(cx: &mut Cx, backend: &str) {
    let mut ctx = Context::new();
    let (x, y) = (ctx.x(), ctx.y());
    let v = Var::new();
    let vn = ctx.var(v);
    let s = ctx.add(x, y).unwrap();
    let root = ctx.mul(s, vn).unwrap();
    let shape = Shape::<F>::new(&ctx, root).unwrap();
    let mut emit = |case: &str, expect: &str, outcome: Result<Result<(), String>, String>| {
        let (o, msg) = match outcome {
            Ok(Ok(())) => ("ok", String::new()),
            Ok(Err(e)) => ("err", e),
            Err(m) => ("panic", m),
        };
        let j = json!({"ev": "args", "id": cx.id, "backend": backend, "case": case, "expect": expect, "outcome": o, "msg": msg, "nvars": 3});
        writeln!(cx.w, "{j}").unwrap();
        cx.id += 1;
    };
    let none = ShapeVars::<f32>::new();
    let mut with = ShapeVars::<f32>::new();
    with.insert(v.index().unwrap(), 2.0);
    let mut other = ShapeVars::<f32>::new();
    other.insert(Var::new().index().unwrap(), 2.0);
    let pt = shape.ez_point_tape();
    let it = shape.ez_interval_tape();
    let ft = shape.ez_float_slice_tape();
    let gt = shape.ez_grad_slice_tape();
    let mut pe = Shape::<F>::new_point_eval();
    let mut ie = Shape::<F>::new_interval_eval();
    let mut fe = Shape::<F>::new_float_slice_eval();
    let mut ge = Shape::<F>::new_grad_slice_eval();
    emit("shape-point-missing", "err", vharness::catch(AssertUnwindSafe(|| pe.eval_with_vars(&pt, 1.0, 2.0, 3.0, &none).map(|_| ()).map_err(|e| format!("{e}")))));
    emit("shape-point-other", "err", vharness::catch(AssertUnwindSafe(|| pe.eval_with_vars(&pt, 1.0, 2.0, 3.0, &other).map(|_| ()).map_err(|e| format!("{e}")))));
    emit("shape-point-bound", "ok", vharness::catch(AssertUnwindSafe(|| pe.eval_with_vars(&pt, 1.0, 2.0, 3.0, &with).map(|_| ()).map_err(|e| format!("{e}")))));
    emit("shape-interval-missing", "err", vharness::catch(AssertUnwindSafe(|| ie.eval_with_vars(&it, Interval::new(0.0, 1.0), Interval::new(0.0, 1.0), Interval::new(0.0, 1.0), &none).map(|_| ()).map_err(|e| format!("{e}")))));
    let a3 = [1.0f32, 2.0, 3.0];
    let a2 = [1.0f32, 2.0];
    emit("shape-float-missing", "err", vharness::catch(AssertUnwindSafe(|| fe.eval(&ft, &a3, &a3, &a3).map(|_| ()).map_err(|e| format!("{e}")))));
    emit("shape-float-bound", "ok", vharness::catch(AssertUnwindSafe(|| fe.eval_with_vars(&ft, &a3, &a3, &a3, &with).map(|_| ()).map_err(|e| format!("{e}")))));
    emit("shape-float-xy-mismatch", "err", vharness::catch(AssertUnwindSafe(|| fe.eval_with_vars(&ft, &a3, &a2, &a3, &with).map(|_| ()).map_err(|e| format!("{e}")))));
    emit("shape-float-xz-mismatch", "err", vharness::catch(AssertUnwindSafe(|| fe.eval_with_vars(&ft, &a3, &a3, &a2, &with).map(|_| ()).map_err(|e| format!("{e}")))));
    let mut arr = ShapeVars::<Vec<f32>>::new();
    arr.insert(v.index().unwrap(), vec![1.0, 2.0]);
    emit("shape-float-vararray-mismatch", "err", vharness::catch(AssertUnwindSafe(|| fe.eval_with_var_arrays(&ft, &a3, &a3, &a3, &arr).map(|_| ()).map_err(|e| format!("{e}")))));
    let g3 = [Grad::from(1.0); 3];
    emit("shape-grad-missing", "err", vharness::catch(AssertUnwindSafe(|| ge.eval(&gt, &g3, &g3, &g3).map(|_| ()).map_err(|e| format!("{e}")))));
    emit("shape-grad-bound", "ok", vharness::catch(AssertUnwindSafe(|| ge.eval_with_vars(&gt, &g3, &g3, &g3, &with).map(|_| ()).map_err(|e| format!("{e}")))));
    // the same bulk evaluators, now on a shape with fewer variables and another sample count (well-formed calls)
    let small = Shape::<F>::new(&ctx, y).unwrap();
    let ft2 = small.ez_float_slice_tape();
    let gt2 = small.ez_grad_slice_tape();
    let a5 = [0.5f32; 5];
    let g2 = [Grad::from(1.0); 2];
    emit("shape-float-reuse-fewer-vars", "ok", vharness::catch(AssertUnwindSafe(|| fe.eval(&ft2, &a5, &a5, &a5).map(|_| ()).map_err(|e| format!("{e}")))));
    emit("shape-grad-reuse-fewer-vars", "ok", vharness::catch(AssertUnwindSafe(|| ge.eval(&gt2, &g2, &g2, &g2).map(|_| ()).map_err(|e| format!("{e}")))));
    emit("shape-float-reuse-more-vars", "ok", vharness::catch(AssertUnwindSafe(|| fe.eval_with_vars(&ft, &a2, &a2, &a2, &with).map(|_| ()).map_err(|e| format!("{e}")))));
}

/// compositions over the alphabet of spec/Interval.tla on huge boxes (candidate crash paths)
fn overflow_program(rng: &mut Rng) -> Prog {
    let mut ssa: Vec<GOp> = vec![GOp::new(1, "Input", 0, 0, -1, 0), GOp::new(1, "Input", 1, 1, -1, 0)];
    let mut next = 2;
    let depth = 2 + rng.below(4);
    let mut slots = vec![0i64, 1];
    for _ in 0..depth {
        let a = *rng.pick(&slots);
        let b = *rng.pick(&slots);
        let g = match rng.below(12) {
            0 => GOp::new(3, "Square", next, a, -1, 0),
            1 => GOp::new(3, "Neg", next, a, -1, 0),
            2 => GOp::new(3, "Abs", next, a, -1, 0),
            3 => GOp::new(3, "Recip", next, a, -1, 0),
            4 => GOp::new(6, "Mul", next, a, b, 0),
            5 => GOp::new(6, "Add", next, a, b, 0),
            6 => GOp::new(6, "Sub", next, a, b, 0),
            7 => GOp::new(6, "Div", next, a, b, 0),
            8 => GOp::new(4, "Mul", next, a, -1, bits(*rng.pick(&[f32::INFINITY, f32::NEG_INFINITY, -2.0, 0.0, 1.0e38]))),
            9 => GOp::new(4, "Add", next, a, -1, bits(*rng.pick(&[f32::INFINITY, f32::NEG_INFINITY, f32::MAX, -f32::MAX]))),
            10 => GOp::new(5, "Sub", next, a, -1, bits(*rng.pick(&[f32::INFINITY, f32::NEG_INFINITY, f32::MAX]))),
            _ => GOp::new(6, ["Min", "Max", "And", "Or", "Compare", "Mod"][rng.below(6)], next, a, b, 0),
        };
        ssa.push(g);
        slots.push(next);
        next += 1;
    }
    ssa.push(GOp::new(0, "Output", -1, next - 1, 0, 0));
    ssa.reverse();
    // dead code is not allowed by the allocator: keep only what the output needs
    let mut need = std::collections::HashSet::new();
    let mut kept = vec![];
    for g in &ssa {
        if g.class == 0 {
            need.insert(g.a);
            kept.push(g.clone());
        } else if need.contains(&g.out) {
            if g.class >= 3 { need.insert(g.a); }
            if g.class == 6 { need.insert(g.b); }
            kept.push(g.clone());
        }
    }
    let mut map = std::collections::HashMap::new();
    let ren = |x: i64, map: &mut std::collections::HashMap<i64, i64>| { let n = map.len() as i64; *map.entry(x).or_insert(n) };
    for g in kept.iter_mut() {
        if g.class == 0 { g.a = ren(g.a, &mut map); continue; }
        g.out = ren(g.out, &mut map);
        if g.class >= 3 { g.a = ren(g.a, &mut map); }
        if g.class == 6 { g.b = ren(g.b, &mut map); }
    }
    Prog { ssa: kept, nvars: 2 }
}

/// every unary operator on intervals that are a few ulps wide, at magnitudes from 0.5 to 1e9 and both signs
/// (the quadrant / monotonicity case analysis of the trigonometric operators works on rounded angles)
fn narrow_cases<F: Function<Trace = VmTrace>>(cx: &mut Cx, backend: &str, make: &dyn Fn(&Prog) -> Option<F>, quick: bool) {
    use vharness::tapes::{GOp, UNARY};
    let next_up = |x: f32| if x >= 0.0 { f32::from_bits(x.to_bits() + 1) } else { f32::from_bits(x.to_bits() - 1) };
    for u in UNARY {
        let p = Prog { ssa: vec![GOp::new(0, "Output", -1, 1, 0, 0), GOp::new(3, u, 1, 0, -1, 0), GOp::new(1, "Input", 0, 0, -1, 0)], nvars: 1 };
        let Some(f) = make(&p) else { continue };
        let base = json!({"backend": backend, "tag": "narrow", "nout": 1});
        let mut x = 0.5f32;
        let step = if quick { 1.004f32 } else { 1.0003 };
        while x < 1.0e9 {
            for k in [1usize, 2, 5] {
                let mut hi = x;
                for _ in 0..k {
                    hi = next_up(hi);
                }
                for (l, h) in [(x, hi), (-hi, -x)] {
                    let bx = vec![Interval::new(l, h)];
                    let t = interval_trace(&f, &bx);
                    if t.panic || cx.id % 97 == 0 {
                        let mut j = base.clone();
                        j["ev"] = json!("eval");
                        j["id"] = json!(cx.id);
                        j["kind"] = json!("interval");
                        j["panic"] = json!(t.panic);
                        j["err"] = json!(t.err);
                        j["out"] = json!(t.out.iter().map(ibits).collect::<Vec<_>>());
                        j["in"] = json!(bx.iter().map(ibits).collect::<Vec<_>>());
                        j["ssa"] = if t.panic { ops_json(&p.ssa) } else { json!([]) };
                        writeln!(cx.w, "{j}").unwrap();
                    }
                    cx.id += 1;
                }
            }
            x *= step;
        }
    }
}

/// an infinite immediate added to / subtracted from / multiplied with an intermediate that overflows to an
/// infinity of either sign, followed by every unary operator (out-of-line calls in the JIT construct intervals)
fn inf_imm_cases<F: Function<Trace = VmTrace>>(cx: &mut Cx, backend: &str, make: &dyn Fn(&Prog) -> Option<F>) {
    use vharness::tapes::{GOp, UNARY};
    let base = json!({"backend": backend, "tag": "inf-imm", "nout": 1});
    for tail in UNARY {
        for (class, name) in [(4u8, "Add"), (4, "Sub"), (5, "Sub"), (4, "Mul"), (4, "Div"), (5, "Div"), (4, "Min"), (4, "Max")] {
            for imm in [f32::INFINITY, f32::NEG_INFINITY] {
                for negate in [false, true] {
                    // slots: 0 = x, 1 = x*x, 2 = +-(x*x), 3 = op(2, imm), 4 = tail(3)
                    let mut ssa = vec![GOp::new(0, "Output", -1, 4, 0, 0), GOp::new(3, tail, 4, 3, -1, 0), GOp::new(class, name, 3, 2, -1, bits(imm))];
                    ssa.push(if negate { GOp::new(3, "Neg", 2, 1, -1, 0) } else { GOp::new(3, "Abs", 2, 1, -1, 0) });
                    ssa.push(GOp::new(3, "Square", 1, 0, -1, 0));
                    ssa.push(GOp::new(1, "Input", 0, 0, -1, 0));
                    let p = Prog { ssa, nvars: 1 };
                    let Some(f) = make(&p) else { continue };
                    for bx in [Interval::new(1.0e19, 1.0e20), Interval::new(-1.0, 1.0e20), Interval::new(2.0, 3.0)] {
                        let t = interval_trace(&f, &[bx]);
                        if t.panic || cx.id % 13 == 0 {
                            let mut j = base.clone();
                            j["ev"] = json!("eval");
                            j["id"] = json!(cx.id);
                            j["kind"] = json!("interval");
                            j["panic"] = json!(t.panic);
                            j["err"] = json!(t.err);
                            j["out"] = json!(t.out.iter().map(ibits).collect::<Vec<_>>());
                            j["in"] = json!([ibits(&bx)]);
                            j["ssa"] = if t.panic { ops_json(&p.ssa) } else { json!([]) };
                            writeln!(cx.w, "{j}").unwrap();
                        }
                        cx.id += 1;
                    }
                }
            }
        }
    }
}

/// binary operators with a small or a huge constant on boxes at the far end of the float range: the quotients, products
/// and sums overflow to infinity for *both* bounds of a finite box (`mod(x, 0.3)` on [3.0e38, 3.2e38]), on one bound
/// only, or not at all
fn far_field_cases<F: Function<Trace = VmTrace>>(cx: &mut Cx, backend: &str, make: &dyn Fn(&Prog) -> Option<F>) {
    use vharness::tapes::{GOp, BINARY, IMMREG, UNARY};
    let base = json!({"backend": backend, "tag": "far-field", "nout": 1});
    let consts = [0.3f32, 1.0e-3, 0.5, 7.0, 1.0e-30, 1.0e30, 3.0e38, -0.3, -1.0e-20, 2.0];
    let boxes = [(3.0e38f32, 3.2e38f32), (1.0e38, 3.4e38), (-3.2e38, -3.0e38), (-3.4e38, 3.4e38), (1.0e37, 1.0e38), (3.4028235e38, 3.4028235e38), (-1.0, 3.0e38), (1.0e-38, 1.0e-37), (-1.0e-45, 1.0e-45)];
    for n in BINARY.iter() {
        for c in consts {
            for form in [4u8, 5] {
                if form == 5 && !IMMREG.contains(n) { continue; }
                for tail in ["Neg", UNARY[(cx.id / 7) % UNARY.len()]] {
                    let p = Prog { ssa: vec![GOp::new(0, "Output", -1, 2, 0, 0), GOp::new(3, tail, 2, 1, -1, 0), GOp::new(form, n, 1, 0, -1, bits(c)), GOp::new(1, "Input", 0, 0, -1, 0)], nvars: 1 };
                    let Some(f) = make(&p) else { continue };
                    for (l, h) in boxes {
                        let bx = vec![Interval::new(l, h)];
                        let t = interval_trace(&f, &bx);
                        if t.panic || cx.id % 11 == 0 {
                            let mut j = base.clone();
                            j["ev"] = json!("eval");
                            j["id"] = json!(cx.id);
                            j["kind"] = json!("interval");
                            j["panic"] = json!(t.panic);
                            j["err"] = json!(t.err);
                            j["out"] = json!(t.out.iter().map(ibits).collect::<Vec<_>>());
                            j["in"] = json!(bx.iter().map(ibits).collect::<Vec<_>>());
                            j["ssa"] = if t.panic { ops_json(&p.ssa) } else { json!([]) };
                            writeln!(cx.w, "{j}").unwrap();
                        }
                        cx.id += 1;
                    }
                }
            }
        }
    }
}

fn main() {
    let args: Vec<String> = std::env::args().collect();
    let which = args[1].clone();
    let quick = args[3] == "quick";
    let mut file = std::io::BufWriter::new(std::fs::File::create(&args[4]).unwrap());
    let seed = seed_from_env();
    let mut cx = Cx { w: &mut file, id: 0 };
    let mut rng = Rng::new(seed.wrapping_add(1111));
    let mut progs: Vec<(Prog, &str)> = vec![];
    if args[2] != "-" {
        let aps = pgen::read_tlc_programs(&args[2]);
        for (pi, ap) in aps.iter().enumerate().step_by(if quick { 6 } else { 1 }) {
            let mut inst = Inst::new(seed.wrapping_mul(71).wrapping_add(pi as u64), if pi % 3 == 0 { Mode::Choice } else { Mode::All }, 3);
            progs.push((inst.instantiate(ap), "tlc"));
        }
    }
    for k in 0..(if quick { 300 } else { 4000 }) {
        let mut inst = Inst::new(rng.next(), Mode::All, 1 + k % 4);
        let ap = inst.random_abstract([5, 12, 30, 60][k % 4], [3, 6, 12][k % 3], 3);
        progs.push((inst.instantiate(&ap), "long"));
    }
    for _ in 0..(if quick { 2500 } else { 40000 }) {
        progs.push((overflow_program(&mut rng), "overflow"));
    }
    progs.extend(pgen::directed_programs().into_iter().map(|(p, _, tag)| (p, tag)));
    for (k, (p, tag)) in progs.iter().enumerate() {
        if which == "vm" {
            if k % 2 == 0 {
                if let Ok(f) = vm_fn::<255>(p) { run_all(&mut cx, "vm", &f, p, &mut rng, tag); if k % 40 == 0 { arg_cases::<VmFunction>(&mut cx, "vm", &f, p); } }
            } else if let Ok(f) = vm_fn::<3>(p) { run_all::<GenericVmFunction<3>>(&mut cx, "vm3", &f, p, &mut rng, tag); }
        } else if let Ok(f) = jit_fn(p) {
            run_all(&mut cx, "jit", &f, p, &mut rng, tag);
            if k % 40 == 0 { arg_cases::<JitFunction>(&mut cx, "jit", &f, p); }
        }
    }
    if which == "vm" { shape_arg_cases::<VmFunction>(&mut cx, "vm"); } else { shape_arg_cases::<JitFunction>(&mut cx, "jit"); }
    // last, because a panic inside an out-of-line call of the JIT aborts the process
    {
        use std::io::Write as _;
        cx.w.flush().unwrap();
    }
    if which == "vm" {
        inf_imm_cases::<VmFunction>(&mut cx, "vm", &|p| vm_fn::<255>(p).ok());
    } else {
        inf_imm_cases::<JitFunction>(&mut cx, "jit", &|p| jit_fn(p).ok());
    }
    if which == "vm" {
        narrow_cases::<VmFunction>(&mut cx, "vm", &|p| vm_fn::<255>(p).ok(), quick);
        far_field_cases::<VmFunction>(&mut cx, "vm", &|p| vm_fn::<255>(p).ok());
    } else {
        narrow_cases::<JitFunction>(&mut cx, "jit", &|p| jit_fn(p).ok(), quick);
        far_field_cases::<JitFunction>(&mut cx, "jit", &|p| jit_fn(p).ok());
    }
    let n = cx.id;
    file.flush().unwrap();
    vharness::evalx::exit_on_build_failures("c11");
    eprintln!("c11 {which}: {n} records over {} programs", progs.len());
    let _ = (BulkEvaluator::new as fn() -> <VmFunction as Function>::FloatSliceEval, TracingEvaluator::new as fn() -> <VmFunction as Function>::PointEval);
}
