//! C10 (RenderHandle): replays the walk histories emitted by spec/Handle.tla on a real RenderHandle whose storage
//! vectors, workspace and evaluators persist through the history, and evaluates the handle each walk ends on.
//! The reference is the root shape evaluated by a fresh evaluator at the same points (all inside every region).
//! Usage: handle <hist.out> <quick|thorough> <out.ndjson>
use fidget_core::{
    context::{Context, Node},
    eval::{Function, MathFunction},
    render::RenderHandle,
    shape::{EzShape, Shape, ShapeVars},
    types::Interval,
    vm::VmFunction,
};
use fidget_jit::JitFunction;
use serde_json::json;
use std::io::Write;
use vharness::keys::{bits, seed_from_env, Rng};

/// three clauses that regions decide independently: X by a positive x-range, Y by a positive y-range, Z never
fn shape(k: usize) -> (Context, Node) {
    let mut ctx = Context::new();
    let (x, y, z) = (ctx.x(), ctx.y(), ctx.z());
    let c = |ctx: &mut Context, v: f32| ctx.constant(v);
    let k1 = c(&mut ctx, 0.1);
    let a = ctx.sub(k1, x).unwrap();
    let mx = ctx.min(x, a).unwrap(); // decided when x > 0.1 everywhere
    let ny = ctx.neg(y).unwrap();
    let my = ctx.max(y, ny).unwrap(); // decided when y > 0 everywhere
    let k2 = c(&mut ctx, 0.2);
    let zz = ctx.add(z, k2).unwrap();
    let nz = ctx.neg(z).unwrap();
    let mz = ctx.min(zz, nz).unwrap(); // never decided on the regions used
    let x2 = ctx.square(x).unwrap();
    let y2 = ctx.square(y).unwrap();
    let s = ctx.add(x2, y2).unwrap();
    let one = c(&mut ctx, 1.0);
    let s1 = ctx.add(s, one).unwrap();
    let r = ctx.sqrt(s1).unwrap();
    let k3 = c(&mut ctx, 0.3);
    let k5 = c(&mut ctx, 0.5);
    let p = ctx.add(mx, k3).unwrap();
    let q = ctx.add(my, k5).unwrap();
    let pq = ctx.mul(p, q).unwrap();
    let t = ctx.add(pq, mz).unwrap();
    let root = match k % 4 {
        3 => {
            // three clauses of one form (each decided the same way by its own region): after a first simplification the
            // traces of different regions on different children can be equal, clause for clause, and mean different things
            let k1y = c(&mut ctx, 0.1);
            let ay = ctx.sub(k1y, y).unwrap();
            let my2 = ctx.min(y, ay).unwrap();
            let q2 = ctx.add(my2, k5).unwrap();
            let pq2 = ctx.mul(p, q2).unwrap();
            let t2 = ctx.add(pq2, mz).unwrap();
            ctx.add(t2, r).unwrap()
        }
        0 => ctx.add(t, r).unwrap(),
        1 => {
            let u = ctx.sin(t).unwrap();
            let w = ctx.max(u, mx).unwrap(); // a second clause that depends on the first
            ctx.sub(w, r).unwrap()
        }
        _ => {
            let u = ctx.min(t, my).unwrap();
            ctx.mul(u, r).unwrap()
        }
    };
    (ctx, root)
}

/// regions: 1 decides X, 2 decides Y, 3 decides nothing, 4 decides Z
fn region(b: i64) -> [Interval; 3] {
    let full = Interval::new(-1.0, 1.0);
    let pos = Interval::new(0.2, 0.9);
    match b {
        1 => [pos, full, full],
        2 => [full, pos, full],
        4 => [full, full, pos],
        _ => [full, full, full],
    }
}

/// `external`: the traces handed to `RenderHandle::simplify` come from the client's own copies of the shapes (a chain of
/// plain simplifications kept next to the handle), so that no level of the handle but the last one ever builds a tape
fn replay<F: Function + MathFunction + Clone>(w: &mut dyn Write, id: &mut usize, backend: &str, walks: &[Vec<i64>], k: usize, rng: &mut Rng, external: bool) {
    let (ctx, root) = shape(k);
    let s = Shape::<F>::new(&ctx, root).unwrap();
    let vars = ShapeVars::<f32>::new();
    let n = 6;
    // sample points of a walk lie inside every region of that walk (and, wherever possible, outside the others,
    // so that a child cached for another region gives itself away)
    let sample = |walk: &[i64], rng: &mut Rng| -> (Vec<f32>, Vec<f32>, Vec<f32>) {
        let (mut x0, mut y0, mut z0) = (-1.0f32, -1.0f32, -1.0f32);
        let (mut x1, mut y1, mut z1) = (1.0f32, 1.0f32, 1.0f32);
        for b in walk {
            if *b == 1 { x0 = 0.2; x1 = 0.9; }
            if *b == 2 { y0 = 0.2; y1 = 0.9; }
            if *b == 4 { z0 = 0.2; z1 = 0.9; }
        }
        let pick = |lo: f32, hi: f32, rng: &mut Rng| if lo < 0.0 && rng.below(3) > 0 { rng.range(-1.0, 0.0) } else { rng.range(lo, hi) };
        ((0..n).map(|_| pick(x0, x1, rng)).collect(), (0..n).map(|_| pick(y0, y1, rng)).collect(), (0..n).map(|_| pick(z0, z1, rng)).collect())
    };
    let fresh_at = |xs: &[f32], ys: &[f32], zs: &[f32]| -> Vec<i64> {
        let mut e = Shape::<F>::new_float_slice_eval();
        let tape = s.ez_float_slice_tape();
        e.eval(&tape, xs, ys, zs).unwrap().iter().map(|v| bits(*v)).collect()
    };
    let mut shape_storage: Vec<F::Storage> = vec![];
    let mut tape_storage: Vec<F::TapeStorage> = vec![];
    let mut workspace = F::Workspace::default();
    let mut ext_workspace = F::Workspace::default();
    let mut ie = Shape::<F>::new_interval_eval();
    let mut fe = Shape::<F>::new_float_slice_eval();
    let mut handle = RenderHandle::new(s.clone());
    let mut steps = vec![];
    // the history, then the first walk again on a new handle that inherits the recycled storage
    // the regions of the model are labels: for the shape with three like clauses the second one stands for "decides Z"
    // and the third for "decides Y", so that a history visits X-then-Z and Y-then-Z
    let relabel = k % 4 == 3;
    let mut all: Vec<Vec<i64>> = walks.iter().map(|wk| wk.iter().map(|b| if relabel { match *b { 2 => 4, 3 => 2, o => o } } else { *b }).collect()).collect();
    all.push(vec![-1]);
    let first = all[0].clone();
    all.push(first);
    for walk in &all {
        if walk == &vec![-1] {
            let old = std::mem::replace(&mut handle, RenderHandle::new(s.clone()));
            old.recycle(&mut shape_storage, &mut tape_storage);
            continue;
        }
        let (xs, ys, zs) = sample(walk, rng);
        let fresh = fresh_at(&xs, &ys, &zs);
        let r = vharness::catch(std::panic::AssertUnwindSafe(|| {
            let mut cur = &mut handle;
            let mut levels = 0;
            let mut ext: Shape<F> = s.clone();
            for b in walk {
                let [bx, by, bz] = region(*b);
                let trace = if external {
                    let tape = ext.ez_interval_tape();
                    let tr = ie.eval_with_transform_and_vars(&tape, bx, by, bz, &nalgebra::Matrix4::identity(), &vars).unwrap().1.cloned();
                    if let Some(tr) = &tr {
                        // the client's copy follows the same rule as the handle: a simplification that is not shorter is not used
                        let child = ext.simplify(tr, Default::default(), &mut ext_workspace).unwrap();
                        if child.size() < ext.size() { ext = child; }
                    }
                    tr
                } else {
                    ie.eval_with_transform_and_vars(cur.i_tape(&mut tape_storage), bx, by, bz, &nalgebra::Matrix4::identity(), &vars).unwrap().1.cloned()
                };
                if let Some(tr) = trace {
                    let before = cur as *const _;
                    cur = cur.simplify(&tr, &mut workspace, &mut shape_storage, &mut tape_storage);
                    if !std::ptr::eq(before, cur as *const _) {
                        levels += 1;
                    }
                }
            }
            let out: Vec<i64> = fe.eval_with_transform_and_vars(cur.f_tape(&mut tape_storage), &xs, &ys, &zs, &nalgebra::Matrix4::identity(), &vars).unwrap().iter().map(|v| bits(*v)).collect();
            (out, levels)
        }));
        let action = json!([if external { "handle-external-traces" } else { "handle" }, format!("{walk:?}")]);
        match r {
            Ok((out, levels)) => steps.push(json!({"action": action, "reused": {"out": out}, "fresh": {"out": fresh}, "levels": levels})),
            Err(m) => steps.push(json!({"action": action, "reused": {"panic": m}, "fresh": {"out": fresh}, "levels": -1})),
        }
    }
    writeln!(w, "{}", json!({"ev": "hist", "id": *id, "backend": backend, "kind": "handle", "len": steps.len(), "steps": steps})).unwrap();
    *id += 1;
}

/// Shape-level evaluators (the objects the renderers and the mesher keep per worker) used across shapes that read
/// different sets of variables, with different batch sizes, while earlier shapes are dropped and new ones built:
/// every result must be what fresh evaluators return.
fn shape_evals<F: Function + MathFunction + Clone>(w: &mut dyn Write, id: &mut usize, backend: &str, rng: &mut Rng, rounds: usize) {
    use fidget_core::var::Var;
    let mut pe = Shape::<F>::new_point_eval();
    let mut ie = Shape::<F>::new_interval_eval();
    let mut fe = Shape::<F>::new_float_slice_eval();
    let mut ge = Shape::<F>::new_grad_slice_eval();
    let extra: Vec<Var> = (0..3).map(|_| Var::new()).collect();
    let mut steps = vec![];
    for r in 0..rounds {
        // a weighted sum of a subset of {x, y, z, a, b, c}, met in a random order (the first met gets slot 0)
        let mut ctx = Context::new();
        let mut terms: Vec<(usize, Node)> = vec![];
        let mut order: Vec<usize> = (0..6).collect();
        for i in (1..6).rev() { order.swap(i, rng.below(i + 1)); }
        let nuse = 1 + rng.below(6);
        for &v in order.iter().take(nuse) {
            let n = match v { 0 => ctx.x(), 1 => ctx.y(), 2 => ctx.z(), k => ctx.var(extra[k - 3]) };
            terms.push((v, n));
        }
        let mut acc: Option<Node> = None;
        for (v, n) in &terms {
            let c = ctx.constant([2.0f32, 3.0, 5.0, 7.0, 11.0, 13.0][*v]);
            let t = ctx.mul(*n, c).unwrap();
            acc = Some(match acc { None => t, Some(a) => ctx.add(a, t).unwrap() });
        }
        let m = ctx.min(acc.unwrap(), terms[0].1).unwrap();
        let shape = Shape::<F>::new(&ctx, m).unwrap();
        let mut vars = ShapeVars::<f32>::new();
        for (k, v) in extra.iter().enumerate() { vars.insert(v.index().unwrap(), 0.5 + k as f32); }
        let n = [1usize, 3, 8, 9, 17, 2][rng.below(6)];
        let xs: Vec<f32> = (0..n).map(|_| rng.range(-2.0, 2.0)).collect();
        let ys: Vec<f32> = (0..n).map(|_| rng.range(-2.0, 2.0)).collect();
        let zs: Vec<f32> = (0..n).map(|_| rng.range(-2.0, 2.0)).collect();
        let gx: Vec<fidget_core::types::Grad> = xs.iter().map(|v| fidget_core::types::Grad::new(*v, 1.0, 0.0, 0.0)).collect();
        let gy: Vec<fidget_core::types::Grad> = ys.iter().map(|v| fidget_core::types::Grad::new(*v, 0.0, 1.0, 0.0)).collect();
        let gz: Vec<fidget_core::types::Grad> = zs.iter().map(|v| fidget_core::types::Grad::new(*v, 0.0, 0.0, 1.0)).collect();
        let bx = Interval::new(xs[0].min(0.0), xs[0].max(0.5));
        let run = |pe: &mut fidget_core::shape::ShapeTracingEval<F::PointEval>, ie: &mut fidget_core::shape::ShapeTracingEval<F::IntervalEval>,
                   fe: &mut fidget_core::shape::ShapeBulkEval<F::FloatSliceEval>, ge: &mut fidget_core::shape::ShapeBulkEval<F::GradSliceEval>| -> serde_json::Value {
            let r = vharness::catch(std::panic::AssertUnwindSafe(|| {
                let p = pe.eval_with_vars(&shape.ez_point_tape(), xs[0], ys[0], zs[0], &vars).map(|(v, _)| bits(v)).map_err(|e| format!("{e}"));
                let i = ie.eval_with_vars(&shape.ez_interval_tape(), bx, Interval::new(-1.0, 1.0), Interval::new(0.0, 0.25), &vars).map(|(v, _)| [bits(v.lower()), bits(v.upper())]).map_err(|e| format!("{e}"));
                let f = fe.eval_with_vars(&shape.ez_float_slice_tape(), &xs, &ys, &zs, &vars).map(|o| o.iter().map(|v| bits(*v)).collect::<Vec<_>>()).map_err(|e| format!("{e}"));
                let g = ge.eval_with_vars(&shape.ez_grad_slice_tape(), &gx, &gy, &gz, &vars).map(|o| o.iter().map(|g| [bits(g.v), bits(g.dx), bits(g.dy), bits(g.dz)]).collect::<Vec<_>>()).map_err(|e| format!("{e}"));
                json!({"point": p.map(|v| json!(v)).unwrap_or_else(|e| json!(e)), "interval": i.map(|v| json!(v)).unwrap_or_else(|e| json!(e)),
                       "float": f.map(|v| json!(v)).unwrap_or_else(|e| json!(e)), "grad": g.map(|v| json!(v)).unwrap_or_else(|e| json!(e))})
            }));
            match r { Ok(v) => json!({"out": v}), Err(m) => json!({"panic": m}) }
        };
        let reused = run(&mut pe, &mut ie, &mut fe, &mut ge);
        let fresh = run(&mut Shape::<F>::new_point_eval(), &mut Shape::<F>::new_interval_eval(), &mut Shape::<F>::new_float_slice_eval(), &mut Shape::<F>::new_grad_slice_eval());
        if reused.get("panic").is_some() {
            pe = Shape::<F>::new_point_eval(); ie = Shape::<F>::new_interval_eval(); fe = Shape::<F>::new_float_slice_eval(); ge = Shape::<F>::new_grad_slice_eval();
        }
        steps.push(json!({"action": ["shape-evaluators", format!("round {r}: {nuse} variables, {n} samples")], "reused": reused, "fresh": fresh, "levels": 0}));
        // the shape (and its variable map) is dropped here; the next one is typically allocated where it was
    }
    writeln!(w, "{}", json!({"ev": "hist", "id": *id, "backend": backend, "kind": "shape-evaluators", "len": steps.len(), "steps": steps})).unwrap();
    *id += 1;
}

fn main() {
    let args: Vec<String> = std::env::args().collect();
    let text = std::fs::read_to_string(&args[1]).unwrap();
    let mut lines: Vec<&str> = text.lines().filter(|l| l.contains("\"GEN\"")).collect();
    lines.sort();
    lines.dedup();
    let quick = args[2] == "quick";
    let mut w = std::io::BufWriter::new(std::fs::File::create(&args[3]).unwrap());
    let mut rng = Rng::new(seed_from_env().wrapping_add(4242));
    let mut id = 5_000_000;
    for (k, l) in lines.iter().enumerate() {
        if quick && k % 2 == 1 {
            continue;
        }
        let start = l.find(", \"").unwrap() + 3;
        let end = l.rfind("\">>").unwrap();
        let c: serde_json::Value = serde_json::from_str(&l[start..end].replace("\\\"", "\"")).unwrap();
        let walks: Vec<Vec<i64>> = c["walks"].as_array().unwrap().iter().map(|p| p.as_array().unwrap().iter().map(|b| b.as_i64().unwrap()).collect()).collect();
        // shape, backend and the source of the traces vary independently (h counts the histories actually replayed)
        let h = if quick { k / 2 } else { k };
        let (si, external) = (h % 4, (h / 4) % 2 == 0);
        if (h / 8) % 3 == 2 {
            replay::<JitFunction>(&mut w, &mut id, "jit", &walks, si, &mut rng, external);
        } else {
            replay::<VmFunction>(&mut w, &mut id, "vm", &walks, si, &mut rng, external);
        }
    }
    for k in 0..(if quick { 20 } else { 200 }) {
        if k % 2 == 0 { shape_evals::<VmFunction>(&mut w, &mut id, "vm", &mut rng, 24); } else { shape_evals::<JitFunction>(&mut w, &mut id, "jit", &mut rng, 24); }
    }
    w.flush().unwrap();
    eprintln!("handle: {} histories", id - 5_000_000);
}
