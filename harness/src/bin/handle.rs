//! C10 (RenderHandle): replays the walk histories emitted by spec/Handle.tla on a real RenderHandle whose storage
//! vectors, workspace and evaluators persist through the history, and evaluates the handle each walk ends on.
//! The reference is the root shape evaluated by a fresh evaluator at the same points (all inside every region).
//! Usage: handle <hist.out> <quick|thorough> <out.ndjson>
use fidget_core::{
    context::{Context, Node},
    eval::{Function, MathFunction},
    render::RenderHandle,
    shape::{EzShape, Shape, ShapeVars},
    types::Interval,
    vm::VmFunction,
};
use fidget_jit::JitFunction;
use serde_json::json;
use std::io::Write;
use vharness::keys::{bits, seed_from_env, Rng};

/// three clauses that regions decide independently: X by a positive x-range, Y by a positive y-range, Z never
fn shape(k: usize) -> (Context, Node) {
    let mut ctx = Context::new();
    let (x, y, z) = (ctx.x(), ctx.y(), ctx.z());
    let c = |ctx: &mut Context, v: f32| ctx.constant(v);
    let k1 = c(&mut ctx, 0.1);
    let a = ctx.sub(k1, x).unwrap();
    let mx = ctx.min(x, a).unwrap(); // decided when x > 0.1 everywhere
    let ny = ctx.neg(y).unwrap();
    let my = ctx.max(y, ny).unwrap(); // decided when y > 0 everywhere
    let k2 = c(&mut ctx, 0.2);
    let zz = ctx.add(z, k2).unwrap();
    let nz = ctx.neg(z).unwrap();
    let mz = ctx.min(zz, nz).unwrap(); // never decided on the regions used
    let x2 = ctx.square(x).unwrap();
    let y2 = ctx.square(y).unwrap();
    let s = ctx.add(x2, y2).unwrap();
    let one = c(&mut ctx, 1.0);
    let s1 = ctx.add(s, one).unwrap();
    let r = ctx.sqrt(s1).unwrap();
    let k3 = c(&mut ctx, 0.3);
    let k5 = c(&mut ctx, 0.5);
    let p = ctx.add(mx, k3).unwrap();
    let q = ctx.add(my, k5).unwrap();
    let pq = ctx.mul(p, q).unwrap();
    let t = ctx.add(pq, mz).unwrap();
    let root = match k % 3 {
        0 => ctx.add(t, r).unwrap(),
        1 => {
            let u = ctx.sin(t).unwrap();
            let w = ctx.max(u, mx).unwrap(); // a second clause that depends on the first
            ctx.sub(w, r).unwrap()
        }
        _ => {
            let u = ctx.min(t, my).unwrap();
            ctx.mul(u, r).unwrap()
        }
    };
    (ctx, root)
}

/// regions: 1 decides X, 2 decides Y, 3 decides nothing; all contain [0.2, 0.9]^2 x [-1, 1]
fn region(b: i64) -> [Interval; 3] {
    let full = Interval::new(-1.0, 1.0);
    let pos = Interval::new(0.2, 0.9);
    match b {
        1 => [pos, full, full],
        2 => [full, pos, full],
        _ => [full, full, full],
    }
}

fn replay<F: Function + MathFunction + Clone>(w: &mut dyn Write, id: &mut usize, backend: &str, walks: &[Vec<i64>], k: usize, rng: &mut Rng) {
    let (ctx, root) = shape(k);
    let s = Shape::<F>::new(&ctx, root).unwrap();
    let vars = ShapeVars::<f32>::new();
    let n = 6;
    // sample points of a walk lie inside every region of that walk (and, wherever possible, outside the others,
    // so that a child cached for another region gives itself away)
    let sample = |walk: &[i64], rng: &mut Rng| -> (Vec<f32>, Vec<f32>, Vec<f32>) {
        let (mut x0, mut y0) = (-1.0f32, -1.0f32);
        let (mut x1, mut y1) = (1.0f32, 1.0f32);
        for b in walk {
            if *b == 1 { x0 = 0.2; x1 = 0.9; }
            if *b == 2 { y0 = 0.2; y1 = 0.9; }
        }
        let pick = |lo: f32, hi: f32, rng: &mut Rng| if lo < 0.0 && rng.below(3) > 0 { rng.range(-1.0, 0.0) } else { rng.range(lo, hi) };
        ((0..n).map(|_| pick(x0, x1, rng)).collect(), (0..n).map(|_| pick(y0, y1, rng)).collect(), (0..n).map(|_| rng.range(-1.0, 1.0)).collect())
    };
    let fresh_at = |xs: &[f32], ys: &[f32], zs: &[f32]| -> Vec<i64> {
        let mut e = Shape::<F>::new_float_slice_eval();
        let tape = s.ez_float_slice_tape();
        e.eval(&tape, xs, ys, zs).unwrap().iter().map(|v| bits(*v)).collect()
    };
    let mut shape_storage: Vec<F::Storage> = vec![];
    let mut tape_storage: Vec<F::TapeStorage> = vec![];
    let mut workspace = F::Workspace::default();
    let mut ie = Shape::<F>::new_interval_eval();
    let mut fe = Shape::<F>::new_float_slice_eval();
    let mut handle = RenderHandle::new(s.clone());
    let mut steps = vec![];
    // the history, then the first walk again on a new handle that inherits the recycled storage
    let mut all: Vec<Vec<i64>> = walks.to_vec();
    all.push(vec![-1]);
    all.push(walks[0].clone());
    for walk in &all {
        if walk == &vec![-1] {
            let old = std::mem::replace(&mut handle, RenderHandle::new(s.clone()));
            old.recycle(&mut shape_storage, &mut tape_storage);
            continue;
        }
        let (xs, ys, zs) = sample(walk, rng);
        let fresh = fresh_at(&xs, &ys, &zs);
        let r = vharness::catch(std::panic::AssertUnwindSafe(|| {
            let mut cur = &mut handle;
            let mut levels = 0;
            for b in walk {
                let [bx, by, bz] = region(*b);
                let (_, trace) = ie.eval_with_transform_and_vars(cur.i_tape(&mut tape_storage), bx, by, bz, &nalgebra::Matrix4::identity(), &vars).unwrap();
                if let Some(tr) = trace.cloned() {
                    let before = cur as *const _;
                    cur = cur.simplify(&tr, &mut workspace, &mut shape_storage, &mut tape_storage);
                    if !std::ptr::eq(before, cur as *const _) {
                        levels += 1;
                    }
                }
            }
            let out: Vec<i64> = fe.eval_with_transform_and_vars(cur.f_tape(&mut tape_storage), &xs, &ys, &zs, &nalgebra::Matrix4::identity(), &vars).unwrap().iter().map(|v| bits(*v)).collect();
            (out, levels)
        }));
        let action = json!(["handle", format!("{walk:?}")]);
        match r {
            Ok((out, levels)) => steps.push(json!({"action": action, "reused": {"out": out}, "fresh": {"out": fresh}, "levels": levels})),
            Err(m) => steps.push(json!({"action": action, "reused": {"panic": m}, "fresh": {"out": fresh}, "levels": -1})),
        }
    }
    writeln!(w, "{}", json!({"ev": "hist", "id": *id, "backend": backend, "kind": "handle", "len": steps.len(), "steps": steps})).unwrap();
    *id += 1;
}

fn main() {
    let args: Vec<String> = std::env::args().collect();
    let text = std::fs::read_to_string(&args[1]).unwrap();
    let mut lines: Vec<&str> = text.lines().filter(|l| l.contains("\"GEN\"")).collect();
    lines.sort();
    lines.dedup();
    let quick = args[2] == "quick";
    let mut w = std::io::BufWriter::new(std::fs::File::create(&args[3]).unwrap());
    let mut rng = Rng::new(seed_from_env().wrapping_add(4242));
    let mut id = 5_000_000;
    for (k, l) in lines.iter().enumerate() {
        if quick && k % 2 == 1 {
            continue;
        }
        let start = l.find(", \"").unwrap() + 3;
        let end = l.rfind("\">>").unwrap();
        let c: serde_json::Value = serde_json::from_str(&l[start..end].replace("\\\"", "\"")).unwrap();
        let walks: Vec<Vec<i64>> = c["walks"].as_array().unwrap().iter().map(|p| p.as_array().unwrap().iter().map(|b| b.as_i64().unwrap()).collect()).collect();
        if k % 3 == 2 {
            replay::<JitFunction>(&mut w, &mut id, "jit", &walks, k / 3, &mut rng);
        } else {
            replay::<VmFunction>(&mut w, &mut id, "vm", &walks, k / 3, &mut rng);
        }
    }
    w.flush().unwrap();
    eprintln!("handle: {} histories", id - 5_000_000);
}
