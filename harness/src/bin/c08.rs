//! C08 recorder: meshes of random shapes, with the collapse events of the octree builder.
//! Usage: c08 <quick|thorough> <out.ndjson>
use fidget_core::{
    context::{Context, Node},
    eval::{Function, MathFunction},
    render::{CancelToken, RenderHints, ThreadPool},
    shape::{EzShape, Shape, ShapeVars},
    vm::VmFunction,
};
use fidget_jit::JitFunction;
use fidget_mesh::{Octree, Settings};
use nalgebra::{Matrix4, Vector3};
use serde_json::json;
use std::io::Write;
use vharness::{
    hooks,
    keys::{seed_from_env, Rng},
    shapes::{self, Built},
};

fn k(ctx: &mut Context, v: f32) -> Node {
    ctx.constant(v)
}
fn maxn(ctx: &mut Context, v: &[Node]) -> Node {
    let mut a = v[0];
    for b in &v[1..] {
        a = ctx.max(a, *b).unwrap();
    }
    a
}
/// cone around the Z axis (a grid line of every octree): the gradient of sqrt(x^2+y^2) is 0/0 on the axis
fn cone(tip: f32, slope: f32, base: f32) -> Built {
    let mut ctx = Context::new();
    let (x, y, z) = (ctx.x(), ctx.y(), ctx.z());
    let x2 = ctx.square(x).unwrap();
    let y2 = ctx.square(y).unwrap();
    let s = ctx.add(x2, y2).unwrap();
    let r = ctx.sqrt(s).unwrap();
    let kt = k(&mut ctx, tip);
    let ks = k(&mut ctx, slope);
    let d = ctx.sub(kt, z).unwrap();
    let lim = ctx.mul(d, ks).unwrap();
    let side = ctx.sub(r, lim).unwrap();
    let kb = k(&mut ctx, base);
    let bottom = ctx.sub(kb, z).unwrap();
    let root = ctx.max(side, bottom).unwrap();
    Built { ctx, root, desc: format!("cone(tip {tip}, slope {slope}, base {base})") }
}
fn cylinder(r0: f32, lo: f32, hi: f32, cx: f32, cy: f32) -> Built {
    let mut ctx = Context::new();
    let (x, y, z) = (ctx.x(), ctx.y(), ctx.z());
    let (kx, ky) = (k(&mut ctx, cx), k(&mut ctx, cy));
    let dx = ctx.sub(x, kx).unwrap();
    let dy = ctx.sub(y, ky).unwrap();
    let x2 = ctx.square(dx).unwrap();
    let y2 = ctx.square(dy).unwrap();
    let s = ctx.add(x2, y2).unwrap();
    let r = ctx.sqrt(s).unwrap();
    let kr = k(&mut ctx, r0);
    let side = ctx.sub(r, kr).unwrap();
    let (kl, kh) = (k(&mut ctx, lo), k(&mut ctx, hi));
    let a = ctx.sub(kl, z).unwrap();
    let b = ctx.sub(z, kh).unwrap();
    let root = maxn(&mut ctx, &[side, a, b]);
    Built { ctx, root, desc: format!("cylinder(r {r0}, z {lo}..{hi}, at {cx},{cy})") }
}
/// a slab whose top hugs the lattice plane z = z0 of the given depth: just below it, except for tiny bumps that
/// lift single lattice points inside.  Leaf cells along the plane get all kinds of corner patterns with an
/// almost planar surface, so the builder tries to collapse them.
fn bumpy_slab(rng: &mut Rng, depth: u8) -> Built {
    let mut ctx = Context::new();
    let (x, y, z) = (ctx.x(), ctx.y(), ctx.z());
    let cell = 2.0 / (1u32 << depth) as f32;
    let n = (1i32 << depth) / 2;
    let z0 = cell * (rng.below(3) as f32 - 1.0);
    let delta = cell * [1e-3f32, 1e-4, 2e-3][rng.below(3)];
    let w = cell * 0.45;
    let mut desc = format!("bumpy_slab(depth {depth}, z0 {z0}, delta {delta}; bumps");
    let mut sum: Option<Node> = None;
    let lim = (n / 2).max(1);
    let nb = 2 + rng.below(5);
    let (bx, by) = (rng.below((2 * lim) as usize) as i32 - lim, rng.below((2 * lim) as usize) as i32 - lim);
    for i in 0..nb {
        // clusters of neighbouring lattice points (diagonal neighbours make ambiguous faces)
        let (ix, iy) = if i == 0 { (bx, by) } else { (bx + rng.below(3) as i32 - 1, by + rng.below(3) as i32 - 1) };
        let (px, py) = (ix as f32 * cell, iy as f32 * cell);
        desc += &format!(" ({px},{py})");
        let (kx, ky, kw, one, zero) = (k(&mut ctx, px), k(&mut ctx, py), k(&mut ctx, w), k(&mut ctx, 1.0), k(&mut ctx, 0.0));
        let dx = ctx.sub(x, kx).unwrap();
        let dy = ctx.sub(y, ky).unwrap();
        let ax = ctx.abs(dx).unwrap();
        let ay = ctx.abs(dy).unwrap();
        let s = ctx.add(ax, ay).unwrap();
        let q = ctx.div(s, kw).unwrap();
        let t = ctx.sub(one, q).unwrap();
        let b = ctx.max(t, zero).unwrap();
        sum = Some(match sum { None => b, Some(a) => ctx.max(a, b).unwrap() });
    }
    let top = k(&mut ctx, z0 - delta);
    let k2 = k(&mut ctx, 2.0 * delta);
    let lift = ctx.mul(sum.unwrap(), k2).unwrap();
    let zt = ctx.add(top, lift).unwrap();
    let a = ctx.sub(z, zt).unwrap();
    let kb = k(&mut ctx, z0 - 0.37 - 0.05 * rng.below(3) as f32);
    let bottom = ctx.sub(kb, z).unwrap();
    let e = 0.61f32;
    let ke = k(&mut ctx, e);
    let ax = ctx.abs(x).unwrap();
    let ay = ctx.abs(y).unwrap();
    let sx = ctx.sub(ax, ke).unwrap();
    let sy = ctx.sub(ay, ke).unwrap();
    let root = maxn(&mut ctx, &[a, bottom, sx, sy]);
    desc += ")";
    Built { ctx, root, desc }
}

/// the exact signed distance of a box, length(max(d, 0)) + min(max(dx, dy, dz), 0) with d = |p - c| - h: the
/// gradient of the sqrt is 0 / 0 = NaN on every face
fn exact_box(rng: &mut Rng) -> Built {
    let mut ctx = Context::new();
    let (x, y, z) = (ctx.x(), ctx.y(), ctx.z());
    let c = [rng.range(-0.15, 0.15), rng.range(-0.15, 0.15), rng.range(-0.15, 0.15)];
    let h = [rng.range(0.25, 0.5), rng.range(0.25, 0.5), rng.range(0.25, 0.5)];
    let zero = ctx.constant(0.0);
    let mut d = vec![];
    for (k, axis) in [x, y, z].into_iter().enumerate() {
        let kc = ctx.constant(c[k]);
        let kh = ctx.constant(h[k]);
        let t = ctx.sub(axis, kc).unwrap();
        let a = ctx.abs(t).unwrap();
        d.push(ctx.sub(a, kh).unwrap());
    }
    let mut sum = zero;
    for dk in &d {
        let m = ctx.max(*dk, zero).unwrap();
        let sq = ctx.square(m).unwrap();
        sum = ctx.add(sum, sq).unwrap();
    }
    let outside = ctx.sqrt(sum).unwrap();
    let m01 = ctx.max(d[0], d[1]).unwrap();
    let m012 = ctx.max(m01, d[2]).unwrap();
    let inside = ctx.min(m012, zero).unwrap();
    let root = ctx.add(outside, inside).unwrap();
    Built { ctx, root, desc: format!("exact box sdf centre {c:?} half {h:?}") }
}

/// |x| + |y| + |z| - r with |t| written as sqrt(t * t): the gradient is NaN on the three coordinate planes, which are
/// lattice planes of the octree at every depth, so many edge crossings carry no usable normal (incomplete Hermite data),
/// while the faces are flat (every collapse is attempted)
fn sqrt_abs_octahedron(rng: &mut Rng) -> Built {
    let mut ctx = Context::new();
    let (x, y, z) = (ctx.x(), ctx.y(), ctx.z());
    let mut sum: Option<Node> = None;
    for a in [x, y, z] {
        let sq = ctx.square(a).unwrap();
        let ab = ctx.sqrt(sq).unwrap();
        sum = Some(match sum { None => ab, Some(s) => ctx.add(s, ab).unwrap() });
    }
    // large (its tips stay inside the region): the volume clause is relative to area x cell, and a wrong collapse costs a
    // fraction of the volume
    let r = 0.7 + 0.05 * rng.below(4) as f32 + 0.013;
    let kr = k(&mut ctx, r);
    let root = ctx.sub(sum.unwrap(), kr).unwrap();
    Built { ctx, root, desc: format!("octahedron sqrt(t^2) r={r}") }
}

fn pool(n: usize) -> ThreadPool {
    ThreadPool::Custom(rayon::ThreadPoolBuilder::new().num_threads(n).build().unwrap())
}

struct Reference {
    shape: Shape<VmFunction>,
}
impl Reference {
    fn eval(&self, pts: &[[f32; 3]]) -> Vec<f32> {
        let tape = self.shape.ez_float_slice_tape();
        let mut e = Shape::<VmFunction>::new_float_slice_eval();
        let mut out = Vec::with_capacity(pts.len());
        for chunk in pts.chunks(8192) {
            let xs: Vec<f32> = chunk.iter().map(|p| p[0]).collect();
            let ys: Vec<f32> = chunk.iter().map(|p| p[1]).collect();
            let zs: Vec<f32> = chunk.iter().map(|p| p[2]).collect();
            out.extend_from_slice(e.eval(&tape, &xs, &ys, &zs).unwrap());
        }
        out
    }
}

fn find(p: &mut Vec<usize>, mut i: usize) -> usize {
    while p[i] != i {
        p[i] = p[p[i]];
        i = p[i];
    }
    i
}

#[allow(clippy::too_many_arguments)]
fn run<F: Function + RenderHints + MathFunction + Clone>(w: &mut dyn Write, id: &mut usize, backend: &str, b: &Built, depth: u8, threads: i64, w2m: Matrix4<f32>, scale: f32, wdesc: &str, centre: Vector3<f32>, extra: &serde_json::Value) {
    let shape = Shape::<F>::new(&b.ctx, b.root).unwrap();
    let vars = ShapeVars::<f32>::new();
    let tp = match threads { 0 => None, -1 => Some(ThreadPool::Global), n => Some(pool(n as usize)) };
    let settings = Settings { depth, world_to_model: w2m, threads: tp.as_ref(), cancel: CancelToken::new() };
    hooks::take();
    let r = vharness::catch(std::panic::AssertUnwindSafe(|| {
        let bound = shape.bind(&vars).unwrap();
        Octree::build(&bound, &settings).map(|o| o.walk_dual())
    }));
    let evs = hooks::take();
    let collapses: Vec<_> = evs.iter().filter(|e| e.name == "collapse")
        .map(|e| json!({"mask": hooks::field(e, "mask"), "c": (0..8).map(|i| hooks::field(e, ["c0", "c1", "c2", "c3", "c4", "c5", "c6", "c7"][i])).collect::<Vec<_>>()})).collect();
    let mesh = match r {
        Ok(Some(m)) => m,
        Ok(None) => {
            writeln!(w, "{}", json!({"ev": "mesh", "id": *id, "status": "none", "msg": "", "desc": b.desc, "backend": backend, "depth": depth, "threads": threads, "w2m": wdesc, "kind": extra["kind"]})).unwrap();
            *id += 1;
            return;
        }
        Err(m) => {
            writeln!(w, "{}", json!({"ev": "mesh", "id": *id, "status": "panic", "msg": m, "desc": b.desc, "backend": backend, "depth": depth, "threads": threads, "w2m": wdesc, "kind": extra["kind"]})).unwrap();
            *id += 1;
            return;
        }
    };
    let cell = 2.0 / (1u32 << depth) as f64 * scale as f64;
    let reference = Reference { shape: Shape::<VmFunction>::new(&b.ctx, b.root).unwrap() };
    let nv = mesh.vertices.len();
    let nonfinite: Vec<usize> = (0..nv).filter(|i| mesh.vertices[*i].iter().any(|c| !c.is_finite())).collect();
    // vertices lie near the surface
    let vals = reference.eval(&mesh.vertices.iter().map(|v| [v.x, v.y, v.z]).collect::<Vec<_>>());
    let mut used = vec![false; nv];
    for t in &mesh.triangles {
        for i in 0..3 {
            if t[i] < nv { used[t[i]] = true; }
        }
    }
    if std::env::var("C08_DUMP").ok().map(|s| s.parse::<usize>().unwrap()) == Some(*id) {
        let mut cnt: std::collections::HashMap<(usize, usize), Vec<usize>> = Default::default();
        for (ti, t) in mesh.triangles.iter().enumerate() {
            for k in 0..3 { cnt.entry((t[k], t[(k + 1) % 3])).or_default().push(ti); }
        }
        for (e, ts) in cnt.iter().filter(|(_, ts)| ts.len() > 1) {
            eprintln!("  edge {:?}: {:?} -> {:?}", e, mesh.vertices[e.0], mesh.vertices[e.1]);
            for ti in ts { let t = mesh.triangles[*ti]; eprintln!("     tri {ti}: {:?} third {:?}", t, (0..3).map(|k| mesh.vertices[t[k]]).collect::<Vec<_>>()); }
        }
        eprintln!("shape {} depth {depth} threads {threads} {wdesc}", b.desc);
        for i in 0..nv {
            if used[i] && vals[i].abs() as f64 / cell > 1.0 {
                eprintln!("  vertex {i} at {:?} f = {} ({} cells)", mesh.vertices[i], vals[i], vals[i].abs() as f64 / cell);
            }
        }
    }
    let far = (0..nv).filter(|i| used[*i] && mesh.vertices[*i].iter().all(|c| c.is_finite())).map(|i| vals[i].abs() as f64 / cell).fold(0.0f64, f64::max);
    // signed volume, area, components and their orientation
    let p = |i: usize| -> Vector3<f64> { mesh.vertices[i].cast::<f64>() };
    let mut vol = 0.0f64;
    let mut area = 0.0f64;
    let mut parent: Vec<usize> = (0..nv).collect();
    let ok_index = mesh.triangles.iter().all(|t| t.iter().all(|i| *i < nv));
    let mut probes = vec![];
    if ok_index && nonfinite.is_empty() {
        for t in &mesh.triangles {
            let (a, bb, c) = (p(t[0]), p(t[1]), p(t[2]));
            vol += a.dot(&bb.cross(&c)) / 6.0;
            let n = (bb - a).cross(&(c - a));
            area += n.norm() / 2.0;
            let (ra, rb) = (find(&mut parent, t[0]), find(&mut parent, t[1]));
            parent[ra] = rb;
            let (ra, rc) = (find(&mut parent, t[0]), find(&mut parent, t[2]));
            parent[ra] = rc;
            let cen = (a + bb + c) / 3.0;
            let nn = if n.norm() > 0.0 { n / n.norm() } else { Vector3::zeros() };
            let e = 0.05 * cell;
            let (q1, q2) = (cen + nn * e, cen - nn * e);
            probes.push([q1.x as f32, q1.y as f32, q1.z as f32]);
            probes.push([q2.x as f32, q2.y as f32, q2.z as f32]);
        }
    }
    let pv = reference.eval(&probes);
    let mut comp_w: std::collections::HashMap<usize, (f64, f64)> = Default::default();
    if ok_index && nonfinite.is_empty() {
        for (ti, t) in mesh.triangles.iter().enumerate() {
            let (a, bb, c) = (p(t[0]), p(t[1]), p(t[2]));
            let ar = (bb - a).cross(&(c - a)).norm() / 2.0;
            let root = find(&mut parent, t[0]);
            let e = comp_w.entry(root).or_insert((0.0, 0.0));
            let d = pv[2 * ti] - pv[2 * ti + 1];
            if d > 0.0 { e.0 += ar; } else if d < 0.0 { e.1 += ar; }
        }
    }
    let components = comp_w.len();
    let inward = comp_w.values().filter(|(o, i)| i > o).count();
    let undecided = comp_w.values().filter(|(o, i)| o + i > 0.0 && (o - i).abs() < 0.6 * (o + i)).count();
    // reference volume: voxel count on a fine lattice over the cube that contains every shape of the generator
    let m = ((4usize << depth).min(112)).max(16);
    let half = 1.3f64;
    let h = 2.0 * half / m as f64;
    let mut inside = vec![false; m * m * m];
    let mut pts = Vec::with_capacity(m * m);
    let mut count = 0usize;
    for iz in 0..m {
        pts.clear();
        for iy in 0..m {
            for ix in 0..m {
                pts.push([(centre.x as f64 - half + (ix as f64 + 0.5) * h) as f32, (centre.y as f64 - half + (iy as f64 + 0.5) * h) as f32, (centre.z as f64 - half + (iz as f64 + 0.5) * h) as f32]);
            }
        }
        let v = reference.eval(&pts);
        for (j, f) in v.iter().enumerate() {
            if *f < 0.0 {
                inside[iz * m * m + j] = true;
                count += 1;
            }
        }
    }
    let mut faces = 0usize;
    for iz in 0..m {
        for iy in 0..m {
            for ix in 0..m {
                let a = inside[iz * m * m + iy * m + ix];
                if ix + 1 < m && a != inside[iz * m * m + iy * m + ix + 1] { faces += 1; }
                if iy + 1 < m && a != inside[iz * m * m + (iy + 1) * m + ix] { faces += 1; }
                if iz + 1 < m && a != inside[(iz + 1) * m * m + iy * m + ix] { faces += 1; }
            }
        }
    }
    let ref_vol = count as f64 * h * h * h;
    let ref_area = faces as f64 * h * h;
    let tol = ref_area * (1.0 * cell + 0.5 * h) + 4.0 * cell * cell * cell;
    // directed edges used twice: is each of them explained by a checkerboard lattice face shared by two
    // single-vertex cells (see Mesh.tla, SharedAmbiguous)?  Classification only; the verdict is Trace_C08's.
    let (mut dup_pairs, mut dup_saf) = (0usize, 0usize);
    if ok_index && nonfinite.is_empty() {
        let mut cnt: std::collections::HashMap<(usize, usize), Vec<usize>> = Default::default();
        for (ti, t) in mesh.triangles.iter().enumerate() {
            for q in 0..3 {
                cnt.entry((t[q], t[(q + 1) % 3])).or_default().push(ti);
            }
        }
        let inv = w2m.try_inverse().unwrap();
        let mut seen = std::collections::HashSet::new();
        for (e, ts) in cnt.iter().filter(|(_, ts)| ts.len() > 1) {
            let key = (e.0.min(e.1), e.0.max(e.1));
            if !seen.insert(key) {
                continue;
            }
            dup_pairs += 1;
            let mut all: Vec<usize> = ts.clone();
            if let Some(r) = cnt.get(&(e.1, e.0)) {
                all.extend(r);
            }
            all.sort();
            all.dedup();
            let thirds: Vec<Vector3<f32>> = all.iter().map(|ti| {
                let t = mesh.triangles[*ti];
                let o = (0..3).map(|q| t[q]).find(|v| *v != e.0 && *v != e.1).unwrap_or(e.0);
                inv.transform_point(&mesh.vertices[o].into()).coords
            }).collect();
            if thirds.len() != 4 {
                continue;
            }
            let eps = 1.0e-5f32;
            for t in 0..3 {
                let (u, v) = ((t + 1) % 3, (t + 2) % 3);
                if !thirds.iter().all(|q| (q[t] - thirds[0][t]).abs() < eps) {
                    continue;
                }
                let (u0, u1) = (thirds.iter().map(|q| q[u]).fold(f32::MAX, f32::min), thirds.iter().map(|q| q[u]).fold(f32::MIN, f32::max));
                let (v0, v1) = (thirds.iter().map(|q| q[v]).fold(f32::MAX, f32::min), thirds.iter().map(|q| q[v]).fold(f32::MIN, f32::max));
                let side = u1 - u0;
                let lattice = |x: f32| ((x + 1.0) / side - ((x + 1.0) / side).round()).abs() < 1.0e-3;
                let sides = [
                    thirds.iter().filter(|q| (q[u] - u0).abs() < eps).count(), thirds.iter().filter(|q| (q[u] - u1).abs() < eps).count(),
                    thirds.iter().filter(|q| (q[v] - v0).abs() < eps).count(), thirds.iter().filter(|q| (q[v] - v1).abs() < eps).count()];
                if side <= 0.0 || ((v1 - v0) - side).abs() > eps || !lattice(u0) || !lattice(v0) || sides != [1, 1, 1, 1] {
                    continue;
                }
                let corner = |cu: f32, cv: f32| { let mut q = Vector3::zeros(); q[t] = thirds[0][t]; q[u] = cu; q[v] = cv; let m = w2m.transform_point(&q.into()); [m.x, m.y, m.z] };
                let f = reference.eval(&[corner(u0, v0), corner(u1, v0), corner(u0, v1), corner(u1, v1)]);
                let neg: Vec<bool> = f.iter().map(|x| *x < 0.0).collect();
                if neg[0] == neg[3] && neg[1] == neg[2] && neg[0] != neg[1] {
                    dup_saf += 1;
                }
                break;
            }
        }
    }
    let tris: Vec<usize> = mesh.triangles.iter().flat_map(|t| [t[0], t[1], t[2]]).collect();
    let sc = |v: f64| (v * 1.0e6).round() as i64;
    let mut j = json!({"ev": "mesh", "id": *id, "status": "ok", "msg": "", "desc": b.desc, "backend": backend, "depth": depth, "threads": threads, "w2m": wdesc,
        "nv": nv, "tris": tris, "nonfinite": nonfinite.len(), "index_ok": ok_index,
        "far_milli": (far * 1000.0).round().min(2.0e9) as i64, "vol": sc(vol), "ref_vol": sc(ref_vol), "tol": sc(tol * if depth <= 3 { 3.0 } else if b.desc.starts_with("csg3") { 1.5 } else { 0.8 }), "area": sc(area), "ref_area": sc(ref_area), "cell": sc(cell),
        "dup_pairs": dup_pairs, "dup_saf": dup_saf, "components": components, "inward": inward, "undecided": undecided, "collapses": collapses});
    for (k, v) in extra.as_object().unwrap() {
        j[k] = v.clone();
    }
    writeln!(w, "{j}").unwrap();
    *id += 1;
}

/// the sign field of the model realised as a union of spheres around the filled lattice points
fn field_shape(inside: &[[i64; 3]], n: i64) -> Built {
    let mut ctx = Context::new();
    let h = 2.0 / n as f32;
    let mut acc: Option<Node> = None;
    for p in inside {
        let c = [-1.0 + h * p[0] as f32, -1.0 + h * p[1] as f32, -1.0 + h * p[2] as f32];
        let sp = shapes::sphere(&mut ctx, c, 0.54 * h);
        acc = Some(match acc { None => sp, Some(a) => ctx.min(a, sp).unwrap() });
    }
    let root = acc.unwrap_or_else(|| ctx.constant(1.0));
    Built { ctx, root, desc: format!("field {inside:?}") }
}

fn fields(args: &[String]) {
    let text = std::fs::read_to_string(&args[2]).unwrap();
    let mut lines: Vec<&str> = text.lines().filter(|l| l.contains("\"GEN\"")).collect();
    lines.sort();
    let mut w = std::io::BufWriter::new(std::fs::File::create(&args[3]).unwrap());
    hooks::install();
    let mut id = 1_000_000;
    for (k, l) in lines.iter().enumerate() {
        let start = l.find(", \"").unwrap() + 3;
        let end = l.rfind("\">>").unwrap();
        let c: serde_json::Value = serde_json::from_str(&l[start..end].replace("\\\"", "\"")).unwrap();
        let inside: Vec<[i64; 3]> = c["inside"].as_array().unwrap().iter().map(|p| [p[0].as_i64().unwrap(), p[1].as_i64().unwrap(), p[2].as_i64().unwrap()]).collect();
        if inside.is_empty() {
            continue;
        }
        let n = c["n"].as_i64().unwrap();
        let depth = (n as f64).log2().round() as u8;
        let b = field_shape(&inside, n);
        let extra = json!({"kind": "field", "model_ntri": c["ntri"], "model_manifold": c["manifold"]});
        let threads = [0i64, -1][k % 2];
        if k % 3 == 0 {
            run::<JitFunction>(&mut w, &mut id, "jit", &b, depth, threads, Matrix4::identity(), 1.0, "identity", Vector3::zeros(), &extra);
        } else {
            run::<VmFunction>(&mut w, &mut id, "vm", &b, depth, threads, Matrix4::identity(), 1.0, "identity", Vector3::zeros(), &extra);
        }
    }
    w.flush().unwrap();
    eprintln!("c08: {} fields", id - 1_000_000);
}

fn main() {
    let args: Vec<String> = std::env::args().collect();
    if args[1] == "fields" {
        return fields(&args);
    }
    let quick = args[1] == "quick";
    let mut w = std::io::BufWriter::new(std::fs::File::create(&args[2]).unwrap());
    let mut rng = Rng::new(seed_from_env().wrapping_add(808));
    hooks::install();
    let mut id = 0;
    let n = if quick { 36 } else { 400 };
    let maxd = if quick { 4 } else { 6 };
    for i in 0..n {
        let depth = if !quick && i % 25 == 24 { 6 } else { 1 + (i % (maxd.min(5))) as u8 };
        // compact: the solid stays within +-0.6 of the origin in x and y and above z = -0.6, i.e. strictly inside the image
        // of the region even under the strong perspective transforms below
        let mut compact = matches!(i % 7, 2 | 6) || (i % 7 == 1 && i % 2 == 1);
        let b = match i % 7 {
            0 => shapes::random_csg3(&mut rng, 1 + (i / 6) % 4, true),
            1 => if i % 2 == 0 { exact_box(&mut rng) } else { sqrt_abs_octahedron(&mut rng) },
            2 => cone(0.15 + 0.1 * rng.below(5) as f32 + 0.013, 0.5 + 0.1 * rng.below(4) as f32, -0.37 - 0.1 * rng.below(2) as f32),
            3 => bumpy_slab(&mut rng, depth.max(2)),
            4 => {
                let g = [0.0f32, 0.25, -0.5, 0.1][rng.below(4)];
                compact = g.abs() <= 0.1;
                cylinder(0.2 + 0.05 * rng.below(5) as f32, -0.43, 0.31 + 0.1 * rng.below(3) as f32, g, -g)
            }
            5 => bumpy_slab(&mut rng, depth.max(3).min(4)),
            _ => {
                // a box with one corner in every octant: large planar regions, everything collapses
                let mut ctx = Context::new();
                let lo = [-rng.range(0.3, 0.55), -rng.range(0.3, 0.55), -rng.range(0.3, 0.55)];
                let hi = [rng.range(0.3, 0.55), rng.range(0.3, 0.55), rng.range(0.3, 0.55)];
                let root = shapes::box3(&mut ctx, lo, hi);
                Built { ctx, root, desc: format!("centred box {lo:?}..{hi:?}") }
            }
        };
        let depth = if matches!(i % 7, 3 | 5) { depth.max(2) } else if i % 7 == 6 { depth.max(3) } else { depth };
        // the octahedra and the compact shapes under a perspective transform are meshed finely: at depth 5 a wrong vertex
        // placement is several times the sampling resolution
        let persp = (i / 2) % 4 == 1 && i % 4 == 2 && i % 7 != 0;
        let depth = if (i % 7 == 1 && i % 2 == 1) || (persp && compact) { 5 } else { depth };
        // world-to-model transforms that keep the surface strictly inside the region
        let mut moved = Vector3::new(0.0f32, 0.0, 0.0);
        let (w2m, scale, wdesc) = match (i / 2) % 4 {
            0 => (Matrix4::identity(), 1.0f32, "identity".to_string()),
            // (not for random CSG: its unclamped QEF vertices can leave the region, and the projective divide has a pole
            // outside it)
            1 if i % 4 == 2 && i % 7 != 0 => {
                // a projective world-to-model transform (a perspective camera): model = (x, y, z) / (1 + p z).  Shapes of
                // the generator stay within +-0.6, i.e. strictly inside the image of the region; cells are up to 1 / (1 - p)
                // times larger in model space
                let pz = if compact { [0.6f32, -0.6][rng.below(2)] } else { [0.3f32, -0.25, 0.2][rng.below(3)] };
                let mut m = Matrix4::identity();
                m[(3, 2)] = pz;
                // cell size in model space where the solids are (|z| <= 0.6): at most 1 / (1 - 0.6 |p|) times the world cell
                (m, 1.0 / (1.0 - 0.6 * pz.abs()), format!("perspective {pz}"))
            }
            1 => (Matrix4::identity(), 1.0f32, "identity".to_string()),
            2 => {
                // the model-space region is far from the origin: the shape is moved along with it
                let s = 1.25 + 0.25 * rng.below(3) as f32;
                let t = [Vector3::new(1.0f32, -0.7, 0.5), Vector3::new(-0.8, 0.9, 1.1), Vector3::new(0.05, -0.04, 0.07)][rng.below(3)];
                moved = t;
                (Matrix4::new_translation(&t) * Matrix4::new_scaling(s), s, format!("scale {s} move {:?}", [t.x, t.y, t.z]))
            }
            _ => {
                let s = 1.3f32;
                let ang = 0.3 + 0.4 * rng.below(4) as f32;
                let rot = Matrix4::from_euler_angles(0.0, 0.0, ang);
                let t = Vector3::new(0.05, 0.03, -0.06);
                (Matrix4::new_translation(&t) * rot * Matrix4::new_scaling(s), s, format!("scale {s} rotate-z {ang} move"))
            }
        };
        let b = if moved != Vector3::zeros() {
            let mut b = b;
            use fidget_core::context::Tree;
            let t = b.ctx.export(b.root).unwrap();
            let t = t.remap_xyz(Tree::x() - moved.x, Tree::y() - moved.y, Tree::z() - moved.z);
            b.root = b.ctx.import(&t);
            b.desc = format!("{} moved by {:?}", b.desc, [moved.x, moved.y, moved.z]);
            b
        } else {
            b
        };
        let threads = std::env::var("C08_THREADS").ok().map(|s| s.parse().unwrap()).unwrap_or([0i64, -1, 3][i % 3]);
        run::<VmFunction>(&mut w, &mut id, "vm", &b, depth, threads, w2m, scale, &wdesc, moved, &json!({"kind": "shape", "model_ntri": -1, "model_manifold": true}));
        if i % 2 == 0 {
            run::<JitFunction>(&mut w, &mut id, "jit", &b, depth, threads, w2m, scale, &wdesc, moved, &json!({"kind": "shape", "model_ntri": -1, "model_manifold": true}));
        }
        if i % 5 == 0 {
            run::<VmFunction>(&mut w, &mut id, "vm", &b, depth, if threads == 0 { -1 } else { 0 }, w2m, scale, &wdesc, moved, &json!({"kind": "shape", "model_ntri": -1, "model_manifold": true}));
        }
    }

    // directed families (round 5 of the seeded changes): (A) the same solid written as a steep or a shallow field (the
    // field times 1e6, 1e5, 1e-4: the surface, and so the mesh, must not depend on it); (B) world-to-model rotations by
    // more than a right angle about an axis in general position (a proper rotation with negative diagonal entries);
    // (C) solids whose surface passes one or two float steps outside lattice points of the first octree levels
    {
        use fidget_core::context::Tree;
        let mk = |name: &str, f: &dyn Fn(&mut Context) -> Node| -> Built { let mut ctx = Context::new(); let root = f(&mut ctx); Built { ctx, root, desc: name.to_string() } };
        let solids: Vec<Built> = vec![
            mk("sphere 0.6", &|c| shapes::sphere(c, [0.03, -0.02, 0.05], 0.6)),
            mk("box 0.47", &|c| shapes::box3(c, [-0.47, -0.41, -0.33], [0.47, 0.52, 0.39])),
            cylinder(0.35, -0.43, 0.41, 0.0, 0.0),
            cone(0.413, 0.7, -0.37),
        ];
        let nd = if quick { 4 } else { 5 };
        for (k, b0) in solids.iter().enumerate() {
            for (q, c) in [1.0e6f32, 1.0e5, 1.0e-4].iter().enumerate() {
                if quick && (k + q) % 2 == 1 { continue; }
                let mut b = Built { ctx: Context::new(), root: b0.root, desc: format!("{} field x {c:e}", b0.desc) };
                let t = b0.ctx.export(b0.root).unwrap();
                b.root = b.ctx.import(&(t * *c));
                let kind = json!({"kind": "shape", "model_ntri": -1, "model_manifold": true});
                if (k + q) % 2 == 0 { run::<VmFunction>(&mut w, &mut id, "vm", &b, nd, [0i64, 3][q % 2], Matrix4::identity(), 1.0, "identity", Vector3::zeros(), &kind); }
                else { run::<JitFunction>(&mut w, &mut id, "jit", &b, nd, [0i64, 3][q % 2], Matrix4::identity(), 1.0, "identity", Vector3::zeros(), &kind); }
            }
            for (q, (axis, ang)) in [(Vector3::new(0.8f32, 0.6, 0.0), 2.0943951f32), (Vector3::new(0.3, -0.5, 0.8), 2.6), (Vector3::new(0.0, 0.6, 0.8), 3.0), (Vector3::new(1.0, 1.0, 1.0), 2.0943951)].iter().enumerate() {
                if quick && (k + q) % 2 == 0 { continue; }
                let rot = nalgebra::Rotation3::from_axis_angle(&nalgebra::Unit::new_normalize(*axis), *ang).to_homogeneous();
                let s = 1.2f32;
                let w2m = rot * Matrix4::new_scaling(s);
                let kind = json!({"kind": "shape", "model_ntri": -1, "model_manifold": true});
                let wdesc = format!("scale {s} rotate {ang} about {:?}", [axis.x, axis.y, axis.z]);
                if (k + q) % 2 == 0 { run::<JitFunction>(&mut w, &mut id, "jit", b0, nd, 0, w2m, s, &wdesc, Vector3::zeros(), &kind); }
                else { run::<VmFunction>(&mut w, &mut id, "vm", b0, nd, [0i64, 3][q % 2], w2m, s, &wdesc, Vector3::zeros(), &kind); }
            }
        }
        for (q, hw) in [0.50000006f32, 0.5000001, 0.25000003, 0.7500001, 0.49999997].iter().enumerate() {
            let bx = mk(&format!("box half-width {hw:?}"), &|c| shapes::box3(c, [-*hw, -*hw, -*hw], [*hw, *hw, *hw]));
            let sp = mk(&format!("sphere radius {hw:?}"), &|c| shapes::sphere(c, [0.0, 0.0, 0.0], *hw));
            let kind = json!({"kind": "shape", "model_ntri": -1, "model_manifold": true});
            for (j, b) in [bx, sp].iter().enumerate() {
                for depth in [3u8, 4] {
                    if quick && (q + j + depth as usize) % 2 == 1 { continue; }
                    if (q + j) % 2 == 0 { run::<VmFunction>(&mut w, &mut id, "vm", b, depth, [0i64, 3][q % 2], Matrix4::identity(), 1.0, "identity", Vector3::zeros(), &kind); }
                    else { run::<JitFunction>(&mut w, &mut id, "jit", b, depth, 0, Matrix4::identity(), 1.0, "identity", Vector3::zeros(), &kind); }
                }
            }
        }
        // (D) fields whose gradient vanishes on the whole surface (the cube of a distance field: same solid, same surface,
        // zero gradient at every crossing) or is infinite there (the cube root, written sign(s) * sqrt(sqrt(s*s)) is not
        // expressible; the square root of a shifted field is): the mesh must still be finite, closed and of the right volume
        for (q, b0) in solids.iter().enumerate().take(3) {
            let t = b0.ctx.export(b0.root).unwrap();
            let cubed = t.clone() * t.clone() * t.clone();
            let mut b = Built { ctx: Context::new(), root: b0.root, desc: format!("{} cubed", b0.desc) };
            b.root = b.ctx.import(&cubed);
            let kind = json!({"kind": "shape", "model_ntri": -1, "model_manifold": true});
            if q % 2 == 0 { run::<VmFunction>(&mut w, &mut id, "vm", &b, nd, 0, Matrix4::identity(), 1.0, "identity", Vector3::zeros(), &kind); }
            else { run::<JitFunction>(&mut w, &mut id, "jit", &b, nd, 3, Matrix4::identity(), 1.0, "identity", Vector3::zeros(), &kind); }
        }
        let _ = Tree::x();
    }
    w.flush().unwrap();
    eprintln!("c08: {id} meshes");
}
