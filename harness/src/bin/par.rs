//! C09 recorder: the same workload with no pool and pools of 1..16 threads,
//! with the cancel token set before, after exactly k polls, or never
//! (k counted by the cancel-poll hook, so no wall-clock timing is involved),
//! and one JIT tape evaluated concurrently from many threads.
//! Usage: par <quick|thorough> <out.ndjson>
use fidget_core::{
    eval::{BulkEvaluator, Function, MathFunction, TracingEvaluator},
    render::{CancelToken, ImageSize, RenderHints, ThreadPool, TileSizes, VoxelSize},
    shape::{Shape, ShapeVars},
    verif,
    vm::VmFunction,
};
use fidget_jit::JitFunction;
use fidget_mesh::{Octree, Settings};
use fidget_raster::{pixel, voxel};
use nalgebra::{Matrix3, Matrix4};
use serde_json::json;
use std::io::Write;
use std::sync::{atomic::{AtomicI64, AtomicU64, Ordering}, Arc, Mutex};
use vharness::{
    evalx::*,
    keys::{bits, seed_from_env, Rng},
    pgen::{Inst, Mode},
    shapes::{self, Built},
};

fn fnv(data: impl Iterator<Item = u32>) -> [i64; 2] {
    let mut h: u64 = 0xcbf29ce484222325;
    for d in data {
        for b in d.to_le_bytes() {
            h ^= b as u64;
            h = h.wrapping_mul(0x100000001b3);
        }
    }
    [(h & 0x7fff_ffff) as i64, ((h >> 32) & 0x7fff_ffff) as i64]
}

fn pool(n: usize) -> ThreadPool {
    ThreadPool::Custom(rayon::ThreadPoolBuilder::new().num_threads(n).build().unwrap())
}

struct Obs {
    polls: Vec<i64>,
}

/// `cancel_after` values at or below MID ask for the token to be set at the (MID - cancel_after)-th native bulk call
const MID: i64 = -1000;

/// Runs `f` with the hooks installed: polls are recorded, the token is set after exactly
/// `cancel_after` polls (0 = before the run, -1 = never), task starts are perturbed.
fn with_hooks<R>(token: &CancelToken, cancel_after: i64, seed: u64, f: impl FnOnce() -> R) -> (R, Obs) {
    let polls = Arc::new(Mutex::new(Vec::<i64>::new()));
    let count = Arc::new(AtomicI64::new(0));
    let bulk = Arc::new(AtomicI64::new(0));
    let (p2, c2, t2, b2) = (polls.clone(), count.clone(), token.clone(), bulk.clone());
    verif::set_sink(Some(Arc::new(move |e: verif::Event| {
        if e.name == "poll" {
            let flag = e.fields.iter().find(|(k, _)| *k == "cancelled").map(|(_, v)| *v).unwrap_or(0);
            p2.lock().unwrap().push(flag);
            let n = c2.fetch_add(1, Ordering::SeqCst) + 1;
            if cancel_after > 0 && n == cancel_after {
                t2.cancel();
            }
        } else if e.name == "bulk_call" && cancel_after <= MID {
            // cancellation in the middle of a task: the JIT's bulk driver reports every native call, which happens while
            // a tile is being worked on; the token is set at the k-th such call (cancel_after = MID - k)
            let n = b2.fetch_add(1, Ordering::SeqCst) + 1;
            if n == MID - cancel_after {
                t2.cancel();
            }
        }
    })));
    let ctr = Arc::new(AtomicU64::new(seed));
    verif::set_schedule_callback(Some(Arc::new(move |_name, id| {
        // perturb the interleaving: spin for a pseudo-random short while
        let x = ctr.fetch_add(0x9E3779B97F4A7C15, Ordering::Relaxed) ^ id.wrapping_mul(0x2545F4914F6CDD1D);
        let spins = (x >> 40) % 4000;
        for _ in 0..spins {
            std::hint::spin_loop();
        }
        if x % 5 == 0 {
            std::thread::yield_now();
        }
    })));
    if cancel_after == 0 {
        token.cancel();
    }
    let r = f();
    verif::set_sink(None);
    verif::set_schedule_callback(None);
    let polls = std::mem::take(&mut *polls.lock().unwrap());
    (r, Obs { polls })
}

struct Cx<'a> {
    w: &'a mut dyn Write,
    id: usize,
}

fn emit(cx: &mut Cx, kind: &str, backend: &str, threads: i64, cancel_after: i64, obs: &Obs, res: Result<Option<[i64; 2]>, String>, reference: [i64; 2], desc: &str) {
    let (result, digest, panic) = match res {
        Ok(Some(d)) => ("some", d, String::new()),
        Ok(None) => ("none", [0, 0], String::new()),
        Err(m) => ("panic", [0, 0], m),
    };
    let j = json!({"ev": "run", "id": cx.id, "kind": kind, "backend": backend, "threads": threads, "cancel_after": cancel_after,
        "polls": obs.polls, "result": result, "digest": digest, "ref": reference, "panic": panic, "desc": desc});
    writeln!(cx.w, "{j}").unwrap();
    cx.id += 1;
}

fn digest2(img: &pixel::Image) -> [i64; 2] {
    fnv(img.iter().map(|p| match p.unpack() {
        pixel::DistancePixel::Value(v) => v.to_bits(),
        pixel::DistancePixel::Fill { inside, .. } => 0xF000_0000 | inside as u32, // fill depth is a tiling detail
    }))
}
fn digest3(img: &voxel::Image) -> [i64; 2] {
    fnv(img.iter().flat_map(|p| [p.depth, p.normal[0].to_bits(), p.normal[1].to_bits(), p.normal[2].to_bits()]))
}
fn digest_mesh(m: &fidget_mesh::Mesh) -> [i64; 2] {
    // a set of triangles over vertex positions: canonical rotation of each triangle, then sorted
    let mut tris: Vec<[[u32; 3]; 3]> = m.triangles.iter().map(|t| {
        let v: Vec<[u32; 3]> = (0..3).map(|k| { let p = m.vertices[t[k]]; [p.x.to_bits(), p.y.to_bits(), p.z.to_bits()] }).collect();
        let r = (0..3).min_by_key(|k| v[*k]).unwrap();
        [v[r], v[(r + 1) % 3], v[(r + 2) % 3]]
    }).collect();
    tris.sort();
    fnv(tris.into_iter().flat_map(|t| t.into_iter().flat_map(|v| v.into_iter())))
}

fn thread_choices(quick: bool, k: usize) -> Vec<i64> {
    // 0 = no pool, -1 = global pool, n = custom pool of n threads
    if quick { vec![0, -1, [1, 2, 3][k % 3], [4, 5, 8, 16][k % 4]] } else { vec![0, -1, 1, 2, 3, 4, 5, 8, 12, 16] }
}

fn run2<F: Function + RenderHints + MathFunction + Clone>(cx: &mut Cx, backend: &str, b: &Built, quick: bool, k: usize, rng: &mut Rng) {
    run2_with::<F>(cx, backend, b, quick, k, rng, None)
}
fn run2_with<F: Function + RenderHints + MathFunction + Clone>(cx: &mut Cx, backend: &str, b: &Built, quick: bool, k: usize, rng: &mut Rng, deep: Option<&[usize]>) {
    let shape = Shape::<F>::new(&b.ctx, b.root).unwrap();
    let vars = ShapeVars::<f32>::new();
    let (w, h) = [(64u32, 64u32), (96, 40), (50, 70)][k % 3];
    let tiles: &[usize] = deep.unwrap_or([&[16usize, 4][..], &[8, 2], &[32, 8]][k % 3]);
    let perfect = k % 2 == 0;
    let ntasks = (w as usize).div_ceil(tiles[0]) * (h as usize).div_ceil(tiles[0]);
    // shapes that depend on z are cut at a slice height that changes from case to case (the pools, the global one in
    // particular, live on: whatever a thread keeps from one render is still there in the next)
    let z = if b.desc.starts_with("boxes") { [-0.3f32, 0.2, 0.45, -0.6][k % 4] } else { 0.0 };
    let render = |threads: i64, token: CancelToken| -> Option<[i64; 2]> {
        let cfg = pixel::RenderConfig { image_size: ImageSize::new(w, h), world_to_model: Matrix3::identity(), pixel_perfect: perfect, z };
        let tp = match threads { 0 => None, -1 => Some(ThreadPool::Global), n => Some(pool(n as usize)) };
        let ecfg = pixel::EvalConfig { tile_sizes: Some(TileSizes::new(tiles).unwrap()), threads: tp.as_ref(), cancel: token };
        pixel::render(shape.bind(&vars).unwrap(), &cfg, &ecfg).map(|i| digest2(&i))
    };
    let reference = render(0, CancelToken::new()).unwrap();
    for t in thread_choices(quick, k) {
        let mut ks: Vec<i64> = vec![-1, 0, 1, (ntasks as i64) / 2, ntasks as i64 - 1, ntasks as i64, ntasks as i64 + 5];
        if quick { ks = vec![-1, 0, 1 + rng.below(ntasks.max(2) - 1) as i64, ntasks as i64]; }
        if backend == "jit" {
            ks.extend([MID - 1, MID - 2 - rng.below(30) as i64]);
        }
        for ca in ks {
            let token = CancelToken::new();
            let (r, obs) = with_hooks(&token, ca, rng.next(), || vharness::catch(std::panic::AssertUnwindSafe(|| render(t, token.clone()))));
            emit(cx, "render2d", backend, t, ca, &obs, r, reference, &b.desc);
        }
    }
}

fn run3<F: Function + RenderHints + MathFunction + Clone>(cx: &mut Cx, backend: &str, b: &Built, quick: bool, k: usize, rng: &mut Rng) {
    run3_with::<F>(cx, backend, b, quick, k, rng, None)
}
fn run3_with<F: Function + RenderHints + MathFunction + Clone>(cx: &mut Cx, backend: &str, b: &Built, quick: bool, k: usize, rng: &mut Rng, deep: Option<&[usize]>) {
    let shape = Shape::<F>::new(&b.ctx, b.root).unwrap();
    let vars = ShapeVars::<f32>::new();
    // the last one is a single root tile in XY and several root tiles deep: all polls happen before any work
    let size = [(32u32, 32u32, 32u32), (24, 40, 20), (40, 16, 33), (16, 16, 64)][k % 4];
    let tiles: &[usize] = deep.unwrap_or([&[8usize, 4][..], &[8], &[16, 4], &[16, 4]][k % 4]);
    let ntasks = (size.0 as usize).div_ceil(tiles[0]) * (size.1 as usize).div_ceil(tiles[0]);
    let render = |threads: i64, token: CancelToken| -> Option<[i64; 2]> {
        let cfg = voxel::RenderConfig { image_size: VoxelSize::new(size.0, size.1, size.2), world_to_model: Matrix4::identity() };
        let tp = match threads { 0 => None, -1 => Some(ThreadPool::Global), n => Some(pool(n as usize)) };
        let ecfg = voxel::EvalConfig { tile_sizes: Some(TileSizes::new(tiles).unwrap()), threads: tp.as_ref(), cancel: token };
        voxel::render(shape.bind(&vars).unwrap(), &cfg, &ecfg).map(|i| digest3(&i))
    };
    let reference = render(0, CancelToken::new()).unwrap();
    for t in thread_choices(quick, k) {
        let mut ks: Vec<i64> = vec![-1, 0, 1, (ntasks as i64) / 2, ntasks as i64 - 1, ntasks as i64 + 3];
        if quick { ks = vec![-1, 0, 1 + rng.below(ntasks.max(2) - 1) as i64]; }
        if backend == "jit" {
            // in the middle of a tile, after 1, a few or many native calls
            ks.extend([MID - 1, MID - 3 - rng.below(20) as i64, MID - 40 - rng.below(400) as i64]);
        }
        for ca in ks {
            let token = CancelToken::new();
            let (r, obs) = with_hooks(&token, ca, rng.next(), || vharness::catch(std::panic::AssertUnwindSafe(|| render(t, token.clone()))));
            emit(cx, "render3d", backend, t, ca, &obs, r, reference, &b.desc);
        }
    }
}

fn run_mesh<F: Function + RenderHints + MathFunction + Clone>(cx: &mut Cx, backend: &str, b: &Built, quick: bool, k: usize, rng: &mut Rng) {
    run_mesh_with::<F>(cx, backend, b, quick, k, rng, None)
}
/// `directed`: (depth, pools to try) for the flat-faced solids on cell boundaries; every pool size is tried, uncancelled
fn run_mesh_with<F: Function + RenderHints + MathFunction + Clone>(cx: &mut Cx, backend: &str, b: &Built, quick: bool, k: usize, rng: &mut Rng, directed: Option<(u8, &[i64])>) {
    let shape = Shape::<F>::new(&b.ctx, b.root).unwrap();
    let vars = ShapeVars::<f32>::new();
    // depth 0 and 1: fewer cells than a pool wants tasks (at depth 0 the root itself is the only task)
    let depth = directed.map(|d| d.0).unwrap_or([2u8, 3, 0, 4, 5, 1][k % 6]);
    let mut w2m = Matrix4::identity();
    if k % 3 == 1 && directed.is_none() {
        w2m[(0, 0)] = 1.25;
        w2m[(1, 3)] = 0.1;
    }
    let mesh = |threads: i64, token: CancelToken| -> Option<[i64; 2]> {
        let tp = match threads { 0 => None, -1 => Some(ThreadPool::Global), n => Some(pool(n as usize)) };
        let settings = Settings { depth, world_to_model: w2m, threads: tp.as_ref(), cancel: token };
        let bound = shape.bind(&vars).unwrap();
        Octree::build(&bound, &settings).map(|o| digest_mesh(&o.walk_dual()))
    };
    let reference = mesh(0, CancelToken::new()).unwrap();
    for t in directed.map(|d| d.1.to_vec()).unwrap_or_else(|| thread_choices(quick, k)) {
        let mut ks: Vec<i64> = vec![-1, 0, 1, 3, 9, 40, 200, 100000];
        if quick { ks = vec![-1, 0, 1 + rng.below(60) as i64, 100000]; }
        if directed.is_some() { ks = vec![-1]; }
        for ca in ks {
            let token = CancelToken::new();
            let (r, obs) = with_hooks(&token, ca, rng.next(), || vharness::catch(std::panic::AssertUnwindSafe(|| mesh(t, token.clone()))));
            // keep the record small: polls are summarised for meshes (one poll per cell)
            let obs = Obs { polls: vec![obs.polls.iter().filter(|p| **p == 1).count() as i64, obs.polls.len() as i64] };
            let mut j_obs = obs;
            j_obs.polls = if j_obs.polls[0] > 0 { vec![1] } else { vec![0] };
            emit(cx, "mesh", backend, t, ca, &j_obs, r, reference, &b.desc);
        }
    }
}

/// one JIT tape evaluated concurrently from many threads
fn shared_tape(cx: &mut Cx, rng: &mut Rng, nthreads: usize) {
    let mut inst = Inst::new(rng.next(), Mode::All, 3);
    let ap = inst.random_abstract(40, 14, 2);
    let p = inst.instantiate(&ap);
    let Ok(f) = jit_fn(&p) else { return };
    let pts: Vec<Vec<f32>> = (0..64).map(|_| (0..3).map(|_| rng.range(-3.0, 3.0)).collect()).collect();
    let ptape = f.point_tape(Default::default());
    let ftape = f.float_slice_tape(Default::default());
    let solo: Vec<Vec<i64>> = {
        let mut e = JitFunction::new_point_eval();
        pts.iter().map(|q| e.eval(&ptape, q).unwrap().0.iter().map(|v| bits(*v)).collect()).collect()
    };
    let cols: Vec<Vec<f32>> = (0..3).map(|v| pts.iter().map(|q| q[v]).collect()).collect();
    let solo_bulk: Vec<Vec<i64>> = {
        let mut e = JitFunction::new_float_slice_eval();
        let o = e.eval(&ftape, &cols).unwrap();
        (0..o.len()).map(|i| o[i].iter().map(|v| bits(*v)).collect()).collect()
    };
    let same: Vec<bool> = std::thread::scope(|s| {
        let hs: Vec<_> = (0..nthreads).map(|t| {
            let (ptape, ftape, pts, cols, solo, solo_bulk) = (&ptape, &ftape, &pts, &cols, &solo, &solo_bulk);
            s.spawn(move || {
                let mut ok = true;
                let mut e = JitFunction::new_point_eval();
                let mut be = JitFunction::new_float_slice_eval();
                for rep in 0..20 {
                    for (k, q) in pts.iter().enumerate() {
                        if (k + t + rep) % 3 == 0 {
                            let o: Vec<i64> = e.eval(ptape, q).unwrap().0.iter().map(|v| bits(*v)).collect();
                            ok &= o == solo[k];
                        }
                    }
                    let o = be.eval(ftape, cols).unwrap();
                    let ob: Vec<Vec<i64>> = (0..o.len()).map(|i| o[i].iter().map(|v| bits(*v)).collect()).collect();
                    ok &= &ob == solo_bulk;
                }
                ok
            })
        }).collect();
        hs.into_iter().map(|h| h.join().unwrap_or(false)).collect()
    });
    let j = json!({"ev": "shared", "id": cx.id, "threads": nthreads, "same": same});
    writeln!(cx.w, "{j}").unwrap();
    cx.id += 1;
}

fn main() {
    let args: Vec<String> = std::env::args().collect();
    let quick = args[1] == "quick";
    let mut file = std::io::BufWriter::new(std::fs::File::create(&args[2]).unwrap());
    let mut cx = Cx { w: &mut file, id: 0 };
    let mut rng = Rng::new(seed_from_env().wrapping_add(909));
    let n = if quick { 6 } else { 40 };
    for k in 0..n {
        let b2 = shapes::random_csg2(&mut rng, 2 + k % 5);
        if k % 2 == 0 { run2::<VmFunction>(&mut cx, "vm", &b2, quick, k, &mut rng); } else { run2::<JitFunction>(&mut cx, "jit", &b2, quick, k, &mut rng); }
        let b3 = shapes::random_csg3(&mut rng, 1 + k % 4, true);
        if k % 2 == 1 { run3::<VmFunction>(&mut cx, "vm", &b3, quick, k, &mut rng); } else { run3::<JitFunction>(&mut cx, "jit", &b3, quick, k, &mut rng); }
        let bm = shapes::random_csg3(&mut rng, 1 + k % 3, true);
        if k % 2 == 0 { run_mesh::<VmFunction>(&mut cx, "vm", &bm, quick, k, &mut rng); } else { run_mesh::<JitFunction>(&mut cx, "jit", &bm, quick, k, &mut rng); }
    }
    // directed families.  (a) flat-faced solids whose faces lie on (or one float step off) cell boundaries of the first
    // split levels, and flat parts larger than a task cell, at depths 3 and 4 under pools of every size: the task split
    // depends on the pool (min(8^depth, 10 x threads) tasks), collapsed leaves cross the task boundary
    {
        use vharness::shapes::{box3, sphere};
        let solids: Vec<(&str, Box<dyn Fn(&mut fidget_core::Context) -> fidget_core::context::Node>)> = vec![
            ("box +-0.5", Box::new(|c| box3(c, [-0.5, -0.5, -0.5], [0.5, 0.5, 0.5]))),
            ("box -0.75..0.25", Box::new(|c| box3(c, [-0.75, -0.25, -0.5], [0.25, 0.75, 0.5]))),
            ("box +-0.6", Box::new(|c| box3(c, [-0.6, -0.6, -0.6], [0.6, 0.6, 0.6]))),
            ("slab", Box::new(|c| box3(c, [-0.8, -0.8, -0.1], [0.8, 0.8, 0.25]))),
            ("box and sphere", Box::new(|c| { let a = box3(c, [-0.5, -0.5, -0.5], [0.5, 0.5, 0.0]); let b = sphere(c, [0.0, 0.0, 0.2], 0.45); c.min(a, b).unwrap() })),
            ("box one step above 0.5", Box::new(|c| box3(c, [-0.50000006, -0.50000006, -0.50000006], [0.50000006, 0.50000006, 0.50000006]))),
        ];
        let pools: &[i64] = if quick { &[2, 3, 5, 8, 16] } else { &[-1, 1, 2, 3, 4, 5, 8, 12, 16] };
        for (k, (name, build)) in solids.iter().enumerate() {
            let mut ctx = fidget_core::Context::new();
            let root = build(&mut ctx);
            let b = Built { ctx, root, desc: format!("directed {name}") };
            // (at depth 2 a pool of 2 .. 5 threads puts the task frontier across the maximum depth: some tasks are single leaves)
            for depth in [2u8, 3, 4] {
                if quick && depth > 2 && (k + depth as usize) % 2 == 1 && k > 2 { continue; }
                if k % 2 == 0 { run_mesh_with::<VmFunction>(&mut cx, "vm", &b, quick, k, &mut rng, Some((depth, pools))); }
                else { run_mesh_with::<JitFunction>(&mut cx, "jit", &b, quick, k, &mut rng, Some((depth, pools))); }
            }
        }
    }
    // (b) renders with three to five tile levels of shapes made of many like parts (unions of rectangles, rows of boxes):
    // every worker's render handle sees simplification after simplification with recurring traces, and which tiles a
    // worker sees depends on the pool
    for k in 0..(if quick { 6 } else { 40 }) {
        let mut ctx = fidget_core::Context::new();
        let mut acc: Option<fidget_core::context::Node> = None;
        for _ in 0..(3 + rng.below(8)) {
            let (x0, y0) = (rng.range(-1.0, 0.8), rng.range(-1.0, 0.8));
            let r = vharness::shapes::rect2(&mut ctx, x0, x0 + rng.range(0.05, 0.7), y0, y0 + rng.range(0.05, 0.7));
            acc = Some(match acc { None => r, Some(p) => ctx.min(p, r).unwrap() });
        }
        let b2 = Built { ctx, root: acc.unwrap(), desc: "rectangles".into() };
        let deep2: &[usize] = [&[16usize, 8, 4, 2, 1][..], &[32, 8, 2], &[16, 4, 2]][k % 3];
        if k % 2 == 0 { run2_with::<VmFunction>(&mut cx, "vm", &b2, quick, k, &mut rng, Some(deep2)); } else { run2_with::<JitFunction>(&mut cx, "jit", &b2, quick, k, &mut rng, Some(deep2)); }
        let mut ctx = fidget_core::Context::new();
        let mut acc: Option<fidget_core::context::Node> = None;
        for _ in 0..(2 + rng.below(6)) {
            let lo = [rng.range(-1.0, 0.7), rng.range(-1.0, 0.7), rng.range(-1.0, 0.5)];
            let r = vharness::shapes::box3(&mut ctx, lo, [lo[0] + rng.range(0.1, 0.8), lo[1] + rng.range(0.1, 0.8), lo[2] + rng.range(0.1, 0.9)]);
            acc = Some(match acc { None => r, Some(p) => ctx.min(p, r).unwrap() });
        }
        let b3 = Built { ctx, root: acc.unwrap(), desc: "boxes".into() };
        let deep3: &[usize] = [&[16usize, 8, 4][..], &[8, 4, 2], &[16, 4, 2]][k % 3];
        if k % 2 == 1 { run3_with::<VmFunction>(&mut cx, "vm", &b3, quick, k, &mut rng, Some(deep3)); } else { run3_with::<JitFunction>(&mut cx, "jit", &b3, quick, k, &mut rng, Some(deep3)); }
        // the same solid as a 2D slice, at a height that differs from the previous case's
        if k % 2 == 0 { run2_with::<VmFunction>(&mut cx, "vm", &b3, quick, k, &mut rng, Some(deep2)); } else { run2_with::<JitFunction>(&mut cx, "jit", &b3, quick, k, &mut rng, Some(deep2)); }
    }
    for k in 0..(if quick { 4 } else { 30 }) {
        shared_tape(&mut cx, &mut rng, [16, 8, 3, 12][k % 4]);
    }
    let n = cx.id;
    file.flush().unwrap();
    vharness::evalx::exit_on_build_failures("par");
    eprintln!("par: {n} records");
}
