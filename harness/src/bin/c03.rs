//! C03 recorder: interval evaluation (VM and JIT, with and without a
//! transform) against point evaluation at points of the box.
//! Usage: c03 <tlc-programs-file|-> <quick|thorough> <out.ndjson>
use fidget_core::{
    context::{Context, Node},
    eval::{Function, MathFunction},
    shape::{EzShape, Shape, ShapeVars},
    types::Interval,
    vm::{VmFunction, VmTrace},
};
use fidget_jit::JitFunction;
use nalgebra::Matrix4;
use serde_json::{json, Value};
use std::collections::HashMap;
use std::io::Write;
use vharness::{
    evalx::*,
    keys::{bits, seed_from_env, unbits, Rng, SPECIALS},
    pgen::{self, Inst, Mode},
    tapes::{export_all_slots, Prog},
};

use std::f32::consts::PI;

/// boxes: degenerate, tiny, huge, straddling zero, straddling quadrant boundaries and poles
fn gen_box(rng: &mut Rng, nvars: usize, class: usize) -> Vec<Interval> {
    (0..nvars)
        .map(|_| {
            let c = match rng.below(6) {
                0 => *rng.pick(&[0.0f32, 1.0, -1.0, PI / 2.0, PI, -PI / 2.0, 3.0 * PI / 2.0, 2.0 * PI, 0.5, -0.5]),
                1 => {
                    let s = *rng.pick(&SPECIALS);
                    if s.is_finite() { s } else { 0.0 }
                }
                _ => rng.range(-6.0, 6.0),
            };
            match class % 6 {
                0 => Interval::new(c, c),
                1 => {
                    let w = rng.range(0.0, 1.0e-3) * c.abs().max(1.0e-30);
                    Interval::new(c - w, c + w)
                }
                2 => {
                    let w = rng.range(0.0, 1.0);
                    Interval::new(c - w, c + w)
                }
                3 => {
                    let w = rng.range(0.0, 8.0);
                    Interval::new(c - w, c + w)
                }
                4 => {
                    // huge
                    let a = *rng.pick(&[1.0e10f32, 1.0e20, 1.0e30, 3.0e38, f32::MAX]);
                    let lo = if rng.below(2) == 0 { -a } else { c.min(a) };
                    Interval::new(lo.min(a), a)
                }
                _ => {
                    // touching zero
                    let w = rng.range(0.0, 3.0);
                    if rng.below(2) == 0 { Interval::new(0.0, w) } else { Interval::new(-w, 0.0) }
                }
            }
        })
        .collect()
}

fn box_samples(rng: &mut Rng, b: &[Interval], extra: usize) -> Vec<Vec<f32>> {
    let n = b.len();
    let mut pts: Vec<Vec<f32>> = vec![];
    for mask in 0..(1usize << n.min(3)) {
        pts.push((0..n).map(|k| if (mask >> (k % 3)) & 1 == 1 { b[k].upper() } else { b[k].lower() }).collect());
    }
    let mid = |i: &Interval| {
        let m = i.lower() * 0.5 + i.upper() * 0.5;
        m.clamp(i.lower(), i.upper())
    };
    pts.push(b.iter().map(mid).collect());
    // edge midpoints
    for k in 0..n.min(3) {
        let mut p: Vec<f32> = b.iter().map(|i| i.lower()).collect();
        p[k] = mid(&b[k]);
        pts.push(p);
    }
    for _ in 0..extra {
        pts.push(
            b.iter()
                .map(|i| {
                    let t = rng.unit();
                    let v = i.lower() * (1.0 - t) + i.upper() * t;
                    if v.is_finite() { v.clamp(i.lower(), i.upper()) } else { mid(i) }
                })
                .collect(),
        );
    }
    pts.dedup();
    pts
}

struct Cx<'a> {
    w: &'a mut dyn Write,
    id: usize,
}

/// local obligations: every node of an all-slots-exported program
fn nodes<F: Function<Trace = VmTrace>>(cx: &mut Cx, backend: &str, f: &F, p: &Prog, map: &HashMap<i64, i64>, bx: &[Interval], pts: &[Vec<f32>], point_outs: &[Vec<f32>]) {
    let it = interval_trace(f, bx);
    if !it.err.is_empty() || it.out.len() != p.nout() {
        let j = json!({"ev": "evalfail", "id": cx.id, "backend": backend, "err": it.err, "panic": it.panic, "box": bx.iter().map(ibits).collect::<Vec<_>>()});
        writeln!(cx.w, "{j}").unwrap();
        cx.id += 1;
        return;
    }
    let iv = |slot: i64| ibits(&it.out[map[&slot] as usize]);
    let imm_iv = |b: i64| [b, b];
    let mut ops = vec![];
    for g in p.ssa.iter().rev() {
        let pv = |s: usize, slot: i64| bits(point_outs[s][map[&slot] as usize]);
        let (a, b, sam): (Value, Value, Vec<Value>) = match g.class {
            0 | 2 => continue,
            1 => {
                // an input: the interval must be the box side, the point the sample coordinate
                let bi = ibits(&bx[g.a as usize]);
                (json!(bi), json!([0, 0]), (0..pts.len()).map(|s| json!([bits(pts[s][g.a as usize]), 0, pv(s, g.out)])).collect())
            }
            3 => (json!(iv(g.a)), json!([0, 0]), (0..pts.len()).map(|s| json!([pv(s, g.a), 0, pv(s, g.out)])).collect()),
            4 => (json!(iv(g.a)), json!(imm_iv(g.imm)), (0..pts.len()).map(|s| json!([pv(s, g.a), g.imm, pv(s, g.out)])).collect()),
            5 => (json!(imm_iv(g.imm)), json!(iv(g.a)), (0..pts.len()).map(|s| json!([g.imm, pv(s, g.a), pv(s, g.out)])).collect()),
            _ => (json!(iv(g.a)), json!(iv(g.b)), (0..pts.len()).map(|s| json!([pv(s, g.a), pv(s, g.b), pv(s, g.out)])).collect()),
        };
        ops.push(json!([g.name, g.class, a, b, iv(g.out), sam]));
    }
    let j = json!({"ev": "nodes", "id": cx.id, "backend": backend, "ops": ops});
    writeln!(cx.w, "{j}").unwrap();
    cx.id += 1;
}

/// whole programs: the property as stated
fn e2e<F: Function<Trace = VmTrace>>(cx: &mut Cx, backend: &str, f: &F, pf: &impl Fn(&[f32]) -> Vec<f32>, nout: usize, bx: &[Interval], pts: &[Vec<f32>], excluded: bool, p: &Prog) {
    let it = interval_trace(f, bx);
    let samples: Vec<Vec<i64>> = pts.iter().map(|p| pf(p).iter().map(|v| bits(*v)).collect()).collect();
    let j = json!({"ev": "e2e", "id": cx.id, "backend": backend, "nout": nout, "err": it.err, "panic": it.panic,
        "box": bx.iter().map(ibits).collect::<Vec<_>>(), "out": it.out.iter().map(ibits).collect::<Vec<_>>(),
        "pts": pts.iter().map(|p| p.iter().map(|v| bits(*v)).collect::<Vec<_>>()).collect::<Vec<_>>(),
        "samples": samples, "excluded": excluded, "ssa": vharness::tapes::ops_json(&p.ssa)});
    writeln!(cx.w, "{j}").unwrap();
    cx.id += 1;
}

/// atan2 whose two arguments can both be zero is outside the claim
fn has_atan2(p: &Prog) -> bool {
    p.ssa.iter().any(|g| g.name == "Atan" && g.class >= 4)
}

fn ctx_bin(ctx: &mut Context, k: usize, a: Node, b: Node) -> Node {
    match k % 9 {
        0 => ctx.add(a, b), 1 => ctx.sub(a, b), 2 => ctx.mul(a, b), 3 => ctx.div(a, b), 4 => ctx.min(a, b),
        5 => ctx.max(a, b), 6 => ctx.compare(a, b), 7 => ctx.modulo(a, b), _ => ctx.and(a, b),
    }
    .unwrap()
}
fn ctx_un(ctx: &mut Context, k: usize, a: Node) -> Node {
    match k % 12 {
        0 => ctx.neg(a), 1 => ctx.abs(a), 2 => ctx.recip(a), 3 => ctx.sqrt(a), 4 => ctx.square(a), 5 => ctx.sin(a),
        6 => ctx.cos(a), 7 => ctx.tan(a), 8 => ctx.atan(a), 9 => ctx.exp(a), 10 => ctx.floor(a), _ => ctx.not(a),
    }
    .unwrap()
}

/// shapes over x, y, z with a (float, affine or projective) transform matrix
fn transformed<F: MathFunction + Function<Trace = VmTrace> + Clone>(cx: &mut Cx, backend: &str, rng: &mut Rng, count: usize) {
    for k in 0..count {
        let mut ctx = Context::new();
        let (x, y, z) = (ctx.x(), ctx.y(), ctx.z());
        let mut pool = vec![x, y, z];
        // every sixth case: a strong perspective row whose w changes sign inside the box (the transformed box is unbounded:
        // the projective divide has a pole), under a very simple expression so that nothing else explains a NaN interval
        let pole = k % 6 == 5;
        for _ in 0..(if pole { rng.below(3) } else { 2 + rng.below(10) }) {
            let a = pool[rng.below(pool.len())];
            let t = if rng.below(2) == 0 {
                let b = if rng.below(3) == 0 { ctx.constant(rng.range(-2.0, 2.0)) } else { pool[rng.below(pool.len())] };
                ctx_bin(&mut ctx, rng.below(9), a, b)
            } else {
                ctx_un(&mut ctx, rng.below(12), a)
            };
            pool.push(t);
        }
        let root = *pool.last().unwrap();
        let shape = Shape::<F>::new(&ctx, root).unwrap();
        // matrix: rotation-ish / scale / shear / translation, sometimes a perspective bottom row
        let mut m = Matrix4::<f32>::identity();
        for i in 0..3 {
            for j in 0..4 {
                if rng.below(3) == 0 {
                    m[(i, j)] = rng.range(-2.0, 2.0);
                }
            }
        }
        if k % 3 == 0 {
            m[(3, rng.below(3))] = rng.range(-0.3, 0.3);
            if rng.below(2) == 0 {
                m[(3, 3)] = rng.range(0.5, 2.0);
            }
        }
        let mut bx: Vec<Interval> = (0..3).map(|_| { let c = rng.range(-2.0, 2.0); let w = if rng.below(4) == 0 { 0.0 } else { rng.range(0.0, 1.0) }; Interval::new(c - w, c + w) }).collect();
        if pole {
            let j = rng.below(3);
            let pz = rng.range(0.4, 1.5) * if rng.below(2) == 0 { 1.0 } else { -1.0 };
            for c in 0..4 {
                m[(3, c)] = if c == j { pz } else if c == 3 { 1.0 } else { 0.0 };
            }
            // w = 1 + pz * v vanishes at v = -1 / pz: put that value strictly inside the box on axis j
            let v0 = -1.0 / pz;
            bx[j] = Interval::new(v0 - rng.range(0.2, 1.5), v0 + rng.range(0.2, 1.5));
        }
        let pts = box_samples(rng, &bx, 6);
        let use_mat = k % 4 != 3;
        let mat = if use_mat { Some(&m) } else { None };
        let mut ie = Shape::<F>::new_interval_eval();
        let itape = shape.ez_interval_tape();
        let none = ShapeVars::<f32>::new();
        let r = vharness::catch(std::panic::AssertUnwindSafe(|| ie.eval_raw(&itape, bx[0], bx[1], bx[2], mat, &none).map(|(v, _)| v)));
        let (out, err, panic) = match r {
            Ok(Ok(v)) => (vec![ibits(&v)], String::new(), false),
            Ok(Err(e)) => (vec![], format!("{e}"), false),
            Err(msg) => (vec![], msg, true),
        };
        let ptape = shape.ez_point_tape();
        let mut pe = Shape::<F>::new_point_eval();
        let samples: Vec<Vec<i64>> = pts.iter().map(|p| match pe.eval_raw(&ptape, p[0], p[1], p[2], mat, &none) { Ok((v, _)) => vec![bits(v)], Err(_) => vec![] }).collect();
        let j = json!({"ev": "e2e", "id": cx.id, "backend": format!("{backend}-shape{}", if use_mat { "-mat" } else { "" }), "nout": 1, "err": err, "panic": panic,
            "box": bx.iter().map(ibits).collect::<Vec<_>>(), "out": out,
            "pts": pts.iter().map(|p| p.iter().map(|v| bits(*v)).collect::<Vec<_>>()).collect::<Vec<_>>(),
            "samples": samples, "excluded": false, "mat": m.as_slice().iter().map(|v| bits(*v)).collect::<Vec<_>>()});
        writeln!(cx.w, "{j}").unwrap();
        cx.id += 1;
    }
}

// ---- class-directed single-op cases (classes enumerated by spec/IntervalClasses.tla) ----------
fn next_up(v: f32) -> f32 {
    if v.is_nan() || v == f32::INFINITY { return v; }
    if v == 0.0 { return f32::from_bits(1); }
    let b = v.to_bits();
    f32::from_bits(if v > 0.0 { b + 1 } else { b - 1 })
}
fn next_down(v: f32) -> f32 {
    -next_up(-v)
}

fn sign_box(rng: &mut Rng, class: &str) -> Interval {
    let a = rng.range(0.01, 5.0);
    let b = a + rng.range(0.0, 5.0);
    match class {
        "neg" => Interval::new(-b, -a),
        "pos" => Interval::new(a, b),
        "straddle" => Interval::new(-a, b),
        // a bound that is zero comes with either sign (atan2, division and recip tell them apart)
        "zero" => match rng.below(3) { 0 => Interval::new(0.0, 0.0), 1 => Interval::new(-0.0, 0.0), _ => Interval::new(-0.0, -0.0) },
        "touch-lo" => Interval::new(if rng.below(2) == 0 { 0.0 } else { -0.0 }, b),
        "touch-hi" => Interval::new(-b, if rng.below(2) == 0 { 0.0 } else { -0.0 }),
        "huge" => {
            let h = *rng.pick(&[1.0e19f32, 1.0e30, 3.0e38, f32::MAX]);
            match rng.below(3) { 0 => Interval::new(-h, h), 1 => Interval::new(a, h), _ => Interval::new(-h, -a) }
        }
        _ => {
            let t = *rng.pick(&[1.0e-30f32, 1.0e-40, f32::MIN_POSITIVE, 1.0e-20]);
            match rng.below(3) { 0 => Interval::new(-t, t), 1 => Interval::new(t, 2.0 * t), _ => Interval::new(-t, 0.0) }
        }
    }
}

fn class_box(rng: &mut Rng, c: &Value) -> Option<(Interval, Vec<f32>)> {
    let kind = c["kind"].as_str()?;
    match kind {
        "periodic" => {
            let q = c["q"].as_i64()? as f32;
            let span = c["span"].as_i64()?;
            let off = c["off"].as_i64()? as f32;
            let h = PI / 2.0;
            let lo = (4.0 * off + q) * h + rng.range(0.02, 0.98) * h;
            let hi = match span {
                0 => lo + rng.range(0.0, 1.0) * (((4.0 * off + q) + 1.0) * h - lo) * 0.98,
                5 => lo + PI + rng.range(0.01, 0.4),
                s => (4.0 * off + q + s as f32) * h + rng.range(0.02, 0.98) * h,
            };
            // critical points inside: multiples of pi/2
            let mut crit = vec![];
            let mut k = (lo / h).ceil();
            while k * h <= hi && crit.len() < 12 {
                let v = k * h;
                crit.extend([next_down(v), v, next_up(v)]);
                k += 1.0;
            }
            Some((Interval::new(lo, hi.max(lo)), crit))
        }
        "bounded" => {
            let pos = |s: &str, rng: &mut Rng| -> f32 {
                match s { "below" => -1.0 - rng.range(1.0e-6, 0.5), "at-lo" => -1.0, "inside" => rng.range(-0.99, 0.99), "at-hi" => 1.0, _ => 1.0 + rng.range(1.0e-6, 0.5) }
            };
            let (a, b) = (pos(c["lo"].as_str()?, rng), pos(c["hi"].as_str()?, rng));
            Some((Interval::new(a.min(b), a.max(b)), vec![-1.0, 1.0, 0.0]))
        }
        "sign" => Some((sign_box(rng, c["a"].as_str()?), vec![0.0, -0.0, f32::MIN_POSITIVE, -f32::MIN_POSITIVE])),
        "rounding" => {
            let base: f32 = match c["mag"].as_str()? { "small" => rng.below(3) as f32, "mid" => 100.0 + rng.below(1000) as f32, _ => 8388608.0 + (2 * rng.below(1000) + 1) as f32 };
            let end = |s: &str, base: f32| -> f32 {
                match s { "int-below" => next_down(base), "int" => base, "int-above" => next_up(base),
                    "half-below" => next_down(base + 0.5), "half" => base + 0.5, _ => next_up(base + 0.5) }
            };
            let neg = c["negative"].as_bool()?;
            let (a, b) = (end(c["lo"].as_str()?, base), end(c["hi"].as_str()?, base + rng.below(3) as f32));
            let (a, b) = if neg { (-b, -a) } else { (a, b) };
            let crit = vec![0.5, -0.5, next_down(0.5), -next_down(0.5), next_up(0.5), 1.5, 2.5, -1.5, base, base + 0.5, -base - 0.5];
            Some((Interval::new(a.min(b), a.max(b)), crit))
        }
        _ => None,
    }
}

fn class_cases(cx: &mut Cx, path: &str, rng: &mut Rng, per_class: usize) {
    let text = std::fs::read_to_string(path).unwrap_or_default();
    let mut lines: Vec<&str> = text.lines().filter(|l| l.starts_with("<<\"GEN\", \"")).collect();
    lines.sort();
    for l in lines {
        let body = l.trim_start_matches("<<\"GEN\", \"").trim_end_matches("\">>").replace("\\\"", "\"");
        let c: Value = match serde_json::from_str(&body) { Ok(v) => v, Err(_) => continue };
        let op = c["op"].as_str().unwrap_or("").to_string();
        for _ in 0..per_class {
            let (p, bx, crit): (Prog, Vec<Interval>, Vec<Vec<f32>>) = if c["kind"] == "binary" {
                let form = c["form"].as_str().unwrap_or("rr");
                let a = sign_box(rng, c["a"].as_str().unwrap());
                let b = sign_box(rng, c["b"].as_str().unwrap());
                use vharness::tapes::GOp;
                let is_commutative_only = !vharness::tapes::IMMREG.contains(&op.as_str());
                match form {
                    "rr" => (Prog { ssa: vec![GOp::new(0, "Output", -1, 2, 0, 0), GOp::new(6, &op, 2, 0, 1, 0), GOp::new(1, "Input", 1, 1, -1, 0), GOp::new(1, "Input", 0, 0, -1, 0)], nvars: 2 }, vec![a, b], vec![]),
                    "ri" => {
                        let imm = b.lower() + (b.upper() - b.lower()) * rng.unit();
                        let imm = if imm.is_finite() { imm } else { b.lower() };
                        (Prog { ssa: vec![GOp::new(0, "Output", -1, 1, 0, 0), GOp::new(4, &op, 1, 0, -1, bits(imm)), GOp::new(1, "Input", 0, 0, -1, 0)], nvars: 1 }, vec![a], vec![])
                    }
                    _ => {
                        if is_commutative_only { continue; }
                        let imm = a.lower() + (a.upper() - a.lower()) * rng.unit();
                        let imm = if imm.is_finite() { imm } else { a.lower() };
                        (Prog { ssa: vec![GOp::new(0, "Output", -1, 1, 0, 0), GOp::new(5, &op, 1, 0, -1, bits(imm)), GOp::new(1, "Input", 0, 0, -1, 0)], nvars: 1 }, vec![b], vec![])
                    }
                }
            } else {
                let Some((b, crit)) = class_box(rng, &c) else { continue };
                use vharness::tapes::GOp;
                let inside: Vec<Vec<f32>> = crit.into_iter().filter(|v| *v >= b.lower() && *v <= b.upper()).map(|v| vec![v]).collect();
                (Prog { ssa: vec![GOp::new(0, "Output", -1, 1, 0, 0), GOp::new(3, &op, 1, 0, -1, 0), GOp::new(1, "Input", 0, 0, -1, 0)], nvars: 1 }, vec![b], inside)
            };
            let mut pts = box_samples(rng, &bx, 12);
            pts.extend(crit);
            // the one excluded locus: a four-quadrant arctangent whose two arguments can both be zero
            let excluded = has_atan2(&p) && (bx.len() < 2 || bx.iter().all(|b| b.lower() <= 0.0 && b.upper() >= 0.0))
                && (bx.len() == 2 || {
                    // reg-imm / imm-reg form: the immediate is the other argument
                    let imm = p.ssa.iter().find(|g| g.name == "Atan").map(|g| vharness::keys::unbits(g.imm)).unwrap_or(0.0);
                    imm == 0.0 && bx[0].lower() <= 0.0 && bx[0].upper() >= 0.0
                });
            let vmf = vm_fn::<255>(&p).unwrap();
            let jf = jit_fn(&p).unwrap();
            let pf = |q: &[f32]| point_trace(&vmf, q).out;
            e2e(cx, "vm-class", &vmf, &pf, 1, &bx, &pts, excluded, &p);
            e2e(cx, "jit-class", &jf, &pf, 1, &bx, &pts, excluded, &p);
        }
    }
}

// ---- overflow, then an operator, then a NaN-absorbing operator ---------------------------------------------
/// An intermediate overflows to +-inf inside the box (square of a huge x), an operator is applied to it, and the
/// result goes through `not` / `and`, which turn a NaN into an ordinary number: the interval of the box must
/// still contain the point value (or be the NaN interval).
fn overflow_cases(cx: &mut Cx, rng: &mut Rng) {
    use vharness::tapes::{GOp, BINARY, IMMREG, UNARY};
    let mut mids: Vec<GOp> = vec![];
    for u in UNARY {
        mids.push(GOp::new(3, u, 2, 1, -1, 0));
    }
    for b in BINARY {
        for imm in [2.0f32, -0.5] {
            mids.push(GOp::new(4, b, 2, 1, -1, bits(imm)));
            if IMMREG.contains(&b) {
                mids.push(GOp::new(5, b, 2, 1, -1, bits(imm)));
            }
        }
        mids.push(GOp::new(6, b, 2, 1, 1, 0));
    }
    for mid in &mids {
        for grow in 0..3 {
            for absorb in 0..3 {
                // s1 = x^2 | -(x^2) | x * 1e30 ; s2 = mid(s1) ; s3 = not(s2) | and(s2, 1) | and(1?, ...) via or
                let grow_ops: Vec<GOp> = match grow {
                    0 => vec![GOp::new(3, "Square", 1, 0, -1, 0)],
                    1 => vec![GOp::new(3, "Neg", 1, 4, -1, 0), GOp::new(3, "Square", 4, 0, -1, 0)],
                    _ => vec![GOp::new(4, "Mul", 1, 0, -1, bits(1.0e30))],
                };
                // the tail: slot 3 is the output; slots 5, 6 are scratch
                let tail: Vec<GOp> = match absorb {
                    0 => vec![GOp::new(3, "Not", 3, 2, -1, 0)],
                    1 => vec![GOp::new(4, "And", 3, 2, -1, bits(1.0))],
                    // a comparison that the interval decides (bounded ranges such as sin, cos, mod lie below 3),
                    // subtracted from itself: exactly 0 as an interval, NaN at the overflowing point; then `not`
                    _ => vec![GOp::new(3, "Not", 3, 6, -1, 0), GOp::new(6, "Sub", 6, 5, 5, 0), GOp::new(5, "Compare", 5, 2, -1, bits(3.0))],
                };
                let mut ssa = vec![GOp::new(0, "Output", -1, 3, 0, 0), GOp::new(0, "Output", -1, 2, 1, 0)];
                ssa.extend(tail);
                ssa.push(mid.clone());
                ssa.extend(grow_ops);
                ssa.push(GOp::new(1, "Input", 0, 0, -1, 0));
                let p = Prog { ssa, nvars: 1 };
                let hi = if grow == 2 { 1.0e9f32 } else { 1.0e20 };
                let bx = vec![Interval::new(hi / 10.0, hi)];
                let mut pts = box_samples(rng, &bx, 6);
                pts.push(vec![hi]);
                pts.push(vec![hi / 10.0]);
                let excluded = has_atan2(&p);
                let (Ok(vmf), Ok(jf)) = (vm_fn::<255>(&p), jit_fn(&p)) else { continue };
                let pf = |q: &[f32]| point_trace(&vmf, q).out;
                e2e(cx, "vm-overflow", &vmf, &pf, 2, &bx, &pts, excluded, &p);
                e2e(cx, "jit-overflow", &jf, &pf, 2, &bx, &pts, excluded, &p);
            }
        }
    }
}

/// 0 * inf inside a product: one factor's box contains 0, the other factor overflows to inf (or is an infinite
/// immediate); |p| is then clamped to [0, 0] by min(.., 0), and `not` turns the NaN of the point into 0.
fn zero_times_inf_cases(cx: &mut Cx, rng: &mut Rng) {
    use vharness::tapes::GOp;
    for variant in 0..4 {
        // slots: 0 = x, 1 = y, 2 = y*y, 3 = product, 4 = |product|, 5 = min(|product|, 0), 6 = not
        let mut ssa = vec![GOp::new(0, "Output", -1, 6, 0, 0), GOp::new(0, "Output", -1, 3, 1, 0),
            GOp::new(3, "Not", 6, 5, -1, 0), GOp::new(4, "Min", 5, 4, -1, bits(0.0)), GOp::new(3, "Abs", 4, 3, -1, 0)];
        match variant {
            0 => ssa.push(GOp::new(6, "Mul", 3, 0, 2, 0)),
            1 => ssa.push(GOp::new(6, "Mul", 3, 2, 0, 0)),
            2 => ssa.push(GOp::new(4, "Mul", 3, 0, -1, bits(f32::INFINITY))),
            _ => ssa.push(GOp::new(4, "Mul", 3, 0, -1, bits(f32::NEG_INFINITY))),
        }
        if variant < 2 {
            ssa.push(GOp::new(3, "Square", 2, 1, -1, 0));
            ssa.push(GOp::new(1, "Input", 1, 1, -1, 0));
        }
        ssa.push(GOp::new(1, "Input", 0, 0, -1, 0));
        let nvars = if variant < 2 { 2 } else { 1 };
        let p = Prog { ssa, nvars };
        for xb in [Interval::new(-1.0, 1.0), Interval::new(0.0, 2.0), Interval::new(-3.0, 0.0)] {
            let mut bx = vec![xb];
            if nvars == 2 {
                bx.push(Interval::new(1.0e19, 1.0e20));
            }
            let mut pts = box_samples(rng, &bx, 6);
            let mut z = vec![0.0f32];
            if nvars == 2 { z.push(1.0e20); }
            pts.push(z);
            let (Ok(vmf), Ok(jf)) = (vm_fn::<255>(&p), jit_fn(&p)) else { continue };
            let pf = |q: &[f32]| point_trace(&vmf, q).out;
            e2e(cx, "vm-zeroinf", &vmf, &pf, 2, &bx, &pts, false, &p);
            e2e(cx, "jit-zeroinf", &jf, &pf, 2, &bx, &pts, false, &p);
        }
    }
}

/// inf - inf inside a sum or difference: both operands overflow to infinity within the box, the interval bounds
/// (lo - hi', hi - lo') are infinite but not NaN, the point value is; a comparison decided on the clamped range,
/// c - c and `not` then make the difference visible.
fn inf_minus_inf_cases(cx: &mut Cx, rng: &mut Rng) {
    use vharness::tapes::GOp;
    for variant in 0..4 {
        // slots: 0 = y, 1 = z, 2 = y*y, 3 = z*z (or its negation in 8), 4 = sum / difference, 5 = min(.., -1),
        //        6 = compare(0, 5), 7 = 6 - 6, 9 = not
        let mut ssa = vec![GOp::new(0, "Output", -1, 9, 0, 0), GOp::new(0, "Output", -1, 4, 1, 0),
            GOp::new(3, "Not", 9, 7, -1, 0), GOp::new(6, "Sub", 7, 6, 6, 0), GOp::new(5, "Compare", 6, 5, -1, bits(0.0)),
            GOp::new(4, "Min", 5, 4, -1, bits(-1.0))];
        match variant {
            0 => ssa.push(GOp::new(6, "Sub", 4, 2, 3, 0)),
            1 => ssa.push(GOp::new(6, "Sub", 4, 3, 2, 0)),
            2 => { ssa.push(GOp::new(6, "Add", 4, 2, 8, 0)); ssa.push(GOp::new(3, "Neg", 8, 3, -1, 0)); }
            _ => { ssa.push(GOp::new(6, "Add", 4, 8, 2, 0)); ssa.push(GOp::new(3, "Neg", 8, 3, -1, 0)); }
        }
        ssa.push(GOp::new(3, "Square", 3, 1, -1, 0));
        ssa.push(GOp::new(3, "Square", 2, 0, -1, 0));
        ssa.push(GOp::new(1, "Input", 1, 1, -1, 0));
        ssa.push(GOp::new(1, "Input", 0, 0, -1, 0));
        let p = Prog { ssa, nvars: 2 };
        let bx = vec![Interval::new(1.0e19, 1.0e20), Interval::new(1.0e19, 1.0e20)];
        let mut pts = box_samples(rng, &bx, 6);
        pts.push(vec![1.0e20, 1.0e20]);
        let (Ok(vmf), Ok(jf)) = (vm_fn::<255>(&p), jit_fn(&p)) else { continue };
        let pf = |q: &[f32]| point_trace(&vmf, q).out;
        e2e(cx, "vm-infinf", &vmf, &pf, 2, &bx, &pts, false, &p);
        e2e(cx, "jit-infinf", &jf, &pf, 2, &bx, &pts, false, &p);
    }
}

/// a zero whose sign the interval cannot know ([-1, 1] * 0, and(-0.0, y), ceil of a small negative number) fed to
/// the two operators that hash the bit pattern of their operand
fn hashed_zero_cases(cx: &mut Cx, rng: &mut Rng) {
    use vharness::tapes::GOp;
    for zero in 0..5 {
        for hash in 0..4 {
            // slots: 0 = x, 1 = y, 2 = the zero, 3 = the hash; y is exported too, so that it is used by every variant
            // (a slot that is defined and never used is not a well-formed tape)
            let mut ssa = vec![GOp::new(0, "Output", -1, 3, 0, 0), GOp::new(0, "Output", -1, 2, 1, 0), GOp::new(0, "Output", -1, 1, 2, 0)];
            ssa.push(match hash {
                0 => GOp::new(3, "Rand", 3, 2, -1, 0),
                1 => GOp::new(4, "Mix", 3, 2, -1, bits(1.0)),
                2 => GOp::new(5, "Mix", 3, 2, -1, bits(1.0)),
                _ => GOp::new(6, "Mix", 3, 2, 1, 0),
            });
            ssa.push(match zero {
                0 => GOp::new(4, "Mul", 2, 0, -1, bits(0.0)),
                1 => GOp::new(4, "Mul", 2, 0, -1, bits(-0.0)),
                2 => GOp::new(3, "Ceil", 2, 0, -1, 0),
                3 => GOp::new(6, "And", 2, 0, 1, 0),
                _ => GOp::new(4, "Min", 2, 0, -1, bits(0.0)),
            });
            ssa.push(GOp::new(1, "Input", 1, 1, -1, 0));
            ssa.push(GOp::new(1, "Input", 0, 0, -1, 0));
            let p = Prog { ssa, nvars: 2 };
            let xs = match zero {
                2 => vec![Interval::new(-0.9, -0.1), Interval::new(-0.5, 0.5)],
                3 => vec![Interval::new(-0.0, -0.0), Interval::new(0.0, 0.0), Interval::new(-0.0, 0.0)],
                4 => vec![Interval::new(-0.0, 3.0), Interval::new(0.0, 2.0), Interval::new(-0.0, -0.0)],
                _ => vec![Interval::new(-1.0, 1.0), Interval::new(-3.0, -1.0), Interval::new(0.0, 2.0), Interval::new(-2.0, 0.0)],
            };
            for xb in xs {
                for yb in [Interval::new(2.5, 2.5), Interval::new(0.0, 0.0), Interval::new(-0.0, -0.0)] {
                    let bx = vec![xb, yb];
                    let mut pts = box_samples(rng, &bx, 4);
                    for xv in [xb.lower(), xb.upper(), 0.0, -0.0] {
                        if xv >= xb.lower() && xv <= xb.upper() {
                            for yv in [yb.lower(), yb.upper(), 0.0, -0.0] {
                                if yv >= yb.lower() && yv <= yb.upper() {
                                    pts.push(vec![xv, yv]);
                                }
                            }
                        }
                    }
                    let (Ok(vmf), Ok(jf)) = (vm_fn::<255>(&p), jit_fn(&p)) else { continue };
                    let pf = |q: &[f32]| point_trace(&vmf, q).out;
                    e2e(cx, "vm-hashzero", &vmf, &pf, 3, &bx, &pts, false, &p);
                    e2e(cx, "jit-hashzero", &jf, &pf, 3, &bx, &pts, false, &p);
                }
            }
        }
    }
}

/// every unary operator on boxes that are a few ulps wide, at magnitudes from 0.5 to 1e9: all the floats of the
/// box are sampled (the trigonometric operators classify rounded angles into quadrants)
fn narrow_cases(cx: &mut Cx, quick: bool) {
    use vharness::tapes::{GOp, UNARY};
    let next_up = |x: f32| if x >= 0.0 { f32::from_bits(x.to_bits() + 1) } else { f32::from_bits(x.to_bits() - 1) };
    for u in UNARY {
        let p = Prog { ssa: vec![GOp::new(0, "Output", -1, 1, 0, 0), GOp::new(3, u, 1, 0, -1, 0), GOp::new(1, "Input", 0, 0, -1, 0)], nvars: 1 };
        let (Ok(vmf), Ok(jf)) = (vm_fn::<255>(&p), jit_fn(&p)) else { continue };
        let mut x = 0.5f32;
        let step = if quick { 1.02f32 } else { 1.001 };
        let mut n = 0usize;
        while x < 1.0e9 {
            let k = [1usize, 2, 5][n % 3];
            let mut all = vec![x];
            for _ in 0..k {
                all.push(next_up(*all.last().unwrap()));
            }
            for neg in [false, true] {
                let vals: Vec<f32> = if neg { all.iter().rev().map(|v| -*v).collect() } else { all.clone() };
                let bx = vec![Interval::new(vals[0], *vals.last().unwrap())];
                let pts: Vec<Vec<f32>> = vals.iter().map(|v| vec![*v]).collect();
                let pf = |q: &[f32]| point_trace(&vmf, q).out;
                e2e(cx, "vm-narrow", &vmf, &pf, 1, &bx, &pts, false, &p);
                if n % 4 == 0 {
                    e2e(cx, "jit-narrow", &jf, &pf, 1, &bx, &pts, false, &p);
                }
            }
            n += 1;
            x *= step;
        }
    }
}

/// An operand that is undefined on part of the box (sqrt / ln of a partly negative range, asin beyond 1, a division by
/// a range containing zero, 0 x inf): its interval is the NaN interval.  Every unary operator applied to it, and then
/// every binary operator with it on either side (a condition, a bound, a selector that may or may not look at both
/// lanes of its operands): each op is judged on its own operands (all slots exported) and the whole against the points.
fn undefined_operand_cases(cx: &mut Cx, rng: &mut Rng, quick: bool) {
    use vharness::tapes::{GOp, BINARY, UNARY};
    let producers: [(&str, u8, f32); 5] = [("Sqrt", 3, 0.0), ("Ln", 3, 0.0), ("Asin", 3, 0.0), ("Div", 5, 1.0), ("Recip", 3, 0.0)];
    let mut k = 0usize;
    for (pn, pc, pimm) in producers {
        for u in UNARY.iter() {
            for b in BINARY.iter() {
                k += 1;
                if quick && k % 3 != 0 && !(*u == "Abs" || *u == "Neg" || *u == "Square") { continue; }
                for side in 0..2 {
                    // slots: 0 = x, 1 = y, 2 = producer(y), 3 = u(2), 4 = b(x, 3) or b(3, x)
                    let prod = if pc == 5 { GOp::new(5, pn, 2, 1, -1, bits(pimm)) } else { GOp::new(3, pn, 2, 1, -1, 0) };
                    let last = if side == 0 { GOp::new(6, b, 4, 0, 3, 0) } else { GOp::new(6, b, 4, 3, 0, 0) };
                    let p = Prog { ssa: vec![GOp::new(0, "Output", -1, 4, 0, 0), last, GOp::new(3, u, 3, 2, -1, 0), prod, GOp::new(1, "Input", 1, 1, -1, 0), GOp::new(1, "Input", 0, 0, -1, 0)], nvars: 2 };
                    let (Ok(vmf), Ok(jf)) = (vm_fn::<255>(&p), jit_fn(&p)) else { continue };
                    let excluded = has_atan2(&p);
                    for (xb, yb) in [(Interval::new(-1.0, 1.0), Interval::new(-1.0, 4.0)), (Interval::new(0.5, 2.0), Interval::new(-0.5, 0.5)), (Interval::new(-2.0, 0.0), Interval::new(-3.0, 1.5))] {
                        let bx = vec![xb, yb];
                        let mut pts = box_samples(rng, &bx, 5);
                        // points of the box at which the producer is defined
                        pts.push(vec![xb.lower(), 0.25f32.clamp(yb.lower(), yb.upper())]);
                        pts.push(vec![xb.upper(), yb.upper()]);
                        let pf = |q: &[f32]| point_trace(&vmf, q).out;
                        e2e(cx, "vm-undef", &vmf, &pf, 1, &bx, &pts, excluded, &p);
                        e2e(cx, "jit-undef", &jf, &pf, 1, &bx, &pts, excluded, &p);
                        if side == 0 && k % 4 == 0 {
                            let (pa, map) = export_all_slots(&p);
                            if let (Ok(vma), Ok(ja)) = (vm_fn::<255>(&pa), jit_fn(&pa)) {
                                let pouts: Vec<Vec<f32>> = pts.iter().map(|q| point_trace(&vma, q).out).collect();
                                nodes(cx, "vm", &vma, &pa, &map, &bx, &pts, &pouts);
                                nodes(cx, "jit", &ja, &pa, &map, &bx, &pts, &pouts);
                            }
                        }
                    }
                }
            }
        }
    }
}

fn main() {
    let args: Vec<String> = std::env::args().collect();
    let quick = args[2] == "quick";
    let mut file = std::io::BufWriter::new(std::fs::File::create(&args[3]).unwrap());
    let seed = seed_from_env();
    let mut cx = Cx { w: &mut file, id: 0 };
    let mut rng = Rng::new(seed.wrapping_add(303));
    let mut progs: Vec<(Prog, Mode)> = vec![];
    if args[1] != "-" {
        let aps = pgen::read_tlc_programs(&args[1]);
        for (pi, ap) in aps.iter().enumerate().step_by(if quick { 4 } else { 1 }) {
            let mode = match pi % 3 { 0 => Mode::All, 1 => Mode::Z, _ => Mode::Choice };
            let mut inst = Inst::new(seed.wrapping_mul(389).wrapping_add(pi as u64), mode, 3);
            progs.push((inst.instantiate(ap), mode));
        }
    }
    for k in 0..(if quick { 250 } else { 3000 }) {
        let mode = match k % 4 { 0 | 1 => Mode::All, 2 => Mode::Z, _ => Mode::Choice };
        let mut inst = Inst::new(rng.next(), mode, 1 + k % 4);
        let ap = inst.random_abstract([6, 14, 30, 60][k % 4], [3, 6, 10, 14, 20][k % 5], 3);
        progs.push((inst.instantiate(&ap), mode));
    }
    progs.extend(pgen::directed_programs().into_iter().map(|(p, m, _)| (p, m)));
    for (k, (p, _mode)) in progs.iter().enumerate() {
        let excluded = has_atan2(p);
        let vmf = vm_fn::<255>(p).unwrap();
        let jf = jit_fn(p).unwrap();
        for class in 0..(if quick { 3 } else { 6 }) {
            let bx = gen_box(&mut rng, p.nvars, class + k);
            let pts = box_samples(&mut rng, &bx, 4);
            let pf = |q: &[f32]| point_trace(&vmf, q).out;
            e2e(&mut cx, "vm", &vmf, &pf, p.nout(), &bx, &pts, excluded, p);
            e2e(&mut cx, "jit", &jf, &pf, p.nout(), &bx, &pts, excluded, p);
        }
        if p.ssa.len() <= 60 {
            let (pa, map) = export_all_slots(p);
            let vma = vm_fn::<255>(&pa).unwrap();
            let ja = jit_fn(&pa).unwrap();
            let bx = gen_box(&mut rng, p.nvars, k);
            let pts = box_samples(&mut rng, &bx, 3);
            let pouts: Vec<Vec<f32>> = pts.iter().map(|q| point_trace(&vma, q).out).collect();
            nodes(&mut cx, "vm", &vma, &pa, &map, &bx, &pts, &pouts);
            nodes(&mut cx, "jit", &ja, &pa, &map, &bx, &pts, &pouts);
        }
    }
    if args.len() > 4 {
        class_cases(&mut cx, &args[4], &mut rng, if quick { 2 } else { 12 });
    }
    overflow_cases(&mut cx, &mut rng);
    zero_times_inf_cases(&mut cx, &mut rng);
    inf_minus_inf_cases(&mut cx, &mut rng);
    hashed_zero_cases(&mut cx, &mut rng);
    undefined_operand_cases(&mut cx, &mut rng, quick);
    narrow_cases(&mut cx, quick);
    transformed::<VmFunction>(&mut cx, "vm", &mut rng, if quick { 300 } else { 4000 });
    transformed::<JitFunction>(&mut cx, "jit", &mut rng, if quick { 300 } else { 4000 });
    let n = cx.id;
    file.flush().unwrap();
    vharness::evalx::exit_on_build_failures("c03");
    eprintln!("c03: {n} records over {} programs", progs.len());
    let _ = unbits(0);
}
