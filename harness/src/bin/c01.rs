//! C01 recorder: compiles programs with the real allocator for every budget,
//! evaluates them with the interpreter (point and slice) and logs what the
//! real code did.  Usage: c01 <tlc-programs-file|-> <quick|thorough> <out.ndjson>
use fidget_core::{
    context::{Context, Node},
    eval::{BulkEvaluator, Function, TracingEvaluator},
    var::Var,
    vm::{GenericVmFunction, VmData},
};
use serde_json::json;
use std::collections::HashMap;
use std::io::Write;
use vharness::{
    pgen::{self, Inst, Mode},
    keys::{bits, bvec, seed_from_env, Rng, SPECIALS},
    tapes::{self, make_vmdata, read_vmdata, ssa_eval, Prog, TapeRec},
    with_n,
};

struct Evals {
    ins: Vec<Vec<f32>>,
    pt: Vec<Vec<f32>>,
    sl: Vec<Vec<f32>>,
    err: Option<String>,
    /// a many-point call far longer than any internal block: (samples requested, samples returned per output,
    /// samples that differ from the short call's result for the same inputs)
    long: Option<(usize, Vec<usize>, usize)>,
}

fn eval_all<const N: usize>(data: VmData<N>, nvars: usize, pts: &[Vec<f32>]) -> Evals {
    let f = GenericVmFunction::<N>::from(data);
    let mut pt = vec![];
    let mut err = None;
    let tape = f.point_tape(Default::default());
    let mut pe = GenericVmFunction::<N>::new_point_eval();
    for p in pts {
        match vharness::catch(std::panic::AssertUnwindSafe(|| pe.eval(&tape, p).map(|(o, _)| o.to_vec()))) {
            Ok(Ok(o)) => pt.push(o),
            Ok(Err(e)) => {
                err = Some(format!("point: {e}"));
                pt.push(vec![]);
            }
            Err(m) => {
                err = Some(format!("point panic: {m}"));
                pt.push(vec![]);
                pe = GenericVmFunction::<N>::new_point_eval();
            }
        }
    }
    // many-point evaluation: one call over all points
    let tape = f.float_slice_tape(Default::default());
    let mut se = GenericVmFunction::<N>::new_float_slice_eval();
    let cols: Vec<Vec<f32>> = (0..nvars).map(|v| pts.iter().map(|p| p[v]).collect()).collect();
    let mut sl = vec![vec![]; pts.len()];
    match vharness::catch(std::panic::AssertUnwindSafe(|| {
        se.eval(&tape, &cols).map(|o| {
            let no = o.len();
            (0..no).map(|i| o[i].to_vec()).collect::<Vec<_>>()
        })
    })) {
        Ok(Ok(o)) => {
            for (k, s) in sl.iter_mut().enumerate() {
                // a missing sample is recorded as a missing entry, which the spec rejects
                *s = o.iter().filter_map(|col| col.get(k).copied()).collect();
            }
        }
        Ok(Err(e)) => err = Some(format!("slice: {e}")),
        Err(m) => err = Some(format!("slice panic: {m}")),
    }
    // every 16th tape: one many-point call over 1024 .. 4099 samples (the points repeated cyclically); sample k must
    // be, bit for bit, what the short call returned for the same inputs
    static CALLS: std::sync::atomic::AtomicUsize = std::sync::atomic::AtomicUsize::new(0);
    let call = CALLS.fetch_add(1, std::sync::atomic::Ordering::Relaxed);
    let mut long = None;
    if call % 16 == 0 && nvars > 0 && !pts.is_empty() && err.is_none() {
        let len = [1025usize, 4099, 1024, 2049][(call / 16) % 4];
        let lcols: Vec<Vec<f32>> = (0..nvars).map(|v| (0..len).map(|k| pts[k % pts.len()][v]).collect()).collect();
        let mut le = GenericVmFunction::<N>::new_float_slice_eval();
        match vharness::catch(std::panic::AssertUnwindSafe(|| {
            le.eval(&tape, &lcols).map(|o| (0..o.len()).map(|i| o[i].to_vec()).collect::<Vec<_>>())
        })) {
            Ok(Ok(o)) => {
                let lens: Vec<usize> = o.iter().map(|c| c.len()).collect();
                let mut bad = 0;
                for (i, col) in o.iter().enumerate() {
                    for (k, v) in col.iter().enumerate() {
                        let want = sl[k % pts.len()].get(i).copied();
                        if !matches!(want, Some(w) if w.to_bits() == v.to_bits() || (w.is_nan() && v.is_nan())) { bad += 1; }
                    }
                }
                long = Some((len, lens, bad));
            }
            Ok(Err(e)) => err = Some(format!("long slice: {e}")),
            Err(m) => err = Some(format!("long slice panic: {m}")),
        }
    }
    Evals { ins: pts.to_vec(), pt, sl, err, long }
}

fn compile_and_eval<const N: usize>(p: &Prog, pts: &[Vec<f32>]) -> Result<(TapeRec, Evals), String> {
    let d = make_vmdata::<N>(p)?;
    let rec = read_vmdata(&d);
    Ok((rec, eval_all::<N>(d, p.nvars, pts)))
}

fn ctx_compile_and_eval<const N: usize>(
    ctx: &Context,
    roots: &[Node],
    pts: &[Vec<f32>],
) -> Result<(TapeRec, Evals), String> {
    let d = vharness::catch(std::panic::AssertUnwindSafe(|| VmData::<N>::new(ctx, roots)))?
        .map_err(|e| format!("{e}"))?;
    let rec = read_vmdata(&d);
    let nvars = rec.vars.len();
    // points are given in X,Y,Z,... identity order; permute into slot order
    let order: Vec<usize> = rec
        .vars
        .iter()
        .map(|(name, _)| match name.as_str() {
            "X" => 0,
            "Y" => 1,
            "Z" => 2,
            _ => 3,
        })
        .collect();
    let pts2: Vec<Vec<f32>> = pts.iter().map(|p| order.iter().map(|&i| p[i]).collect()).collect();
    let mut e = eval_all::<N>(d, nvars, &pts2);
    e.ins = pts.to_vec();
    Ok((rec, e))
}

/// Is the evaluation integer-exact (all intermediates small integers)?
fn z_exact(run: &tapes::SsaRun) -> bool {
    run.vals.iter().flatten().all(|v| v.is_finite() && v.fract() == 0.0 && v.abs() < 1.0e6)
}

fn emit(
    w: &mut impl Write,
    id: usize,
    src: &str,
    n: usize,
    res: Result<(TapeRec, Evals), String>,
    refs: &dyn Fn(&TapeRec, &[f32]) -> Vec<f32>,
    mode: Mode,
    intended: Option<&Prog>,
) {
    match res {
        Err(msg) => {
            let j = json!({"ev": "tape", "id": id, "src": src, "n": n, "panic": true, "msg": msg,
                "ssa": intended.map(|p| tapes::ops_json(&p.ssa)).unwrap_or(json!([]))});
            writeln!(w, "{j}").unwrap();
        }
        Ok((rec, ev)) => {
            let mut evals = vec![];
            for (k, p) in ev.ins.iter().enumerate() {
                let r = refs(&rec, p);
                let slot_p = slot_order(&rec, p, src);
                let bs = ssa_eval(&rec.ssa, &slot_p).bitsens;
                let mut e = json!({"in": bvec(p), "pt": bvec(&ev.pt[k]), "sl": bvec(&ev.sl[k]), "ref": bvec(&r), "bs": bs});
                if mode == Mode::Z {
                    // expected values are recomputed by TLC from the SSA tape in Integers
                    let run = ssa_eval(&rec.ssa, p);
                    if z_exact(&run) {
                        e["zin"] = json!(p.iter().map(|v| *v as i64).collect::<Vec<_>>());
                        e["zout"] = json!(ev.pt[k].iter().map(|v| if v.fract() == 0.0 && v.abs() < 1.0e9 { *v as i64 } else { 999_999_999 }).collect::<Vec<_>>());
                    }
                }
                evals.push(e);
            }
            let mut j = rec.json();
            j["ev"] = json!("tape");
            j["id"] = json!(id);
            j["src"] = json!(src);
            j["panic"] = json!(false);
            j["err"] = json!(ev.err.clone().unwrap_or_default());
            j["evals"] = json!(evals);
            if let Some((len, lens, bad)) = &ev.long {
                j["long"] = json!({"len": len, "lens": lens, "bad": bad});
            }
            writeln!(w, "{j}").unwrap();
        }
    }
}

/// Inputs in tape slot order (context-built tapes number X, Y, Z by first encounter)
fn slot_order(rec: &TapeRec, p: &[f32], src: &str) -> Vec<f32> {
    if src != "ctx" {
        return p.to_vec();
    }
    let mut v = vec![f32::NAN; rec.vars.len()];
    for (name, slot) in &rec.vars {
        v[*slot] = match name.as_str() { "X" => p[0], "Y" => p[1], _ => p[2] };
    }
    v
}

// ---- random DAGs through the public Context API -------------------------------------------
fn ctx_un(ctx: &mut Context, k: usize, a: Node) -> Node {
    match k % 18 {
        0 => ctx.neg(a), 1 => ctx.abs(a), 2 => ctx.recip(a), 3 => ctx.sqrt(a), 4 => ctx.square(a),
        5 => ctx.floor(a), 6 => ctx.ceil(a), 7 => ctx.round(a), 8 => ctx.sin(a), 9 => ctx.cos(a),
        10 => ctx.tan(a), 11 => ctx.asin(a), 12 => ctx.acos(a), 13 => ctx.atan(a), 14 => ctx.exp(a),
        15 => ctx.ln(a), 16 => ctx.not(a), _ => ctx.rand(a),
    }
    .unwrap()
}
fn ctx_bin(ctx: &mut Context, k: usize, a: Node, b: Node) -> Node {
    match k % 12 {
        0 => ctx.add(a, b), 1 => ctx.sub(a, b), 2 => ctx.mul(a, b), 3 => ctx.div(a, b),
        4 => ctx.atan2(a, b), 5 => ctx.min(a, b), 6 => ctx.max(a, b), 7 => ctx.compare(a, b),
        8 => ctx.modulo(a, b), 9 => ctx.and(a, b), 10 => ctx.or(a, b), _ => ctx.mix(a, b),
    }
    .unwrap()
}

fn random_ctx(rng: &mut Rng, size: usize) -> (Context, Vec<Node>) {
    let mut ctx = Context::new();
    let x = ctx.x();
    let y = ctx.y();
    let z = ctx.z();
    let mut pool = vec![x, y, z];
    let mut made = vec![];
    for i in 0..size {
        let a = pool[rng.below(pool.len())];
        let cval = if rng.below(4) == 0 { *rng.pick(&SPECIALS) } else { (rng.below(2001) as f32 - 1000.0) / 250.0 };
        let c = ctx.constant(cval);
        let t = match rng.below(6) {
            0 | 1 => {
                // bias towards recent nodes to get depth, and old ones to get long live ranges
                let b = if rng.below(2) == 0 { pool[pool.len() - 1 - rng.below(pool.len().min(4))] } else { pool[rng.below(pool.len())] };
                ctx_bin(&mut ctx, rng.below(12) + i, a, b)
            }
            2 => ctx_bin(&mut ctx, rng.below(12), a, c),
            3 => ctx_bin(&mut ctx, rng.below(12), c, a),
            _ => ctx_un(&mut ctx, rng.below(18), a),
        };
        pool.push(t);
        made.push(t);
    }
    // fold many nodes together so that they are all live at once
    let mut acc = made[0];
    for (i, t) in made.iter().enumerate().skip(1) {
        if i % 2 == 0 {
            acc = ctx_bin(&mut ctx, [0, 1, 2, 5, 6][i % 5], acc, *t);
        }
    }
    let mut outs = vec![acc];
    let nout = 1 + rng.below(4);
    for _ in 1..nout {
        outs.push(match rng.below(5) {
            0 => ctx.constant(rng.below(9) as f32 - 4.0), // constant as an output
            1 => x,
            2 => acc, // same node twice
            _ => made[rng.below(made.len())],
        });
    }
    (ctx, outs)
}

/// allocator events (Trace_Alloc.tla): one file per register budget under $VERIF_ALLOC_EVENTS
struct AllocEvents {
    dir: Option<String>,
    files: HashMap<usize, std::io::BufWriter<std::fs::File>>,
    counts: HashMap<usize, usize>,
    max: usize,
}
impl AllocEvents {
    fn record(&mut self, id: usize, n: usize, p: &Prog) {
        let Some(dir) = &self.dir else { return };
        if p.ssa.len() > 70 || ![1usize, 2, 3, 4, 5, 12].contains(&n) {
            return;
        }
        let count = self.counts.entry(n).or_insert(0);
        if *count > self.max {
            return;
        }
        *count += p.ssa.len() + 1;
        fn ev<const N: usize>(id: usize, p: &Prog) -> Vec<serde_json::Value> {
            tapes::alloc_events::<N>(id, &p.ssa)
        }
        let evs = with_n!(n, ev(id, p));
        let f = self.files.entry(n).or_insert_with(|| {
            std::io::BufWriter::new(std::fs::File::create(format!("{dir}/alloc_n{n}.ndjson")).unwrap())
        });
        for e in evs {
            writeln!(f, "{e}").unwrap();
        }
    }
}

fn main() {
    let args: Vec<String> = std::env::args().collect();
    let progs_path = &args[1];
    let mut aev = AllocEvents { dir: std::env::var("VERIF_ALLOC_EVENTS").ok(), files: HashMap::new(), counts: HashMap::new(),
        max: std::env::var("VERIF_ALLOC_EVENTS_MAX").ok().and_then(|s| s.parse().ok()).unwrap_or(100000) };
    let tier = &args[2];
    let mut w = std::io::BufWriter::new(std::fs::File::create(&args[3]).unwrap());
    let seed = seed_from_env();
    let quick = tier == "quick";
    let mut id = 0usize;

    // reference for injected tapes: SSA interpreter over the *recorded* SSA tape
    let ssa_ref = |rec: &TapeRec, p: &[f32]| -> Vec<f32> { ssa_eval(&rec.ssa, p).outs };

    // (a) TLC-generated programs, each at every budget
    let budgets: &[usize] = if quick { &[1, 2, 3, 4, 5, 12, 255] } else { &[1, 2, 3, 4, 5, 8, 12, 32, 255] };
    if progs_path != "-" {
        let progs = pgen::read_tlc_programs(progs_path);
        let stride = if quick { 1 } else { 1 };
        for (pi, ap) in progs.iter().enumerate().step_by(stride) {
            let mode = match pi % 3 { 0 => Mode::All, 1 => Mode::Z, _ => Mode::Choice };
            let mut inst = Inst::new(seed.wrapping_mul(7919).wrapping_add(pi as u64), mode, 3);
            let p = inst.instantiate(ap);
            let pts = pgen::input_points(&mut inst.rng, mode, 3, 3);
            // each program at two budgets (rotating), small budgets for all
            let mut ns: Vec<usize> = vec![3];
            ns.push(budgets[pi % budgets.len()]);
            if !quick {
                ns.push(budgets[(pi / 7 + 3) % budgets.len()]);
                ns.push(4);
            }
            ns.sort();
            ns.dedup();
            for &n in &ns {
                let res = with_n!(n, compile_and_eval(&p, &pts));
                emit(&mut w, id, "tlc", n, res, &ssa_ref, mode, Some(&p));
                aev.record(id, n, &p);
                id += 1;
            }
        }
    }

    // (b) long random programs in the model's shape discipline (simulation of
    // the same generator at larger bounds), forcing spills at every budget
    let nlong = if quick { 250 } else { 3000 };
    let mut rng = Rng::new(seed.wrapping_add(17));
    for k in 0..nlong {
        let mode = match k % 3 { 0 => Mode::All, 1 => Mode::Z, _ => Mode::Choice };
        let mut inst = Inst::new(rng.next(), mode, 1 + k % 5);
        let n = budgets[2 + k % (budgets.len() - 2)];
        let live = [2, 4, 6, 9, 14, 20][k % 6].min(n + 8);
        let nops = if quick { 10 + rng.below(50) } else { 10 + rng.below(120) };
        let ap = inst.random_abstract(nops, live, 4);
        let p = inst.instantiate(&ap);
        let pts = pgen::input_points(&mut inst.rng, mode, p.nvars, 4);
        let res = with_n!(n, compile_and_eval(&p, &pts));
        emit(&mut w, id, "long", n, res, &ssa_ref, mode, Some(&p));
        aev.record(id, n, &p);
        id += 1;
    }

    // (b2) the same under register pressure with many ops whose two operands are one slot (sub(q, q),
    // atan2(q, q), ...): the operand may be in memory when the op is allocated, and later evictions reuse slots
    let nsame = if quick { 400 } else { 4000 };
    for k in 0..nsame {
        let mode = match k % 3 { 0 => Mode::All, 1 => Mode::Z, _ => Mode::Choice };
        let mut inst = Inst::new(rng.next(), mode, 1 + k % 4);
        inst.same_pct = 35;
        let n = [3usize, 3, 4, 5][k % 4];
        let live = [5, 6, 8, 10][(k / 4) % 4];
        let nops = 12 + rng.below(if quick { 40 } else { 80 });
        let ap = inst.random_abstract(nops, live, 3);
        let p = inst.instantiate(&ap);
        let pts = pgen::input_points(&mut inst.rng, mode, p.nvars, 4);
        let res = with_n!(n, compile_and_eval(&p, &pts));
        emit(&mut w, id, "same", n, res, &ssa_ref, mode, Some(&p));
        aev.record(id, n, &p);
        id += 1;
    }

    // (b3) directed families: the same immediate around every opcode; every opcode and form at the boundary pool
    for (p, mode, tag) in pgen::directed_programs() {
        let pts = pgen::input_points(&mut rng, mode, p.nvars, if mode == Mode::Boundary { 12 } else { 3 });
        let n = [3usize, 255][id % 2];
        let res = with_n!(n, compile_and_eval(&p, &pts));
        emit(&mut w, id, tag, n, res, &ssa_ref, mode, Some(&p));
        id += 1;
    }

    // (c) random DAGs through the public Context API: exercises SsaTape::new too;
    // reference is Context::eval, the graph evaluated directly
    let nctx = if quick { 150 } else { 2000 };
    for k in 0..nctx {
        let size = 3 + rng.below(if quick { 40 } else { 90 });
        let (ctx, roots) = random_ctx(&mut rng, size);
        let pts = pgen::input_points(&mut rng, Mode::All, 3, 4);
        let n = budgets[2 + k % (budgets.len() - 2)];
        let res = with_n!(n, ctx_compile_and_eval(&ctx, &roots, &pts));
        let cref = |_rec: &TapeRec, p: &[f32]| -> Vec<f32> {
            let vars: HashMap<Var, f32> = [(Var::X, p[0]), (Var::Y, p[1]), (Var::Z, p[2])].into_iter().collect();
            roots.iter().map(|r| ctx.eval(*r, &vars).unwrap()).collect()
        };
        emit(&mut w, id, "ctx", n, res, &cref, Mode::All, None);
        id += 1;
    }
    // (c2) every binary operator with a constant on either side, through the public Context API (flattening chooses
    // the immediate forms): constants at and next to powers of two (normal, subnormal, the largest), the boundary pool,
    // the specials; inputs from the boundary pool and at random
    {
        let mut consts: Vec<f32> = vec![];
        for e in [-149i32, -140, -128, -127, -126, -24, -3, -2, -1, 0, 1, 2, 4, 10, 23, 24, 64, 126, 127] {
            let b = if e >= -126 { f32::from_bits(((e + 127) as u32) << 23) } else { f32::from_bits(1u32 << (e + 149)) };
            for d in [-3i32, -1, 0, 1, 3] {
                let v = f32::from_bits((b.to_bits() as i32 + d).max(1) as u32);
                consts.push(v);
                consts.push(-v);
            }
        }
        consts.extend_from_slice(&pgen::BOUNDARY);
        consts.extend_from_slice(&SPECIALS);
        consts.extend_from_slice(&[0.1, 1.0 / 3.0, 10.0, 100.0, 1.0e-3, 7.0]);
        let stride = if quick { 5 } else { 1 };
        for (ci, c) in consts.iter().enumerate() {
            for op in 0..12usize {
                if (ci + op) % stride != 0 && !(op == 3 || op == 2) { continue; }   // mul and div: every constant, also in the quick tier
                for side in 0..2 {
                    let mut ctx = Context::new();
                    let x = ctx.x();
                    let y = ctx.y();
                    let k = ctx.constant(*c);
                    let t = if side == 0 { ctx_bin(&mut ctx, op, x, k) } else { ctx_bin(&mut ctx, op, k, x) };
                    // a second use next to another variable keeps the constant form under register pressure
                    let u = ctx_bin(&mut ctx, [0, 5, 2][ci % 3], t, y);
                    let roots = vec![t, u];
                    let mut pts = pgen::input_points(&mut rng, Mode::Boundary, 3, 6);
                    pts.extend(pgen::input_points(&mut rng, Mode::All, 3, 6));
                    for q in 0..4 { pts.push(vec![rng.range(-10.0, 10.0), rng.range(-2.0, 2.0), 0.0]); let _ = q; }
                    let n = [255usize, 3][(ci + op) % 2];
                    let res = with_n!(n, ctx_compile_and_eval(&ctx, &roots, &pts));
                    let cref = |_rec: &TapeRec, p: &[f32]| -> Vec<f32> {
                        let vars: HashMap<Var, f32> = [(Var::X, p[0]), (Var::Y, p[1]), (Var::Z, p[2])].into_iter().collect();
                        roots.iter().map(|r| ctx.eval(*r, &vars).unwrap()).collect()
                    };
                    emit(&mut w, id, "ctx", n, res, &cref, Mode::All, None);
                    id += 1;
                }
            }
        }
    }
    // (d) every DAG of the Flatten.tla bound through the real Context and SsaTape::new, with the tape the model predicts
    if let Some(path) = args.get(4) {
        let text = std::fs::read_to_string(path).unwrap();
        let mut lines: Vec<&str> = text.lines().filter(|l| l.contains("\"GEN\"")).collect();
        lines.sort();
        lines.dedup();
        for l in lines {
            let start = l.find(", \"").unwrap() + 3;
            let end = l.rfind("\">>").unwrap();
            let c: serde_json::Value = serde_json::from_str(&l[start..end].replace("\\\"", "\"")).unwrap();
            let dag = c["dag"].as_array().unwrap();
            let mut ctx = Context::new();
            let mut nodes: Vec<Node> = vec![];
            for (i, nd) in dag.iter().enumerate() {
                let kind = nd[0].as_str().unwrap();
                let a = nd[1].as_u64().unwrap() as usize;
                let b = nd[2].as_u64().unwrap() as usize;
                let n = match kind {
                    "x" => ctx.x(),
                    "y" => ctx.y(),
                    "k" => ctx.constant(2.5),
                    "un" => ctx_un(&mut ctx, [8, 9, 10, 13, 14, 15][i % 6], nodes[a - 1]),          // sin cos tan atan exp ln
                    "bin" => ctx_bin(&mut ctx, [1, 3, 4, 7, 8, 11][i % 6], nodes[a - 1], nodes[b - 1]), // sub div atan2 compare mod mix
                    _ => ctx_bin(&mut ctx, [5, 6][i % 2], nodes[a - 1], nodes[b - 1]),            // min max
                };
                nodes.push(n);
            }
            let mut uniq = nodes.clone();
            uniq.sort();
            uniq.dedup();
            let same_dag = uniq.len() == nodes.len();
            let roots: Vec<Node> = c["roots"].as_array().unwrap().iter().map(|r| nodes[r.as_u64().unwrap() as usize - 1]).collect();
            let pts = pgen::input_points(&mut rng, Mode::All, 3, 2);
            let res = ctx_compile_and_eval::<255>(&ctx, &roots, &pts);
            let cref = |_rec: &TapeRec, p: &[f32]| -> Vec<f32> {
                let vars: HashMap<Var, f32> = [(Var::X, p[0]), (Var::Y, p[1]), (Var::Z, p[2])].into_iter().collect();
                roots.iter().map(|r| ctx.eval(*r, &vars).unwrap()).collect()
            };
            // the model's tape and the real one, in one normal form: [kind, slot, lk, ls, rk, rs]
            let opnd = |o: &serde_json::Value| -> (String, i64) {
                if o[0] == "reg" { ("reg".into(), o[1].as_i64().unwrap()) } else { ("imm".into(), -1) }
            };
            let norm = |kind: &str, slot: i64, mut l: (String, i64), mut r: (String, i64)| {
                if kind == "min" && l.0 == "imm" {
                    std::mem::swap(&mut l, &mut r); // min / max with an immediate are emitted reg-imm whatever the side
                }
                json!([kind, slot, l.0, l.1, r.0, r.1])
            };
            let none = || ("none".to_string(), -1i64);
            let model: Vec<serde_json::Value> = c["tape"].as_array().unwrap().iter().map(|op| {
                let k = op[0].as_str().unwrap();
                let slot = op[1].as_i64().unwrap();
                match k {
                    "output" | "input" => norm(k, slot, ("idx".into(), op[2].as_i64().unwrap()), none()),
                    "copyimm" => norm(k, slot, none(), none()),
                    "un" => norm(k, slot, opnd(&op[2]), none()),
                    _ => norm(k, slot, opnd(&op[2]), opnd(&op[3])),
                }
            }).collect();
            let real: Vec<serde_json::Value> = match &res {
                Ok((rec, _)) => rec.ssa.iter().map(|g| {
                    let kind = if matches!(g.name.as_str(), "Min" | "Max") { "min" } else { "bin" };
                    match g.class {
                        0 => norm("output", g.a, ("idx".into(), g.b), none()),
                        1 => norm("input", g.out, ("idx".into(), g.a), none()),
                        2 => norm("copyimm", g.out, none(), none()),
                        3 => norm("un", g.out, ("reg".into(), g.a), none()),
                        4 => norm(kind, g.out, ("reg".into(), g.a), ("imm".into(), -1)),
                        5 => norm(kind, g.out, ("imm".into(), -1), ("reg".into(), g.a)),
                        _ => norm(kind, g.out, ("reg".into(), g.a), ("reg".into(), g.b)),
                    }
                }).collect(),
                Err(_) => vec![],
            };
            // emit through the common path, then add the flatten fields to the same line
            let mut buf: Vec<u8> = vec![];
            emit(&mut buf, id, "ctx", 255, res, &cref, Mode::All, None);
            let mut j: serde_json::Value = serde_json::from_slice(&buf).unwrap();
            j["flat"] = json!({"same_dag": same_dag, "model": model, "real": real, "choices": c["choices"], "slots": c["slots"]});
            writeln!(w, "{j}").unwrap();
            id += 1;
        }
    }
    w.flush().unwrap();
    for f in aev.files.values_mut() {
        f.flush().unwrap();
    }
    eprintln!("c01: {id} cases");
    let _ = bits(0.0);
}
