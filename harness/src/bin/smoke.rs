fn main(){}
