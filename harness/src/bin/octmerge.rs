//! C09 (mesh half): dumps of the multi-threaded octree build for Trace_OctreeMerge.tla.  With the mt_* hooks on, every
//! build reports its tasks (position in the root octree, local octree), the splits the fix-up walks, and the merged
//! octree; one build = one line.
//! Usage: octmerge <quick|thorough> <out.ndjson>
use fidget_core::{
    context::{Context, Node},
    render::ThreadPool,
    shape::Shape,
    vm::VmFunction,
};
use fidget_jit::JitFunction;
use fidget_mesh::{Octree, Settings};
use serde_json::{json, Value};
use std::io::Write;
use vharness::{
    hooks,
    keys::{seed_from_env, Rng},
    shapes::{self, Built},
};

fn cell(kind: i64, a: i64, b: i64) -> Value {
    let name = ["I", "E", "F", "B", "L"][kind as usize];
    json!([name, a, b])
}

fn build<F: fidget_core::eval::Function + fidget_core::render::RenderHints + fidget_core::eval::MathFunction + Clone>(
    w: &mut dyn Write, id: &mut usize, b: &Built, depth: u8, threads: usize,
) {
    let shape = Shape::<F>::new(&b.ctx, b.root).unwrap();
    let pool = ThreadPool::Custom(rayon::ThreadPoolBuilder::new().num_threads(threads).build().unwrap());
    let settings = Settings { depth, world_to_model: nalgebra::Matrix4::identity(), threads: Some(&pool), cancel: Default::default() };
    let vars = fidget_core::shape::ShapeVars::<f32>::new();
    let bound = shape.bind(&vars).unwrap();
    let _ = hooks::take();
    let r = vharness::catch(std::panic::AssertUnwindSafe(|| Octree::build(&bound, &settings).map(|o| o.walk_dual().triangles.len())));
    let mut evs = hooks::take();
    evs.retain(|e| e.name.starts_with("mt_"));
    evs.sort_by_key(|e| (e.thread, e.seq));
    let f = |e: &fidget_core::verif::Event, n: &str| hooks::field(e, n);
    let mut tasks: Vec<Value> = vec![];
    let mut fix: Vec<Value> = vec![];
    let mut groups: Vec<Vec<Value>> = vec![];
    let mut root = json!(null);
    let mut nverts = -1;
    for e in &evs {
        match e.name {
            "mt_task" => tasks.push(json!({"pos": [f(e, "pg"), f(e, "pj") + 1], "root": cell(f(e, "kind"), f(e, "a"), f(e, "b")), "groups": Vec::<Value>::new(), "nverts": f(e, "nverts"), "ncells": f(e, "ncells")})),
            "mt_lcell" => {
                let t = tasks.last_mut().unwrap();
                let gs = t["groups"].as_array_mut().unwrap();
                if f(e, "j") == 0 { gs.push(json!([])); }
                gs.last_mut().unwrap().as_array_mut().unwrap().push(cell(f(e, "kind"), f(e, "a"), f(e, "b")));
            }
            "mt_fix" => fix.push(json!([f(e, "pg"), f(e, "pj") + 1, f(e, "g")])),
            "mt_root" => { root = cell(f(e, "kind"), f(e, "a"), f(e, "b")); nverts = f(e, "nverts"); }
            "mt_cell" => {
                if f(e, "j") == 0 { groups.push(vec![]); }
                groups.last_mut().unwrap().push(cell(f(e, "kind"), f(e, "a"), f(e, "b")));
            }
            _ => {}
        }
    }
    let status = match &r { Ok(Some(_)) => "ok", Ok(None) => "none", Err(_) => "panic" };
    if tasks.is_empty() && status == "ok" {
        return; // single-threaded path (nothing to merge)
    }
    writeln!(w, "{}", json!({"id": *id, "status": status, "desc": b.desc, "depth": depth, "threads": threads,
        "tasks": tasks, "fix": fix, "root": root, "groups": groups, "nverts": nverts})).unwrap();
    *id += 1;
}

fn main() {
    let args: Vec<String> = std::env::args().collect();
    let quick = args[1] == "quick";
    let mut w = std::io::BufWriter::new(std::fs::File::create(&args[2]).unwrap());
    let mut rng = Rng::new(seed_from_env().wrapping_add(9090));
    hooks::install();
    let mut id = 0usize;
    let mk = |name: &str, f: &dyn Fn(&mut Context) -> Node| -> Built { let mut ctx = Context::new(); let root = f(&mut ctx); Built { ctx, root, desc: name.to_string() } };
    let mut solids: Vec<Built> = vec![
        mk("sphere 0.6", &|c| shapes::sphere(c, [0.03, -0.02, 0.05], 0.6)),
        mk("box +-0.5", &|c| shapes::box3(c, [-0.5, -0.5, -0.5], [0.5, 0.5, 0.5])),
        mk("slab", &|c| shapes::box3(c, [-0.8, -0.8, -0.1], [0.8, 0.8, 0.25])),
        mk("small sphere in one octant", &|c| shapes::sphere(c, [0.5, 0.5, 0.5], 0.3)),
        mk("nothing", &|c| shapes::sphere(c, [3.0, 3.0, 3.0], 0.1)),
        mk("everything", &|c| shapes::sphere(c, [0.0, 0.0, 0.0], 5.0)),
    ];
    for k in 0..(if quick { 6 } else { 40 }) {
        solids.push(shapes::random_csg3(&mut rng, 1 + k % 4, true));
    }
    for (k, b) in solids.iter().enumerate() {
        for (q, depth) in [1u8, 2, 3, 4].iter().enumerate() {
            if *depth == 4 && (quick || k % 3 != 0) && k != 1 { continue; }
            let threads = [2usize, 3, 8, 16][(k + q) % 4];
            if (k + q) % 2 == 0 { build::<VmFunction>(&mut w, &mut id, b, *depth, threads); } else { build::<JitFunction>(&mut w, &mut id, b, *depth, threads); }
        }
    }
    w.flush().unwrap();
    eprintln!("octmerge: {id} builds");
}
