//! C04 recorder: traces from all four tracing evaluators are fed to simplify
//! (same and different register budgets, chains over nested boxes); parent
//! and child are evaluated on the traced domain with every evaluator kind.
//! Usage: c04 <tlc-programs-file|-> <quick|thorough> <out.ndjson>
use fidget_core::{
    eval::Function,
    types::{Grad, Interval},
    vm::{GenericVmFunction, VmData, VmTrace, VmWorkspace},
};
use fidget_jit::JitFunction;
use serde_json::{json, Value};
use std::io::Write;
use vharness::{
    evalx::*,
    keys::{bits, unbits, seed_from_env, Rng, SPECIALS},
    pgen::{self, Inst, Mode},
    tapes::{ops_json, read_vmdata, ssa_eval, Prog, TapeRec},
    with_n,
};

fn rand_box(rng: &mut Rng, nvars: usize) -> Vec<Interval> {
    (0..nvars)
        .map(|_| {
            let a = if rng.below(4) == 0 { *rng.pick(&SPECIALS) } else { rng.range(-4.0, 4.0) };
            let a = if a.is_finite() { a.clamp(-1.0e6, 1.0e6) } else { 0.0 };
            match rng.below(4) {
                0 => Interval::new(a, a),
                1 => Interval::new(a, a + rng.range(0.0, 0.05)),
                _ => {
                    let b = rng.range(-4.0, 4.0);
                    Interval::new(a.min(b), a.max(b))
                }
            }
        })
        .collect()
}
fn sub_box(rng: &mut Rng, b: &[Interval]) -> Vec<Interval> {
    b.iter()
        .map(|i| {
            let (lo, hi) = (i.lower(), i.upper());
            if lo == hi {
                return *i;
            }
            let a = lo + (hi - lo) * rng.unit();
            let c = lo + (hi - lo) * rng.unit();
            Interval::new(a.min(c).max(lo), a.max(c).min(hi))
        })
        .collect()
}
/// corners (up to 8), midpoint and random interior points of a box
fn box_points(rng: &mut Rng, b: &[Interval], extra: usize) -> Vec<Vec<f32>> {
    let n = b.len();
    let mut pts = vec![];
    for mask in 0..(1usize << n.min(3)) {
        pts.push((0..n).map(|k| if (mask >> (k % 3)) & 1 == 1 { b[k].upper() } else { b[k].lower() }).collect());
    }
    pts.push(b.iter().map(|i| i.lower() + (i.upper() - i.lower()) * 0.5).collect());
    for _ in 0..extra {
        pts.push(b.iter().map(|i| (i.lower() + (i.upper() - i.lower()) * rng.unit()).clamp(i.lower(), i.upper())).collect());
    }
    pts
}

/// Evaluates a function with every evaluator kind on the given domain
fn observe<F: Function<Trace = VmTrace>>(f: &F, pts: &[Vec<f32>], bx: Option<&[Interval]>, nvars: usize) -> Value {
    let mut point = vec![];
    for p in pts {
        let t = point_trace(f, p);
        point.push(json!({"out": t.out.iter().map(|v| bits(*v)).collect::<Vec<_>>(), "err": t.err}));
    }
    let cols: Vec<Vec<f32>> = (0..nvars).map(|v| pts.iter().map(|p| p[v]).collect()).collect();
    let fs = float_slice(f, &cols);
    let slice = match &fs {
        Ok(o) => json!({"out": o.iter().map(|c| c.iter().map(|v| bits(*v)).collect::<Vec<_>>()).collect::<Vec<_>>(), "err": ""}),
        Err(e) => json!({"out": [], "err": e}),
    };
    let gcols: Vec<Vec<Grad>> = (0..nvars)
        .map(|v| pts.iter().map(|p| Grad::new(p[v], (v == 0) as u8 as f32, (v == 1) as u8 as f32, (v == 2) as u8 as f32 + (v > 2) as u8 as f32 * 0.5)).collect())
        .collect();
    let gs = grad_slice(f, &gcols);
    let grad = match &gs {
        Ok(o) => json!({"out": o.iter().map(|c| c.iter().map(gbits).collect::<Vec<_>>()).collect::<Vec<_>>(), "err": ""}),
        Err(e) => json!({"out": [], "err": e}),
    };
    let interval = match bx {
        Some(b) => {
            let t = interval_trace(f, b);
            json!({"out": t.out.iter().map(ibits).collect::<Vec<_>>(), "err": t.err, "has": true})
        }
        None => json!({"out": [], "err": "", "has": false}),
    };
    json!({"point": point, "slice": slice, "grad": grad, "interval": interval})
}

struct Cx<'a> {
    w: &'a mut dyn Write,
    id: usize,
    rng: Rng,
}

fn tape_json(r: &TapeRec) -> Value {
    r.json()
}

/// One simplification step and its observation. Returns the child on success.
fn step<P: Function<Trace = VmTrace>, C: Function<Trace = VmTrace>>(
    cx: &mut Cx,
    label: &str,
    depth: usize,
    parent: &P,
    parent_rec: &TapeRec,
    root: &P, // the original function: values are always compared against it
    root_ssa: &[vharness::tapes::GOp],
    trace: &[i64],
    tracer: &str,
    simplify: impl FnOnce() -> Result<Result<(C, TapeRec), String>, String>,
    pts: &[Vec<f32>],
    bx: Option<&[Interval]>,
    nvars: usize,
) -> Option<(C, TapeRec)> {
    let res = simplify();
    let (ok, panic, err, child) = match res {
        Ok(Ok(c)) => (true, false, String::new(), Some(c)),
        Ok(Err(e)) => (false, false, e, None),
        Err(m) => (false, true, m, None),
    };
    let bs: Vec<Vec<i64>> = pts.iter().map(|p| ssa_eval(&parent_rec.ssa, p).bitsens).collect();
    // does a NaN occur anywhere in the pointwise reference evaluation?
    // ... or the one locus where interval evaluation makes no claim (C03): an atan2 whose two arguments are both zero
    let nan_mid = |ssa: &[vharness::tapes::GOp], p: &[f32]| {
        let run = ssa_eval(ssa, p);
        let val = |i: i64| run.vals.get(i as usize).copied().flatten().unwrap_or(f32::NAN);
        run.vals.iter().flatten().any(|v| v.is_nan())
            || ssa.iter().any(|g| g.name == "Atan" && g.class >= 4 && {
                let (l, r) = match g.class { 4 => (val(g.a), unbits(g.imm)), 5 => (unbits(g.imm), val(g.a)), _ => (val(g.a), val(g.b)) };
                l == 0.0 && r == 0.0
            })
    };
    let nan_parent: Vec<bool> = pts.iter().map(|p| nan_mid(&parent_rec.ssa, p)).collect();
    let nan_root: Vec<bool> = pts.iter().map(|p| nan_mid(root_ssa, p)).collect();
    let mut j = json!({"ev": "simplify", "id": cx.id, "label": label, "depth": depth, "tracer": tracer,
        "ok": ok, "panic": panic, "err": err, "trace": trace, "parent": tape_json(parent_rec),
        "bs": bs, "nvars": nvars, "nan_parent": nan_parent, "nan_root": nan_root, "pts": pts.iter().map(|p| p.iter().map(|v| bits(*v)).collect::<Vec<_>>()).collect::<Vec<_>>(),
        "box": bx.map(|b| b.iter().map(ibits).collect::<Vec<_>>()).unwrap_or_default(),
        "root_obs": observe(root, pts, bx, nvars), "parent_obs": observe(parent, pts, bx, nvars), "parent_nvars": parent.vars().len(), "parent_nout": parent.output_count()});
    if let Some((c, rec)) = &child {
        j["child"] = tape_json(rec);
        j["child_obs"] = observe(c, pts, bx, nvars);
        j["child_nvars"] = json!(c.vars().len());
        j["child_nout"] = json!(c.output_count());
        let mut pv: Vec<(String, usize)> = parent.vars().iter().map(|(v, i)| (format!("{v}"), i)).collect();
        let mut cv: Vec<(String, usize)> = c.vars().iter().map(|(v, i)| (format!("{v}"), i)).collect();
        pv.sort();
        cv.sort();
        j["vars_same"] = json!(pv == cv);
        j["child_size"] = json!(c.size());
    } else {
        j["child"] = json!({"n": 0, "ssa": [], "asm": [], "slots": 0, "nch": 0, "nout": 0});
        j["child_obs"] = json!({"point": [], "slice": {"out": [], "err": ""}, "grad": {"out": [], "err": ""}, "interval": {"out": [], "err": "", "has": false}});
        j["child_nvars"] = json!(0);
        j["child_nout"] = json!(0);
        j["vars_same"] = json!(false);
        j["child_size"] = json!(0);
    }
    writeln!(cx.w, "{j}").unwrap();
    cx.id += 1;
    child
}

fn codes_to_trace(c: &[i64]) -> VmTrace {
    // VmTrace has no public constructor from a Vec; build it through its pub API
    let mut t = VmTrace::default();
    t.resize(c.len(), fidget_core::vm::Choice::Unknown);
    for (d, s) in t.as_mut_slice().iter_mut().zip(c) {
        *d = match s {
            1 => fidget_core::vm::Choice::Left,
            2 => fidget_core::vm::Choice::Right,
            3 => fidget_core::vm::Choice::Both,
            _ => fidget_core::vm::Choice::Unknown,
        };
    }
    t
}

fn vm_simplify<const N: usize, const M: usize>(f: &GenericVmFunction<N>, trace: &[i64]) -> Result<Result<(GenericVmFunction<M>, TapeRec), String>, String> {
    let t = codes_to_trace(trace);
    vharness::catch(std::panic::AssertUnwindSafe(|| {
        let mut ws = VmWorkspace::<M>::default();
        f.simplify_with::<M>(&t, VmData::<M>::default(), &mut ws)
            .map(|c| {
                let rec = read_vmdata(c.data());
                (c, rec)
            })
            .map_err(|e| format!("{e}"))
    }))
}
fn jit_simplify(f: &JitFunction, trace: &[i64]) -> Result<Result<(JitFunction, TapeRec), String>, String> {
    let t = codes_to_trace(trace);
    vharness::catch(std::panic::AssertUnwindSafe(|| {
        let mut ws = Default::default();
        f.simplify(&t, Default::default(), &mut ws)
            .map(|c| {
                let g: &GenericVmFunction<12> = (&c).into();
                let rec = read_vmdata(g.data());
                (c, rec)
            })
            .map_err(|e| format!("{e}"))
    }))
}

/// chain of simplifications on the VM: N -> M -> N ..., traces from the
/// current function's own evaluators (alternating interval / point tracers)
fn vm_chain<const N: usize, const M: usize>(cx: &mut Cx, p: &Prog, jit_tracer: bool) {
    let Ok(root) = vm_fn::<N>(p) else { return };
    let root_rec = read_vmdata(root.data());
    // traces are only promised for the function they came from: same backend
    let _ = jit_tracer;
    let jroot: Option<JitFunction> = None;
    let nvars = p.nvars;
    // interval trace on a box
    let bx = rand_box(&mut cx.rng, nvars);
    let pts = box_points(&mut cx.rng, &bx, 3);
    let (t, tracer) = match &jroot {
        Some(j) => (interval_trace(j, &bx), "jit-interval"),
        None => (interval_trace(&root, &bx), "vm-interval"),
    };
    if let Some(tr) = t.trace {
        let c = step(cx, "vm", 1, &root, &root_rec, &root, &root_rec.ssa, &tr, tracer, || vm_simplify::<N, M>(&root, &tr), &pts, Some(&bx), nvars);
        if let Some((c1, c1rec)) = c {
            // nested box, trace from the child itself
            let bx2 = sub_box(&mut cx.rng, &bx);
            let pts2 = box_points(&mut cx.rng, &bx2, 2);
            let t2 = interval_trace(&c1, &bx2);
            if let Some(tr2) = t2.trace {
                // values are compared against the original root on the nested box
                let root_m = vm_fn::<M>(p).unwrap();
                let c2 = step(cx, "vm", 2, &c1, &c1rec, &root_m, &root_rec.ssa, &tr2, "vm-interval", || vm_simplify::<M, N>(&c1, &tr2), &pts2, Some(&bx2), nvars);
                if let Some((c2f, c2rec)) = c2 {
                    // finally a point inside the nested box
                    let pt = pts2[pts2.len() - 1].clone();
                    let t3 = point_trace(&c2f, &pt);
                    if let Some(tr3) = t3.trace {
                        step(cx, "vm", 3, &c2f, &c2rec, &root, &root_rec.ssa, &tr3, "vm-point", || vm_simplify::<N, M>(&c2f, &tr3), &[pt], None, nvars);
                    }
                }
            }
        }
    }
    // point traces
    for k in 0..2 {
        let mode = if k == 0 { Mode::All } else { Mode::Z };
        let pt = pgen::input_points(&mut cx.rng, mode, nvars, 1).remove(0);
        let (t, tracer) = match &jroot {
            Some(j) => (point_trace(j, &pt), "jit-point"),
            None => (point_trace(&root, &pt), "vm-point"),
        };
        if let Some(tr) = t.trace {
            step(cx, "vm", 1, &root, &root_rec, &root, &root_rec.ssa, &tr, tracer, || vm_simplify::<N, M>(&root, &tr), &[pt], None, nvars);
        }
    }
}

fn jit_chain(cx: &mut Cx, p: &Prog, vm_tracer: bool) {
    let Ok(root) = jit_fn(p) else { return };
    let g: &GenericVmFunction<12> = (&root).into();
    let root_rec = read_vmdata(g.data());
    let _ = vm_tracer;
    let vroot: Option<GenericVmFunction<255>> = None;
    let nvars = p.nvars;
    let bx = rand_box(&mut cx.rng, nvars);
    let pts = box_points(&mut cx.rng, &bx, 3);
    let (t, tracer) = match (&vroot, vm_tracer) {
        (Some(v), true) => (interval_trace(v, &bx), "vm-interval"),
        _ => (interval_trace(&root, &bx), "jit-interval"),
    };
    if let Some(tr) = t.trace {
        let c = step(cx, "jit", 1, &root, &root_rec, &root, &root_rec.ssa, &tr, tracer, || jit_simplify(&root, &tr), &pts, Some(&bx), nvars);
        if let Some((c1, c1rec)) = c {
            let bx2 = sub_box(&mut cx.rng, &bx);
            let pts2 = box_points(&mut cx.rng, &bx2, 2);
            let t2 = interval_trace(&c1, &bx2);
            if let Some(tr2) = t2.trace {
                let c2 = step(cx, "jit", 2, &c1, &c1rec, &root, &root_rec.ssa, &tr2, "jit-interval", || jit_simplify(&c1, &tr2), &pts2, Some(&bx2), nvars);
                if let Some((c2f, c2rec)) = c2 {
                    let pt = pts2[pts2.len() - 1].clone();
                    let t3 = point_trace(&c2f, &pt);
                    if let Some(tr3) = t3.trace {
                        step(cx, "jit", 3, &c2f, &c2rec, &root, &root_rec.ssa, &tr3, "jit-point", || jit_simplify(&c2f, &tr3), &[pt], None, nvars);
                    }
                }
            }
        }
    }
    for k in 0..2 {
        let mode = if k == 0 { Mode::All } else { Mode::Z };
        let pt = pgen::input_points(&mut cx.rng, mode, nvars, 1).remove(0);
        let (t, tracer) = match (&vroot, vm_tracer) {
            (Some(v), true) => (point_trace(v, &pt), "vm-point"),
            _ => (point_trace(&root, &pt), "jit-point"),
        };
        if let Some(tr) = t.trace {
            step(cx, "jit", 1, &root, &root_rec, &root, &root_rec.ssa, &tr, tracer, || jit_simplify(&root, &tr), &[pt], None, nvars);
        }
    }
}

fn main() {
    let args: Vec<String> = std::env::args().collect();
    let quick = args[2] == "quick";
    let mut file = std::io::BufWriter::new(std::fs::File::create(&args[3]).unwrap());
    let seed = seed_from_env();
    let mut cx = Cx { w: &mut file, id: 0, rng: Rng::new(seed.wrapping_add(404)) };
    let mut progs: Vec<Prog> = vec![];
    if args[1] != "-" {
        let aps = pgen::read_tlc_programs(&args[1]);
        let stride = if quick { 4 } else { 1 };
        for (pi, ap) in aps.iter().enumerate().step_by(stride) {
            let mode = if pi % 4 == 0 { Mode::Z } else { Mode::Choice };
            let mut inst = Inst::new(seed.wrapping_mul(131).wrapping_add(pi as u64), mode, 3);
            let p = inst.instantiate(ap);
            if p.nch() > 0 {
                progs.push(p);
            }
        }
    }
    let nlong = if quick { 150 } else { 1500 };
    for k in 0..nlong {
        let mode = if k % 5 == 0 { Mode::All } else { Mode::Choice };
        let mut inst = Inst::new(cx.rng.next(), mode, 1 + k % 4);
        let nops = [6, 14, 30, 60, 120][k % 5];
        let ap = inst.random_abstract(nops, [3, 5, 8, 14][k % 4], 4);
        progs.push(inst.instantiate(&ap));
    }
    progs.extend(pgen::directed_programs().into_iter().filter(|(p, _, _)| p.nch() > 0).map(|(p, _, _)| p));
    for (k, p) in progs.iter().enumerate() {
        match k % 6 {
            0 => vm_chain::<3, 5>(&mut cx, p, false),
            1 => vm_chain::<255, 3>(&mut cx, p, false),
            2 => vm_chain::<12, 255>(&mut cx, p, true),
            3 => vm_chain::<4, 4>(&mut cx, p, true),
            4 => jit_chain(&mut cx, p, false),
            _ => jit_chain(&mut cx, p, true),
        }
    }
    let n = cx.id;
    file.flush().unwrap();
    vharness::evalx::exit_on_build_failures("c04");
    eprintln!("c04: {n} simplifications over {} programs", progs.len());
    let _ = ops_json(&[]);
    let _ = with_n!(3, nop());
}
fn nop<const N: usize>() {}
