//! Localises a point/slice/reference disagreement to the first SSA op:
//! diag <trace.ndjson> <id>
use fidget_core::{eval::{BulkEvaluator, Function, TracingEvaluator}, vm::GenericVmFunction};
use vharness::{keys::unbits, tapes::{make_vmdata, ssa_eval, GOp, Prog}, with_n};

fn run<const N: usize>(p: &Prog, pt: &[f32]) -> (Vec<f32>, Vec<f32>) {
    let d = make_vmdata::<N>(p).unwrap();
    let f = GenericVmFunction::<N>::from(d);
    let mut pe = GenericVmFunction::<N>::new_point_eval();
    let a = pe.eval(&f.point_tape(Default::default()), pt).unwrap().0.to_vec();
    let mut se = GenericVmFunction::<N>::new_float_slice_eval();
    let cols: Vec<Vec<f32>> = pt.iter().map(|v| vec![*v; 3]).collect();
    let o = se.eval(&f.float_slice_tape(Default::default()), &cols).unwrap();
    let b = (0..o.len()).map(|i| o[i][1]).collect();
    (a, b)
}
fn runjit(p: &Prog, pt: &[f32]) -> Vec<f32> {
    let f = vharness::evalx::jit_fn(p).unwrap();
    vharness::evalx::point_trace(&f, pt).out
}
fn main() {
    let args: Vec<String> = std::env::args().collect();
    let id: i64 = args[2].parse().unwrap();
    for l in std::fs::read_to_string(&args[1]).unwrap().lines() {
        let r: serde_json::Value = serde_json::from_str(l).unwrap();
        if r["id"].as_i64() != Some(id) { continue; }
        let n = r["n"].as_u64().unwrap_or(12) as usize;
        let ssa: Vec<GOp> = (if r["ssa"].is_null() { &r["parent"]["ssa"] } else { &r["ssa"] }).as_array().unwrap().iter().map(|o| { let a = o.as_array().unwrap();
            GOp::new(a[0].as_u64().unwrap() as u8, a[1].as_str().unwrap(), a[2].as_i64().unwrap(), a[3].as_i64().unwrap(), a[4].as_i64().unwrap(), a[5].as_i64().unwrap()) }).collect();
        let nvars = ssa.iter().filter(|g| g.class == 1).map(|g| g.a + 1).max().unwrap_or(0) as usize;
        let pts: Vec<Vec<f32>> = if r["evals"].is_null() { vec![std::env::args().skip(3).map(|s| unbits(s.parse::<i64>().unwrap())).collect()] } else { r["evals"].as_array().unwrap().iter().map(|e| e["in"].as_array().unwrap().iter().map(|b| unbits(b.as_i64().unwrap())).collect()).collect() };
        for pt in pts {
            let reference = ssa_eval(&ssa, &pt);
            // ops in evaluation order
            for g in ssa.iter().rev().filter(|g| g.class != 0) {
                let mut s2: Vec<GOp> = vec![GOp::new(0, "Output", -1, g.out, 0, 0)];
                // only the ops the chosen slot depends on
                let mut need = std::collections::HashSet::new();
                need.insert(g.out);
                for h in ssa.iter().filter(|h| h.class != 0) {
                    if need.contains(&h.out) {
                        if h.class >= 3 { need.insert(h.a); }
                        if h.class == 6 { need.insert(h.b); }
                        s2.push(h.clone());
                    }
                }
                // renumber slots densely (the allocator sizes its table by tape length)
                let mut map = std::collections::HashMap::new();
                let ren = |x: i64, map: &mut std::collections::HashMap<i64, i64>| -> i64 { if x < 0 { x } else { let n = map.len() as i64; *map.entry(x).or_insert(n) } };
                for h in s2.iter_mut() {
                    if h.class == 0 { h.a = ren(h.a, &mut map); continue; }
                    h.out = ren(h.out, &mut map);
                    if h.class >= 3 { h.a = ren(h.a, &mut map); }
                    if h.class == 6 { h.b = ren(h.b, &mut map); }
                }
                let p = Prog { ssa: s2, nvars };
                let (a, b) = with_n!(n, run(&p, &pt));
                let rv = reference.vals[g.out as usize].unwrap();
                let same = |x: f32, y: f32| x.to_bits() == y.to_bits() || (x.is_nan() && y.is_nan());
                let jv = runjit(&p, &pt);
                if !same(a[0], rv) || !same(b[0], rv) || !same(jv[0], rv) {
                    println!("jit {} ({:#x}) vs ref {:#x}", jv[0], jv[0].to_bits(), rv.to_bits());
                    let arg = |i: i64| if i >= 0 { reference.vals[i as usize] } else { None };
                    println!("first bad op {:?}: operands {:?} {:?} imm {} ; ref {} point {} slice {}", g, arg(g.a), arg(g.b), unbits(g.imm), rv, a[0], b[0]);
                    break;
                }
            }
        }
    }
}
