//! Shapes for the renderers and the mesher, built through the public Context API
use crate::keys::Rng;
use fidget_core::context::{Context, Node};

pub struct Built {
    pub ctx: Context,
    pub root: Node,
    pub desc: String,
}

fn c(ctx: &mut Context, v: f32) -> Node {
    ctx.constant(v)
}
/// axis-aligned box [x0,x1] x [y0,y1] (x [z0,z1]) as max of half-space distances; negative inside
pub fn rect2(ctx: &mut Context, x0: f32, x1: f32, y0: f32, y1: f32) -> Node {
    let (x, y) = (ctx.x(), ctx.y());
    let k = [c(ctx, x0), c(ctx, x1), c(ctx, y0), c(ctx, y1)];
    let a = ctx.sub(k[0], x).unwrap();
    let b = ctx.sub(x, k[1]).unwrap();
    let d = ctx.sub(k[2], y).unwrap();
    let e = ctx.sub(y, k[3]).unwrap();
    let ab = ctx.max(a, b).unwrap();
    let de = ctx.max(d, e).unwrap();
    ctx.max(ab, de).unwrap()
}
pub fn box3(ctx: &mut Context, lo: [f32; 3], hi: [f32; 3]) -> Node {
    let xy = rect2(ctx, lo[0], hi[0], lo[1], hi[1]);
    let z = ctx.z();
    let (k0, k1) = (c(ctx, lo[2]), c(ctx, hi[2]));
    let a = ctx.sub(k0, z).unwrap();
    let b = ctx.sub(z, k1).unwrap();
    let ab = ctx.max(a, b).unwrap();
    ctx.max(xy, ab).unwrap()
}
pub fn circle(ctx: &mut Context, cx: f32, cy: f32, r: f32) -> Node {
    let (x, y) = (ctx.x(), ctx.y());
    let (kx, ky, kr) = (c(ctx, cx), c(ctx, cy), c(ctx, r));
    let dx = ctx.sub(x, kx).unwrap();
    let dy = ctx.sub(y, ky).unwrap();
    let dx2 = ctx.square(dx).unwrap();
    let dy2 = ctx.square(dy).unwrap();
    let s = ctx.add(dx2, dy2).unwrap();
    let q = ctx.sqrt(s).unwrap();
    ctx.sub(q, kr).unwrap()
}
pub fn sphere(ctx: &mut Context, p: [f32; 3], r: f32) -> Node {
    let (x, y, z) = (ctx.x(), ctx.y(), ctx.z());
    let k = [c(ctx, p[0]), c(ctx, p[1]), c(ctx, p[2]), c(ctx, r)];
    let dx = ctx.sub(x, k[0]).unwrap();
    let dy = ctx.sub(y, k[1]).unwrap();
    let dz = ctx.sub(z, k[2]).unwrap();
    let a = ctx.square(dx).unwrap();
    let b = ctx.square(dy).unwrap();
    let d = ctx.square(dz).unwrap();
    let ab = ctx.add(a, b).unwrap();
    let s = ctx.add(ab, d).unwrap();
    let q = ctx.sqrt(s).unwrap();
    ctx.sub(q, k[3]).unwrap()
}
/// plane n . p - d
pub fn plane(ctx: &mut Context, n: [f32; 3], d: f32) -> Node {
    let (x, y, z) = (ctx.x(), ctx.y(), ctx.z());
    let k = [c(ctx, n[0]), c(ctx, n[1]), c(ctx, n[2]), c(ctx, d)];
    let a = ctx.mul(x, k[0]).unwrap();
    let b = ctx.mul(y, k[1]).unwrap();
    let e = ctx.mul(z, k[2]).unwrap();
    let ab = ctx.add(a, b).unwrap();
    let s = ctx.add(ab, e).unwrap();
    ctx.sub(s, k[3]).unwrap()
}

/// random CSG of 2D primitives within [-1, 1]^2
pub fn random_csg2(rng: &mut Rng, n: usize) -> Built {
    let mut ctx = Context::new();
    let mut desc = String::from("csg2:");
    let mut acc: Option<Node> = None;
    for i in 0..n {
        let prim = match rng.below(3) {
            0 => {
                let (cx, cy, r) = (rng.range(-0.8, 0.8), rng.range(-0.8, 0.8), rng.range(0.1, 0.7));
                desc += &format!("circle({cx:.2},{cy:.2},{r:.2})");
                circle(&mut ctx, cx, cy, r)
            }
            1 => {
                let (x0, y0) = (rng.range(-0.9, 0.5), rng.range(-0.9, 0.5));
                let (w, h) = (rng.range(0.1, 0.9), rng.range(0.1, 0.9));
                desc += &format!("rect({x0:.2},{y0:.2},{w:.2},{h:.2})");
                rect2(&mut ctx, x0, x0 + w, y0, y0 + h)
            }
            _ => {
                let a = rng.range(0.0, 6.28);
                let d = rng.range(-0.5, 0.5);
                desc += &format!("halfplane({a:.2},{d:.2})");
                plane(&mut ctx, [a.cos(), a.sin(), 0.0], d)
            }
        };
        acc = Some(match acc {
            None => prim,
            Some(a) => match (i + rng.below(3)) % 3 {
                0 => { desc += " union "; ctx.min(a, prim).unwrap() }
                1 => { desc += " inter "; ctx.max(a, prim).unwrap() }
                _ => { desc += " minus "; let n = ctx.neg(prim).unwrap(); ctx.max(a, n).unwrap() }
            },
        });
    }
    Built { ctx, root: acc.unwrap(), desc }
}

/// random CSG of 3D primitives strictly inside (-1, 1)^3 (when `inside`), else may touch the boundary
pub fn random_csg3(rng: &mut Rng, n: usize, inside: bool) -> Built {
    let mut ctx = Context::new();
    let mut desc = String::from("csg3:");
    let lim = if inside { 0.55 } else { 0.95 };
    let mut acc: Option<Node> = None;
    for i in 0..n {
        let prim = match rng.below(3) {
            0 | 1 if i == 0 || rng.below(2) == 0 => {
                let p = [rng.range(-lim + 0.25, lim - 0.25), rng.range(-lim + 0.25, lim - 0.25), rng.range(-lim + 0.25, lim - 0.25)];
                let r = rng.range(0.15, 0.3);
                desc += &format!("sphere({:.2},{:.2},{:.2};{r:.2})", p[0], p[1], p[2]);
                sphere(&mut ctx, p, r)
            }
            _ => {
                let lo = [rng.range(-lim, 0.1), rng.range(-lim, 0.1), rng.range(-lim, 0.1)];
                let hi = [lo[0] + rng.range(0.15, lim - 0.1), lo[1] + rng.range(0.15, lim - 0.1), lo[2] + rng.range(0.15, lim - 0.1)];
                desc += &format!("box({:.2},{:.2},{:.2}..{:.2},{:.2},{:.2})", lo[0], lo[1], lo[2], hi[0], hi[1], hi[2]);
                box3(&mut ctx, lo, hi)
            }
        };
        acc = Some(match acc {
            None => prim,
            Some(a) => match rng.below(4) {
                0 | 1 => { desc += " union "; ctx.min(a, prim).unwrap() }
                2 => { desc += " minus "; let n = ctx.neg(prim).unwrap(); ctx.max(a, n).unwrap() }
                _ => { desc += " union2 "; ctx.min(prim, a).unwrap() }
            },
        });
    }
    Built { ctx, root: acc.unwrap(), desc }
}

/// shapes whose interval over some tiles is NaN while pixel values are finite
pub fn nan_interval_shape(k: usize) -> Built {
    let mut ctx = Context::new();
    let (x, y) = (ctx.x(), ctx.y());
    let (root, desc) = match k % 3 {
        0 => {
            let h = c(&mut ctx, 0.5);
            let s = ctx.add(x, h).unwrap();
            let q = ctx.sqrt(s).unwrap();
            let k7 = c(&mut ctx, 0.7);
            (ctx.sub(q, k7).unwrap(), "sqrt(x+0.5)-0.7")
        }
        1 => {
            let t = c(&mut ctx, 0.1);
            let d = ctx.div(t, x).unwrap();
            let a = ctx.sub(d, y).unwrap();
            let cc = circle(&mut ctx, 0.0, 0.0, 0.9);
            (ctx.max(a, cc).unwrap(), "max(0.1/x-y, circle 0.9)")
        }
        _ => {
            let l = ctx.ln(x).unwrap();
            let a = ctx.add(l, y).unwrap();
            (a, "ln(x)+y")
        }
    };
    Built { ctx, root, desc: desc.to_string() }
}

pub fn model(name: &str) -> Option<Built> {
    let path = format!("/repo/models/{name}.vm");
    let f = std::fs::File::open(&path).ok()?;
    let (ctx, root) = Context::from_text(f).ok()?;
    Some(Built { ctx, root, desc: format!("model:{name}") })
}
