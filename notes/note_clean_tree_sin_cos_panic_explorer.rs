use fidget_core::types::Interval;

fn next_up(x: f32) -> f32 {
    if x >= 0.0 {
        f32::from_bits(x.to_bits() + 1)
    } else {
        f32::from_bits(x.to_bits() - 1)
    }
}

#[test]
fn explore_trig() {
    let mut fails = 0;
    let mut x = 0.5f32;
    while x < 1e9 {
        for k in 1..6 {
            let mut u = x;
            for _ in 0..k {
                u = next_up(u);
            }
            for (l, u) in [(x, u), (-u, -x)] {
                let i = Interval::new(l, u);
                for (name, f) in [
                    ("sin", Interval::sin as fn(Interval) -> Interval),
                    ("cos", Interval::cos),
                    ("tan", Interval::tan),
                ] {
                    let r = std::panic::catch_unwind(|| f(i));
                    if r.is_err() {
                        fails += 1;
                        if fails < 20 {
                            eprintln!("PANIC {name} {i:?}");
                        }
                    }
                }
            }
        }
        x *= 1.0003;
    }
    eprintln!("fails: {fails}");
}

#[test]
fn explore_mod() {
    let mut fails = 0;
    for d in [0.1f32, 0.2, 0.3, 0.7, 1.1, 3.0, 0.01, 2.5, 1.0] {
        for k in 1..2000 {
            let l = d * k as f32;
            for l in [l, -l, l * 0.1] {
                let u = l + d * 0.25;
                let i = Interval::new(l, u);
                let r = std::panic::catch_unwind(|| i.rem_euclid(d.into()));
                if r.is_err() {
                    fails += 1;
                    if fails < 20 {
                        eprintln!("PANIC mod {i:?} {d}");
                    }
                }
            }
        }
    }
    eprintln!("mod fails: {fails}");
}
