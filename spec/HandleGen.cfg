SPECIFICATION Spec
CONSTANTS Boxes = {1, 2, 3}
          NoGain = {3}
          MaxDepth = 2
          MaxWalks = 3
INVARIANT Coherent
INVARIANT NoAlias
INVARIANT Denotes
INVARIANT Emit
CHECK_DEADLOCK FALSE
