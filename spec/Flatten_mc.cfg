SPECIFICATION Spec
CONSTANT K = 4
INVARIANT Correct
CHECK_DEADLOCK FALSE
