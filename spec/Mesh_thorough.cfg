SPECIFICATION Spec
CONSTANT NoCollapseRun = FALSE
CONSTANT Depth = 2
CONSTANT NFree = 6
INVARIANT MeshOK
INVARIANT Outward
CHECK_DEADLOCK FALSE
