SPECIFICATION Spec
INVARIANT ProductRule
INVARIANT SumRule
INVARIANT SquareRule
INVARIANT AbsRule
INVARIANT MinRule
CHECK_DEADLOCK FALSE
