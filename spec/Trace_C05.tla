------------------------------ MODULE Trace_C05 ------------------------------
(***************************************************************************)
(* Trace specification for C05 (gradients).                                *)
(*  `zprog` : programs of the exact sub-language with arbitrary integer    *)
(*     seeds.  The expected dual of every output is recomputed here by     *)
(*     Grad!ZDRun; the interpreter (two budgets), the JIT and the symbolic *)
(*     derivative (Context::deriv evaluated by Context::eval, unit seeds)  *)
(*     must return exactly those integers.                                 *)
(*  `nodes` : local obligations on tapes with every slot exported: the     *)
(*     value of the result dual equals the point opcode on the operand     *)
(*     values (bit for bit, NaN~NaN, sign of zero free for min/max); each  *)
(*     partial lies in the enclosure of the chain rule applied to the      *)
(*     operand duals the evaluator itself reported (reference computed in  *)
(*     f64 by the harness: judged).  Non-differentiable points are outside *)
(*     the claim: ties of min/max/compare, zeros of abs/and/or/not, and    *)
(*     what the reference flags (integer points of floor/ceil/round,       *)
(*     branch cuts, poles).                                                *)
(*  `whole` : smooth programs, with arbitrary seeds or through a shape     *)
(*     with an affine / projective input transform: value and partials of  *)
(*     every evaluator and of the symbolic derivative lie in the enclosure *)
(*     of an independent f64 dual-number evaluation (judged).              *)
(***************************************************************************)
EXTENDS Integers, Sequences, FiniteSets, TLC, Json, IOUtils, Grad

Rec == ndJsonDeserialize(IOEnv.TRACE)
VARIABLE l
vars == <<l>>

IsInt(b, v) == IsSmallInt(b) /\ IntOf(b) = v
InEncl(e, g) == ~IsNaN(g) /\ ~IsNaN(e[1]) /\ ~IsNaN(e[2]) /\ Key(e[1]) <= Key(g) /\ Key(g) <= Key(e[2])

ZFails(r) ==
  LET z == ZDRun(r.ssa, r.zin) IN
  IF ~z[3] THEN {} ELSE
  {("z-" \o k) : k \in {kk \in DOMAIN r.got :
        ~(Len(r.got[kk]) = r.nout /\ \A o \in 1..r.nout : (o - 1) \in DOMAIN z[2] /\
            \A c \in 1..4 : IsInt(r.got[kk][o][c], z[2][o - 1][c]))}}

\* op = <<name, class, A, B, got, vref, enc, diff>>
TieOrZero(op) ==
  LET nm == op[1] a == op[3][1] b == op[4][1] IN
  \/ IsNaN(a) \/ IsNaN(b)
  \/ (nm \in {"Min", "Max", "Compare"} /\ op[2] # 3 /\ EqNum(a, b))
  \/ (nm \in {"Abs", "And", "Or", "Not"} /\ IsZero(a))
\* "a value equal to the point evaluator's": numerically equal, so -0 and +0 agree
\* (Grad::abs keeps -0 where f32::abs gives +0)
OpValueOk(op) == SameZ(op[5][1], op[6])
OpPartialsOk(op) == ~op[8] \/ TieOrZero(op) \/ \A k \in 1..3 : InEncl(op[7][k], op[5][k + 1])
NodeFails(r) ==
     {("value-" \o r.ops[k][1]) : k \in {j \in 1..Len(r.ops) : ~OpValueOk(r.ops[j])}}
  \cup {("partial-" \o r.ops[k][1]) : k \in {j \in 1..Len(r.ops) : ~OpPartialsOk(r.ops[j])}}

\* (an evaluator that could not be built for a recorded program is a failure too: a record judged by nobody is vacuous)
WholeFails(r) ==
  (IF r.mat \/ {"vm", "jit"} \subseteq DOMAIN r.got THEN {} ELSE {"whole-evaluator-missing"}) \cup
  {("whole-" \o k) : k \in {kk \in DOMAIN r.got :
        ~(Len(r.got[kk]) = r.nout /\ \A o \in 1..r.nout : \A c \in 1..4 : InEncl(r.enc[o][c], r.got[kk][o][c]))}}

Fails(r) == CASE r.ev = "zprog" -> ZFails(r)
              [] r.ev = "nodes" -> NodeFails(r)
              [] r.ev = "whole" -> WholeFails(r)
              [] r.ev = "evalfail" -> {"eval-error"}
              [] OTHER -> {"unknown-event"}

Init == l = 1
Next == /\ l <= Len(Rec)
        /\ l' = l + 1
        /\ LET f == Fails(Rec[l]) IN f = {} \/ PrintT(<<"REJECT", Rec[l].id, f>>)
Spec == Init /\ [][Next]_vars
Consumed == TLCGet("stats").diameter - 1 = Len(Rec) \/ PrintT(<<"UNCONSUMED", TLCGet("stats").diameter, Len(Rec)>>)
==============================================================================
