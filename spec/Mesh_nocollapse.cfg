SPECIFICATION SpecNoCollapse
CONSTANT NoCollapseRun = TRUE
CONSTANT Depth = 2
CONSTANT NFree = 9
INVARIANT ManifoldIffNoSharedAmbiguous
INVARIANT Outward
CHECK_DEADLOCK FALSE
