SPECIFICATION Spec
CONSTANTS Deep = TRUE
INVARIANT Emit
INVARIANT Involution
INVARIANT DeMorgan
INVARIANT MoveBack
INVARIANT FourQuarters
INVARIANT ReflectTwice
CHECK_DEADLOCK FALSE
