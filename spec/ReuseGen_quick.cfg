SPECIFICATION Spec
CONSTANTS MaxLen = 3
INVARIANT Independent
INVARIANT EmitHist
CHECK_DEADLOCK FALSE
