------------------------------ MODULE Trace_C04 ------------------------------
(***************************************************************************)
(* Trace specification for C04.  Each line is one call of simplify on the  *)
(* real code with a trace obtained from one of the four tracing            *)
(* evaluators, and what parent, original function and child then returned  *)
(* on the traced domain under every evaluator kind.  Property level only:  *)
(*   - simplify succeeded (a returned trace can always be used);           *)
(*   - the child keeps variable numbering and output count/order;          *)
(*   - the child's register tape implements the child's SSA tape           *)
(*     (simplification re-allocates: Tapes!Implements, Tapes!Bounds);      *)
(*   - bit-identical outputs (NaN matching NaN): child = parent for the    *)
(*     point, many-point, gradient and interval evaluators on the box /    *)
(*     point that produced the trace, and child = original function for    *)
(*     the point-wise evaluators along chains over nested boxes.           *)
(* Tapes!Resolves (the child is the parent with decided clauses replaced)  *)
(* is checked too but only reported as SPEC-DRIFT.                         *)
(***************************************************************************)
EXTENDS Integers, Sequences, FiniteSets, TLC, Json, IOUtils, Tapes

Rec == ndJsonDeserialize(IOEnv.TRACE)
VARIABLE l
vars == <<l>>

SeqSame(x, y) == Len(x) = Len(y) /\ \A i \in 1..Len(x) : SameF(x[i], y[i])
\* Interval evaluation makes no claim about points whose value is NaN (C03), so a
\* trace taken by an interval evaluator makes none either: for such traces a
\* sample is judged only if no NaN occurs in the pointwise reference evaluation
\* (nan_parent / nan_root are also set where an atan2 has both arguments zero, the
\* one locus that C03 excludes).
IntervalDerived(r) == r.tracer \in {"vm-interval", "jit-interval"}
Tainted(r, s) == (\E k \in 1..Len(r.bs[s]) : IsNaN(r.bs[s][k])) \/ (IntervalDerived(r) /\ r.nan_parent[s])
RootTainted(r, s) == Tainted(r, s) \/ r.nan_root[s] \/ r.nan_parent[s]
NS(r) == Len(r.bs)        \* number of sample points

\* Evaluator kinds of one backend may legitimately disagree on the parent itself
\* (C02: a min/max of equal zeros may differ in the sign of zero, NaN payloads),
\* and that difference can be amplified by later operations.  A trace taken by
\* one kind then does not describe the other kind's evaluation at that sample:
\* kind K is judged at sample s only where the parent's K result agrees with
\* the parent's point result.
Coherent(r, s) ==
  LET p == r.parent_obs IN
  /\ p.point[s].err = "" /\ p.slice.err = "" /\ p.grad.err = ""
  /\ \A o \in 1..Len(p.point[s].out) :
        /\ o <= Len(p.slice.out) /\ s <= Len(p.slice.out[o]) /\ SameF(p.point[s].out[o], p.slice.out[o][s])
        /\ o <= Len(p.grad.out) /\ s <= Len(p.grad.out[o]) /\ SameF(p.point[s].out[o], p.grad.out[o][s][1])

\* compare two observations a, b (records with point / slice / grad / interval)
PointSame(r, a, b) == \A s \in 1..NS(r) : Tainted(r, s) \/
      (a.point[s].err = b.point[s].err /\ SeqSame(a.point[s].out, b.point[s].out))
SliceSame(r, a, b) == a.slice.err = b.slice.err /\ Len(a.slice.out) = Len(b.slice.out) /\
      \A o \in 1..Len(a.slice.out) : Len(a.slice.out[o]) = Len(b.slice.out[o]) /\
         \A s \in 1..Len(a.slice.out[o]) : Tainted(r, s) \/ ~Coherent(r, s) \/ SameF(a.slice.out[o][s], b.slice.out[o][s])
GradSame(r, a, b) == a.grad.err = b.grad.err /\ Len(a.grad.out) = Len(b.grad.out) /\
      \A o \in 1..Len(a.grad.out) : Len(a.grad.out[o]) = Len(b.grad.out[o]) /\
         \A s \in 1..Len(a.grad.out[o]) : Tainted(r, s) \/ ~Coherent(r, s) \/ SeqSame(a.grad.out[o][s], b.grad.out[o][s])
AnyTaint(r) == \E s \in 1..NS(r) : Tainted(r, s)
IntervalSame(r, a, b) == ~a.interval.has \/ AnyTaint(r) \/
      (a.interval.err = b.interval.err /\ Len(a.interval.out) = Len(b.interval.out) /\
       \* interval bounds are compared as numbers: the sign of a zero bound carries no
       \* meaning for an interval (Interval::and_choice returns +0 for an operand [-0, -0])
       \A o \in 1..Len(a.interval.out) : Len(a.interval.out[o]) = Len(b.interval.out[o]) /\
            \A k \in 1..Len(a.interval.out[o]) : SameZ(a.interval.out[o][k], b.interval.out[o][k]))

Fails(r) ==
  IF ~r.ok THEN {"simplify-failed"} ELSE
     (IF Implements(r.child.ssa, r.child.asm, r.child.nout) THEN {} ELSE {"implements"})
  \cup (IF Bounds(r.child.asm, r.child.n, r.child.slots) THEN {} ELSE {"bounds"})
  \cup (IF SsaWellFormed(r.child.ssa) THEN {} ELSE {"ssa"})
  \cup (IF r.child.nch = CountChoices(r.child.ssa) THEN {} ELSE {"choice-count"})
  \cup (IF r.child.nout = r.parent.nout /\ r.child_nout = r.parent_nout /\ r.child_nout = r.child.nout THEN {} ELSE {"outputs"})
  \cup (IF r.vars_same /\ r.child_nvars = r.parent_nvars THEN {} ELSE {"vars"})
  \cup (IF PointSame(r, r.child_obs, r.parent_obs) THEN {} ELSE {"point"})
  \cup (IF SliceSame(r, r.child_obs, r.parent_obs) THEN {} ELSE {"slice"})
  \cup (IF GradSame(r, r.child_obs, r.parent_obs) THEN {} ELSE {"grad"})
  \cup (IF IntervalSame(r, r.child_obs, r.parent_obs) THEN {} ELSE {"interval"})
  \cup (IF \A s \in 1..NS(r) : RootTainted(r, s) \/
            (r.child_obs.point[s].err = r.root_obs.point[s].err /\ SeqSame(r.child_obs.point[s].out, r.root_obs.point[s].out))
        THEN {} ELSE {"chain"})

Drift(r) == r.ok /\ ~Resolves(r.parent.ssa, r.trace, r.child.ssa, r.child.nout)

Init == l = 1
Next == /\ l <= Len(Rec)
        /\ l' = l + 1
        /\ LET f == Fails(Rec[l]) IN f = {} \/ PrintT(<<"REJECT", Rec[l].id, f>>)
        /\ (~Drift(Rec[l]) \/ PrintT(<<"DRIFT", Rec[l].id>>))
Spec == Init /\ [][Next]_vars
Consumed == TLCGet("stats").diameter - 1 = Len(Rec) \/ PrintT(<<"UNCONSUMED", TLCGet("stats").diameter, Len(Rec)>>)
==============================================================================
