----------------------------- MODULE Trace_Alloc -----------------------------
(***************************************************************************)
(* Step-by-step trace validation of the real RegisterAllocator<N> against  *)
(* the implementation-shaped model Alloc.tla (C01).                        *)
(*                                                                         *)
(* The recorder feeds every prefix of an SSA tape to a fresh real          *)
(* allocator; what the allocator appended for the last op of the prefix is *)
(* one event: {e: "op", op: the SSA op, em: the register ops emitted for   *)
(* it, slots: slot count so far, panic}.  Programs are separated by        *)
(* {e: "reset"} events.  One event = one step of the model:                *)
(*   reset -> every variable of Alloc.tla back to its initial value        *)
(*   op    -> the action of Alloc.tla for that op class (OpOutput, OpDef,  *)
(*            OpUnary, OpBinary) applied to the model state; the ops the   *)
(*            model emits, its panic outcome and its slot count must equal *)
(*            the recorded ones.                                           *)
(* A difference means the model no longer describes the code: SPEC-DRIFT   *)
(* (the rest of that program is skipped), never a violation - any correct  *)
(* allocator is acceptable to C01.  While model and code agree, the        *)
(* property-level invariants of Alloc.tla (Valid, Consistent, RegsInverse, *)
(* Done, SlotBound: the backward demand-map simulation) are evaluated on   *)
(* every state of the real execution; a state of an agreeing run that      *)
(* breaks one of them is a clobbered or undefined location in the tape the *)
(* real allocator emitted, and is rejected.                                *)
(* N is a constant of Alloc.tla: one TLC run per register budget.          *)
(***************************************************************************)
EXTENDS Alloc, IOUtils

Rec == ndJsonDeserialize(IOEnv.TRACE)
VARIABLES l, drift
tvars == <<vars, l, drift>>

\* a recorded op <<class, name, out, a, b, imm>> (Tapes.tla) in the model's tuple form
MOp(g) == CASE g[1] = 0 -> <<"output", g[4]>>
            [] g[1] \in {1, 2} -> <<"def", g[3]>>
            [] g[1] \in {3, 4, 5} -> <<"op", g[3], 1, g[4], g[4]>>
            [] g[1] = 6 -> <<"op", g[3], 2, g[4], g[5]>>
            [] g[1] = 7 -> <<"load", g[3], g[4]>>
            [] g[1] = 8 -> <<"store", g[4], g[3]>>
Emitted(r) == [i \in 1..Len(r.em) |-> MOp(r.em[i])]

Apply(g) == CASE g[1] = 0 -> OpOutput(Cur, g[4])
              [] g[1] \in {1, 2} -> OpDef(Cur, g[3])
              [] g[1] \in {3, 4, 5} -> OpUnary(Cur, g[3], g[4])
              [] g[1] = 6 -> OpBinary(Cur, g[3], g[4], g[5])
Sop(g) == CASE g[1] = 0 -> <<"output", U, g[4], U>>
            [] g[1] \in {1, 2} -> <<"def", g[3], U, U>>
            [] g[1] \in {3, 4, 5} -> <<"un", g[3], g[4], U>>
            [] g[1] = 6 -> <<"bin", g[3], g[4], g[5]>>
NextPending(g) == CASE g[1] = 0 -> pending \cup {g[4]}
                    [] g[1] \in {1, 2} -> pending \ {g[3]}
                    [] g[1] \in {3, 4, 5} -> (pending \ {g[3]}) \cup {g[4]}
                    [] g[1] = 6 -> (pending \ {g[3]}) \cup {g[4], g[5]}

Holds == Valid /\ Consistent /\ RegsInverse /\ Done /\ SlotBound

Reset == /\ alloc' = [s \in Slots |-> U] /\ regs' = [r \in 0..N-1 |-> U]
         /\ lru' = [i \in 1..N |-> i-1] /\ spareR' = [i \in 1..N |-> N - i] /\ spareM' = <<>>
         /\ slotCount' = 0 /\ pending' = {} /\ nslots' = 0 /\ nops' = 0
         /\ dem' = {} /\ ok' = TRUE /\ panicked' = FALSE /\ prog' = <<>> /\ drift' = FALSE

OpEvent(r) ==
  IF drift \/ panicked THEN UNCHANGED <<vars, drift>>          \* the rest of a program that left the model
  ELSE LET st == Apply(r.op) IN
       /\ Install(st, Sop(r.op))
       /\ pending' = NextPending(r.op) /\ nslots' = nslots
       \* a panicking step is compared by its outcome only (the real allocator's partial output is not observable)
       /\ drift' = (st.panic # r.panic \/ (~st.panic /\ (st.out # Emitted(r) \/ st.slotCount # r.slots)))
       /\ (~drift' \/ PrintT(<<"DRIFT", r.id, r.k>>))
       /\ (drift' \/ panicked' \/ Holds' \/ PrintT(<<"REJECT", r.id, {"allocator-invariant"}>>))

TInit == Init /\ l = 1 /\ drift = FALSE
TNext == /\ l <= Len(Rec)
         /\ l' = l + 1
         /\ IF Rec[l].e = "reset" THEN Reset ELSE OpEvent(Rec[l])
TSpec == TInit /\ [][TNext]_tvars
Consumed == TLCGet("stats").diameter - 1 = Len(Rec) \/ PrintT(<<"UNCONSUMED", TLCGet("stats").diameter, Len(Rec)>>)
==============================================================================
