SPECIFICATION Spec
CONSTANTS K = 2  T = 4
INVARIANT AllOrNothing
INVARIANT NoneIffPolled
INVARIANT NeverSet
INVARIANT Unobservable
CHECK_DEADLOCK FALSE
