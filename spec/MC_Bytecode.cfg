SPECIFICATION Spec
CONSTANTS N = 3
INVARIANT RoundTrip
CHECK_DEADLOCK FALSE
