------------------------------- MODULE Render3D -------------------------------
(***************************************************************************)
(* Impl-level model of the voxel renderer (fidget-raster/src/voxel.rs):    *)
(* render_tile (z-descending root loop with break), render_tile_recurse    *)
(* (early exit when every pixel is already at or above fill_z; a full tile *)
(* sets max(depth, z + size + 1) and stops; an empty one continues;        *)
(* recursion with k descending), render_tile_pixels (skip columns already  *)
(* at zmax, first negative voxel from the top, gradient requested at the   *)
(* hit voxel) and the final merge with its depth clamp.                    *)
(* One root tile in XY; the shape is an arbitrary voxel set built one      *)
(* voxel per step (so that the search parallelises); the interval          *)
(* evaluator is a sound oracle over the *closed* tile box under four       *)
(* policies (always exact, never, root only, leaf only).                   *)
(* Invariants: Correct - the merged depth of every column is 1 + the index *)
(* of its highest negative voxel (0 if none); ClampedAbove - unless the    *)
(* column has a negative voxel above the grid inside the overhang of the   *)
(* last root tile, in which case it is the grid depth; NormalAtHit - the   *)
(* gradient stored for a surface column that is not negative at or beyond  *)
(* the top of the grid was requested at exactly that voxel;                *)
(* AssertsOk - the code's assert!(depth < z) never fires.                  *)
(* Clamp = "ge-d1" is the merge as it was (saturate when out >= D-1: the   *)
(* defect repaired in the repository), "gt-d" the repaired one (saturate   *)
(* only what lies beyond the grid).                                        *)
(***************************************************************************)
EXTENDS Integers, Sequences, FiniteSets, TLC, Json

CONSTANTS TS,      \* tile sizes, e.g. <<2, 1>>
          W, H, D, \* image size (W, H <= TS[1])
          Clamp       \* "ge-d1" | "gt-d"

T0 == TS[1]
KMax == (D + T0 - 1) \div T0           \* number of root tiles along z
ZTop == KMax * T0                       \* lattice extends to z = ZTop (closed box)
Cols == (0..T0-1) \X (0..T0-1)
Vox == {<<x, y, z>> : x \in 0..T0-1, y \in 0..T0-1, z \in 0..ZTop}
Policies == {"exact", "never", "rootonly", "leafonly"}

VARIABLES neg, policy, idx
vars == <<neg, policy, idx>>

Max(a, b) == IF a > b THEN a ELSE b

\* lattice points of the closed box of a tile, restricted to the modelled domain
Box(c, s) == {v \in Vox : /\ v[1] >= c[1] /\ v[1] <= c[1] + s
                          /\ v[2] >= c[2] /\ v[2] <= c[2] + s
                          /\ v[3] >= c[3] /\ v[3] <= c[3] + s}
Truth(c, s) == IF Box(c, s) \subseteq neg THEN "neg"
               ELSE IF Box(c, s) \cap neg = {} THEN "pos" ELSE "amb"
Oracle(pol, di, c, s) ==
   CASE pol = "exact" -> Truth(c, s)
     [] pol = "never" -> "amb"
     [] pol = "rootonly" -> IF di = 1 THEN Truth(c, s) ELSE "amb"
     [] pol = "leafonly" -> IF di = Len(TS) THEN Truth(c, s) ELSE "amb"

TileCols(c, s) == {p \in Cols : p[1] >= c[1] /\ p[1] < c[1] + s /\ p[2] >= c[2] /\ p[2] < c[2] + s}

\* highest k in 0..s-1 with a negative voxel, or -1
RECURSIVE FirstHit(_, _, _)
FirstHit(p, cz, k) == IF k < 0 THEN -1
                      ELSE IF <<p[1], p[2], cz + k>> \in neg THEN k ELSE FirstHit(p, cz, k - 1)

\* A pixel value packs <<depth, flag>> as 2 * depth + flag; flag = 1 when the depth
\* was set by render_tile_pixels (a gradient was requested at voxel depth - 1),
\* 0 when it was set by a full-tile fill or is still empty.
Dep(v) == v \div 2
ByHit(v) == v % 2 = 1
\* render_tile_pixels; also returns whether the code's assert!(depth < z) held
Pixels(out, c, s) ==
  LET zmax == c[3] + s
      upd(p) == IF Dep(out[p]) >= zmax THEN out[p]
                ELSE LET k == FirstHit(p, c[3], s - 1) IN
                     IF k < 0 THEN out[p] ELSE 2 * (c[3] + k + 1) + 1
      okp(p) == Dep(out[p]) >= zmax \/ FirstHit(p, c[3], s - 1) < 0
                \/ Dep(out[p]) < c[3] + FirstHit(p, c[3], s - 1) + 1
  IN <<[p \in Cols |-> IF p \in TileCols(c, s) THEN upd(p) ELSE out[p]],
       \A p \in TileCols(c, s) : okp(p)>>

\* sub-tile corners in the code's order: j outer, i middle, k descending inner
SubCorners(c, s, s2) ==
  LET n == s \div s2
      cseq == [q \in 1..(n*n*n) |->
                LET j == (q - 1) \div (n * n)
                    i == ((q - 1) \div n) % n
                    k == (n - 1) - ((q - 1) % n)
                IN <<c[1] + i * s2, c[2] + j * s2, c[3] + k * s2>>]
  IN cseq

\* returns <<out, keep_going, asserts_ok>>
RECURSIVE Recurse(_, _, _, _)
RECURSIVE Fold(_, _, _, _, _)
Fold(out, ok, di, cs, q) ==
  IF q > Len(cs) THEN <<out, ok>>
  ELSE LET r == Recurse(out, di, cs[q], ok) IN Fold(r[1], r[3], di, cs, q + 1)

Recurse(out, di, c, ok) ==
  LET s == TS[di]
      fillz == c[3] + s + 1
  IN IF \A p \in TileCols(c, s) : Dep(out[p]) >= fillz THEN <<out, FALSE, ok>>
     ELSE LET a == Oracle(policy, di, c, s) IN
          IF a = "neg" THEN <<[p \in Cols |-> IF p \in TileCols(c, s) /\ Dep(out[p]) < fillz THEN 2 * fillz ELSE out[p]], FALSE, ok>>
          ELSE IF a = "pos" THEN <<out, TRUE, ok>>
          ELSE IF di < Len(TS)
               THEN LET f == Fold(out, ok, di + 1, SubCorners(c, s, TS[di + 1]), 1) IN <<f[1], TRUE, f[2]>>
               ELSE LET px == Pixels(out, c, s) IN <<px[1], TRUE, ok /\ px[2]>>

RECURSIVE Root(_, _, _)
Root(out, k, ok) ==
  IF k < 0 THEN <<out, ok>>
  ELSE LET r == Recurse(out, 1, <<0, 0, k * T0>>, ok) IN
       IF r[2] THEN Root(r[1], k - 1, r[3]) ELSE <<r[1], r[3]>>

\* merged pixel: <<depth, normal source>> ; source = z of the voxel whose gradient is
\* reported, -1 none, -2 the flat normal (0, 0, 1) written by the clamp
Saturate(d) == IF Clamp = "ge-d1" THEN d >= D - 1 ELSE d > D
Merge(out) == [p \in Cols |->
   IF p[1] < W /\ p[2] < H
   THEN IF Saturate(Dep(out[p])) THEN <<D, -2>>
        ELSE <<Dep(out[p]), IF ByHit(out[p]) THEN Dep(out[p]) - 1 ELSE -1>>
   ELSE <<0, -1>>]

\* brute force
RECURSIVE Top(_, _)
Top(p, z) == IF z < 0 THEN 0 ELSE IF <<p[1], p[2], z>> \in neg THEN z + 1 ELSE Top(p, z - 1)
Height(p) == Top(p, D - 1)
AboveGrid(p) == \E z \in D..ZTop : <<p[1], p[2], z>> \in neg
\* negative inside the overhang of the last root tile (voxel indices D .. ZTop-1; the lattice plane z = ZTop only
\* belongs to the closed boxes the interval oracle looks at, no voxel of the tile lies on it)
Over(p) == \E z \in D..(ZTop - 1) : <<p[1], p[2], z>> \in neg

VoxSeq == [i \in 1..(T0*T0*(ZTop+1)) |-> <<(i-1) % T0, ((i-1) \div T0) % T0, (i-1) \div (T0*T0)>>]
NV == T0*T0*(ZTop+1)
Init == neg = {} /\ policy \in Policies /\ idx = 1
Next == /\ idx <= NV
        /\ neg' \in {neg, neg \cup {VoxSeq[idx]}}
        /\ idx' = idx + 1 /\ UNCHANGED policy
Spec == Init /\ [][Next]_vars

\* generator: every voxel set inside the W x H x D grid (nothing beyond its top), one oracle policy
InGrid(v) == v[1] < W /\ v[2] < H /\ v[3] < D
GenInit == neg = {} /\ policy = "exact" /\ idx = 1
GenNext == /\ idx <= NV
           /\ neg' \in (IF InGrid(VoxSeq[idx]) THEN {neg, neg \cup {VoxSeq[idx]}} ELSE {neg})
           /\ idx' = idx + 1 /\ UNCHANGED policy
GenSpec == GenInit /\ [][GenNext]_vars

Result == Root([p \in Cols |-> 0], KMax - 1, TRUE)
AssertsOk == idx <= NV \/ Result[2]
Correct == idx <= NV \/ LET image == Merge(Result[1]) IN
           \A p \in Cols : (p[1] < W /\ p[2] < H /\ ~Over(p)) => image[p][1] = Height(p)
\* a hit above the grid (inside the overhang of the last root tile) is reported clamped to the grid depth
ClampedAbove == idx <= NV \/ LET image == Merge(Result[1]) IN
           \A p \in Cols : (p[1] < W /\ p[2] < H /\ Over(p)) => image[p][1] = D
NormalAtHit == idx <= NV \/ LET image == Merge(Result[1]) IN
           \A p \in Cols : (p[1] < W /\ p[2] < H /\ ~AboveGrid(p) /\ Height(p) > 0) => image[p][2] = Height(p) - 1
\* one GEN line per voxel set: the set as a 0/1 list in VoxSeq order (x fastest, then y, then z; T0 x T0 x (ZTop+1)
\* entries) and the heightmap the model computes for it (row-major over the W x H image)
EmitVoxels == idx <= NV \/ PrintT(<<"GEN", ToJson([w |-> W, h |-> H, d |-> D, t0 |-> T0,
                  bits |-> [i \in 1..NV |-> IF VoxSeq[i] \in neg THEN 1 ELSE 0],
                  height |-> [q \in 1..(W * H) |-> Merge(Result[1])[<<(q - 1) % W, (q - 1) \div W>>][1]]])>>)

(***************************************************************************)
(* Step-wise formulation: one tile decision per step (the grain of the     *)
(* vox_tile hook events, see Trace_Tiles3.tla).  st = [out, agenda, ok];   *)
(* the agenda lists the tiles still to be looked at, head first, as        *)
(* <<level, corner>>.  An answer is "occ" (every pixel of the tile already *)
(* at or above fill_z: the interval evaluator is not consulted), "neg",    *)
(* "pos" or "amb".  A root-loop tile that answers "occ" or "neg" ends the  *)
(* loop (`break`), a sub-tile's return value is ignored by its parent.     *)
(* StepsAgree: driving the steps with the oracle gives exactly what the    *)
(* recursive formulation gives (checked by TLC for every voxel set).       *)
(***************************************************************************)
RootAgenda == [i \in 1..KMax |-> <<1, <<0, 0, (KMax - i) * T0>>>>]
StepInit == [out |-> [p \in Cols |-> 0], agenda |-> RootAgenda, ok |-> TRUE]
Occluded(out, c, s) == \A p \in TileCols(c, s) : Dep(out[p]) >= c[3] + s + 1
StepTile(st, ans) ==
  LET di == Head(st.agenda)[1]
      c == Head(st.agenda)[2]
      s == TS[di]
      fillz == c[3] + s + 1
      rest == Tail(st.agenda)
      stop == IF di = 1 THEN <<>> ELSE rest
  IN CASE ans = "occ" -> [st EXCEPT !.agenda = stop]
       [] ans = "neg" -> [st EXCEPT !.out = [p \in Cols |-> IF p \in TileCols(c, s) /\ Dep(st.out[p]) < fillz THEN 2 * fillz ELSE st.out[p]],
                                    !.agenda = stop]
       [] ans = "pos" -> [st EXCEPT !.agenda = rest]
       [] ans = "amb" -> (IF di < Len(TS)
                          THEN LET cs == SubCorners(c, s, TS[di + 1]) IN
                               [st EXCEPT !.agenda = [i \in 1..Len(cs) |-> <<di + 1, cs[i]>>] \o rest]
                          ELSE LET px == Pixels(st.out, c, s) IN
                               [st EXCEPT !.out = px[1], !.ok = st.ok /\ px[2], !.agenda = rest])
ModelAnswer(st) == LET di == Head(st.agenda)[1]  c == Head(st.agenda)[2] IN
                   IF Occluded(st.out, c, TS[di]) THEN "occ" ELSE Oracle(policy, di, c, TS[di])
RECURSIVE RunSteps(_)
RunSteps(st) == IF st.agenda = <<>> THEN st ELSE RunSteps(StepTile(st, ModelAnswer(st)))
StepsAgree == idx <= NV \/ LET r == RunSteps(StepInit) IN r.out = Result[1] /\ r.ok = Result[2]
=========================================================================
