SPECIFICATION Spec
CONSTANT NoCollapseRun = FALSE
CONSTANT Depth = 2
CONSTANT NFree = 3
INVARIANT MeshOK
CHECK_DEADLOCK FALSE
