---------------------------- MODULE Trace_Tiles2 ----------------------------
(***************************************************************************)
(* Step-by-step trace validation of the real 2D renderer against the       *)
(* implementation-shaped model Render2D.tla (C06).                         *)
(*                                                                         *)
(* The recorder renders with the pix_root / pix_tile hooks on, orders the  *)
(* events of each thread by their per-thread sequence number, cuts them at *)
(* pix_root events into one *case* per root tile and translates the        *)
(* coordinates of a case to the origin.  A case is                         *)
(*   {e: "reset", id, ins}    the reference sign of the shape at every     *)
(*                            lattice position of the closed root tile     *)
(*                            (LatSeq order; 1 inside, 0 outside)          *)
(*   {e: "tile", d, x, y, s, act}   one decision of render_tile_recurse:   *)
(*                            act 1 filled inside, 2 filled outside,       *)
(*                            3 recurse, 4 per-pixel evaluation            *)
(*   {e: "end", pix}          the W x H part of the final image (1 inside) *)
(* One event = one step: a tile event must name the head of the model's    *)
(* agenda and takes StepTile of Render2D.tla with the answer the           *)
(* implementation acted on.  At the end the agenda must be empty, every    *)
(* entry of the root buffer written exactly once and inside the buffer     *)
(* (WrittenOnce / InBuffer of the model, evaluated on the real run), and   *)
(* the clipped model image must be the recorded one.  Any difference is    *)
(* SPEC-DRIFT (the rest of the case is skipped), never a violation; a      *)
(* fill that the reference signs of the closed tile contradict is printed  *)
(* as UNSOUND (the image clause decides whether it was observable).        *)
(* Property level: every recorded pixel is inside iff the reference says   *)
(* so (Correct of Render2D.tla on the real run).                           *)
(* TS, W, H, FillMode are constants: one TLC run per configuration.        *)
(***************************************************************************)
EXTENDS MC_Render2D, IOUtils

Rec == ndJsonDeserialize(IOEnv.TRACE)
VARIABLES l, s, drift, cid
tvars == <<vars, l, s, drift, cid>>

Ans(act) == CASE act = 1 -> "neg" [] act = 2 -> "pos" [] OTHER -> "amb"

Reset(r) == /\ inside' = {LatSeq[i] : i \in {k \in 1..NL : r.ins[k] = 1}}
            /\ policy' = "exact" /\ idx' = NL + 1
            /\ s' = StepInit(0, 0) /\ drift' = FALSE /\ cid' = r.id

Drift(what) == /\ PrintT(<<"DRIFT", cid, what>>)
               /\ drift' = TRUE /\ UNCHANGED <<vars, s, cid>>

TileEvent(r) ==
  IF drift THEN UNCHANGED <<vars, s, drift, cid>>
  ELSE IF s.agenda = <<>> THEN Drift("tile-after-the-end")
  ELSE LET di == Head(s.agenda)[1]
           c == Head(s.agenda)[2]
           a == Ans(r.act)
       IN IF ~(r.d + 1 = di /\ <<r.x, r.y>> = c /\ r.s = TS[di]) THEN Drift("tile-order")
          ELSE IF a # "amb" /\ ~FillMode THEN Drift("fill-in-pixel-perfect-mode")
          ELSE IF a = "amb" /\ ((r.act = 3) # (di < Len(TS))) THEN Drift("level")
          ELSE /\ s' = StepTile(s, a)
               /\ (IF a = "amb" \/ Truth(c, TS[di]) = a THEN TRUE ELSE PrintT(<<"UNSOUND", cid, r.act, c, TS[di]>>))
               /\ UNCHANGED <<vars, drift, cid>>

Got(r, p) == r.pix[p[2] * W + p[1] + 1]
Pixels == (0..(W - 1)) \X (0..(H - 1))
EndEvent(r) ==
  /\ (IF \A p \in Pixels : (Got(r, p) = 1) = (p \in inside) THEN TRUE ELSE PrintT(<<"REJECT", cid, {"pixel"}>>))
  /\ IF drift THEN UNCHANGED <<vars, s, drift, cid>>
     ELSE IF s.agenda # <<>> THEN Drift("tiles-missing")
     ELSE IF ~s.st[2] THEN Drift("write-outside-the-root-buffer")
     ELSE IF \E k \in DOMAIN EmptyBuf : s.st[1][k][2] # 1 THEN Drift("entry-not-written-exactly-once")
     ELSE IF \E p \in Pixels : (s.st[1][PixelOffset(p)][1] = "in") # (Got(r, p) = 1) THEN Drift("image")
     ELSE UNCHANGED <<vars, s, drift, cid>>

TInit == /\ inside = {} /\ policy = "exact" /\ idx = NL + 1
         /\ l = 1 /\ s = StepInit(0, 0) /\ drift = FALSE /\ cid = -1
TNext == /\ l <= Len(Rec)
         /\ l' = l + 1
         /\ CASE Rec[l].e = "reset" -> Reset(Rec[l])
              [] Rec[l].e = "tile" -> TileEvent(Rec[l])
              [] Rec[l].e = "end" -> EndEvent(Rec[l])
TSpec == TInit /\ [][TNext]_tvars
Consumed == TLCGet("stats").diameter - 1 = Len(Rec) \/ PrintT(<<"UNCONSUMED", TLCGet("stats").diameter, Len(Rec)>>)
==============================================================================
