------------------------------ MODULE Trace_C08 ------------------------------
(***************************************************************************)
(* Trace specification for C08.  Each line is one mesh built by the real   *)
(* octree builder and dual walk (random CSG of spheres and boxes, cones    *)
(* and cylinders around grid lines, slabs hugging a lattice plane with     *)
(* tiny bumps; depths 1..6, world-to-model transforms, interpreter / JIT,  *)
(* single- and multi-threaded), with the collapse events recorded by the   *)
(* octree hook.                                                            *)
(* A second family of lines replays the sign fields that MC_Mesh emitted   *)
(* (unions of spheres around the filled lattice points, depth 2).          *)
(*   - the build returns a mesh (no panic), all indices are valid and all  *)
(*     coordinates finite;                                                 *)
(*   - closed oriented 2-manifold, decided here on the recorded triangles: *)
(*     no triangle repeats a vertex, no directed edge occurs twice, and    *)
(*     the reverse of every directed edge occurs;                          *)
(*   - every recorded collapse satisfies Mdc!Collapsible on the recorded   *)
(*     child masks and produced exactly that mask (the topology-safety     *)
(*     side condition of the manifold guarantee);                          *)
(*   - signed volume within the sampling resolution of the volume of the   *)
(*     negative region, which also fixes the global orientation (judged:   *)
(*     both volumes and the tolerance area x cell size are computed in f64 *)
(*     by the harness and logged as integers in units of 1e-6; the         *)
(*     tolerance is 3 x that up to depth 3; from depth 4 on 1.5 x for random CSG, 0.8 x otherwise).     *)
(***************************************************************************)
EXTENDS Mdc, Json, IOUtils

Rec == ndJsonDeserialize(IOEnv.TRACE)
VARIABLE l
vars == <<l>>

NT(r) == Len(r.tris) \div 3
Tri(r, i) == <<r.tris[3 * i - 2], r.tris[3 * i - 1], r.tris[3 * i]>>
DirEdges(r) == {<<r.tris[k], r.tris[IF k % 3 = 0 THEN k - 2 ELSE k + 1]>> : k \in 1..Len(r.tris)}
AbsI(x) == IF x < 0 THEN 0 - x ELSE x

Fails(r) ==
  IF r.status = "panic" THEN {"crash"} ELSE IF r.status # "ok" THEN {"no-mesh"} ELSE
  LET E == DirEdges(r) IN
     (IF r.index_ok /\ Len(r.tris) % 3 = 0 THEN {} ELSE {"bad-index"})
  \cup (IF r.nonfinite = 0 THEN {} ELSE {"non-finite-vertex"})
  \cup (IF \A i \in 1..NT(r) : LET t == Tri(r, i) IN t[1] # t[2] /\ t[2] # t[3] /\ t[1] # t[3] THEN {} ELSE {"degenerate-triangle"})
  \cup (IF Cardinality(E) = Len(r.tris) THEN {} ELSE {"directed-edge-twice"})
  \cup (IF \A e \in E : <<e[2], e[1]>> \in E THEN {} ELSE {"open-edge"})
  \cup (IF \A k \in 1..Len(r.collapses) : CollapsibleMasks(r.collapses[k].c) = r.collapses[k].mask THEN {} ELSE {"unsafe-collapse"})
  \cup (IF r.nonfinite = 0 /\ AbsI(r.vol - r.ref_vol) > r.tol THEN {"volume"} ELSE {})

(* sign fields emitted by MC_Mesh and realised as unions of spheres: the real mesher and the model agree on    *)
(* manifoldness, and on the number of triangles when nothing was collapsed (implementation-shaped)              *)
RealManifold(r) == LET E == DirEdges(r) IN
  /\ \A i \in 1..NT(r) : LET t == Tri(r, i) IN t[1] # t[2] /\ t[2] # t[3] /\ t[1] # t[3]
  /\ Cardinality(E) = Len(r.tris) /\ \A e \in E : <<e[2], e[1]>> \in E
Drift(r) == r.status = "ok" /\ r.kind = "field" /\
            ((Len(r.collapses) = 0 /\ NT(r) # r.model_ntri) \/ (RealManifold(r) # r.model_manifold))

Init == l = 1
Next == /\ l <= Len(Rec)
        /\ l' = l + 1
        /\ LET f == Fails(Rec[l]) IN f = {} \/ PrintT(<<"REJECT", Rec[l].id, f>>)
        /\ (~Drift(Rec[l]) \/ PrintT(<<"DRIFT", Rec[l].id>>))
Spec == Init /\ [][Next]_vars
Consumed == TLCGet("stats").diameter - 1 = Len(Rec) \/ PrintT(<<"UNCONSUMED", TLCGet("stats").diameter, Len(Rec)>>)
==============================================================================
