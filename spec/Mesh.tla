-------------------------------- MODULE Mesh --------------------------------
(***************************************************************************)
(* Octree leaf classification with optional cell collapsing, and the dual  *)
(* walk of fidget-mesh/src/dc.rs (cell / face / edge procedures, deepest   *)
(* leaf rule, winding), over all sign fields on a lattice with an          *)
(* all-outside boundary and all resolutions of the numeric collapse        *)
(* decision.  Invariant: the mesh is a closed, consistently oriented       *)
(* 2-manifold complex (every directed edge once, its reverse once, no      *)
(* degenerate triangle).                                                   *)
(***************************************************************************)
EXTENDS Mdc

CONSTANTS NoCollapseRun,   \* TRUE: judge the mesh as soon as the sign field is complete (SpecNoCollapse)
          Depth,      \* octree depth (1 or 2)
          NFree       \* number of free interior lattice points (the rest are outside); 112 = the 2x2x3 block

N == 2^Depth                      \* lattice is 0..N per axis
Interior == {p \in (1..N-1) \X (1..N-1) \X (1..N-1) : TRUE}
VARIABLES inside, idx, coll, cidx
vars == <<inside, idx, coll, cidx>>
NM == N - 1
NM3 == NM * NM * NM
PtSeq0 == [i \in 1..NM3 |-> <<1 + ((i - 1) % NM), 1 + (((i - 1) \div NM) % NM), 1 + ((i - 1) \div (NM * NM))>>]
CenterFirst == [i \in 1..NM3 |-> PtSeq0[((i - 1 + (NM3 \div 2)) % NM3) + 1]]   \* start at the lattice centre
\* a 2 x 2 x 3 block: room for a checkerboard face between two cells whose filled corners connect behind it
Block223 == [i \in 1..12 |-> <<1 + ((i - 1) % 2), 1 + (((i - 1) \div 2) % 2), 1 + ((i - 1) \div 4)>>]
PtSeq == IF NFree = 112 THEN Block223 ELSE CenterFirst
NPts == IF NFree = 112 THEN 12 ELSE IF NFree < NM3 THEN NFree ELSE NM3

Sgn(p) == p \in inside
\* cell = [k, mask, path, depth, org, ch]

RECURSIVE Build(_, _, _)
Build(path, depth, org) ==
  LET s == 2^(Depth - depth)
      corner(c) == <<org[1] + s * (IF Has(c, 1) THEN 1 ELSE 0), org[2] + s * (IF Has(c, 2) THEN 1 ELSE 0), org[3] + s * (IF Has(c, 4) THEN 1 ELSE 0)>>
  IN IF depth = Depth
     THEN LET RECURSIVE M(_) M(c) == IF c > 7 THEN 0 ELSE (IF Sgn(corner(c)) THEN 2^c ELSE 0) + M(c + 1)
              m == M(0)
          IN [k |-> IF m = 0 THEN "E" ELSE IF m = 255 THEN "F" ELSE "L", mask |-> m, path |-> path, depth |-> depth, ch |-> <<>>]
     ELSE LET h == s \div 2
              kids == [c \in 1..8 |-> Build(Append(path, c - 1), depth + 1,
                         <<org[1] + h * (IF Has(c - 1, 1) THEN 1 ELSE 0), org[2] + h * (IF Has(c - 1, 2) THEN 1 ELSE 0), org[3] + h * (IF Has(c - 1, 4) THEN 1 ELSE 0)>>)]
          IN IF \A c \in 1..8 : kids[c].k = "E" THEN [k |-> "E", mask |-> 0, path |-> path, depth |-> depth, ch |-> <<>>]
             ELSE IF \A c \in 1..8 : kids[c].k = "F" THEN [k |-> "F", mask |-> 255, path |-> path, depth |-> depth, ch |-> <<>>]
             ELSE IF path \in coll /\ Collapsible(kids) # -1
                  THEN [k |-> "L", mask |-> Collapsible(kids), path |-> path, depth |-> depth, ch |-> <<>>]
             ELSE [k |-> "B", mask |-> 0, path |-> path, depth |-> depth, ch |-> kids]

Child(cell, c) == IF cell.k = "B" THEN cell.ch[c + 1] ELSE cell
IsLeaf(cell) == cell.k # "B"

\* ------------------------------------------------------------------ dual walk
RECURSIVE DcCell(_), DcFace(_, _, _), DcEdge(_, _, _, _, _)
Cat4(a, b, c, d) == a \o b \o c \o d

LeafEdge(T, cs) ==
  IF \E i \in 1..4 : cs[i].k \in {"E", "F"} THEN <<>>
  ELSE
  LET maxd == CHOOSE d \in {cs[i].depth : i \in 1..4} : \A i \in 1..4 : cs[i].depth <= d
      deepest == CHOOSE i \in 1..4 : cs[i].depth = maxd /\ \A j \in 1..4 : cs[j].depth = maxd => j <= i   \* max_by_key: last maximum
      ti == AxIdx(T[1])
      edges == <<ti * 4 + 3, ti * 4 + 2, ti * 4 + 0, ti * 4 + 1>>
      co == ECorners(edges[deepest])
      startOut == ~((cs[deepest].mask \div 2^(co[1])) % 2 = 1)
      endOut == ~((cs[deepest].mask \div 2^(co[2])) % 2 = 1)
  IN IF startOut = endOut THEN <<>>
     ELSE
     LET vert(i) == IF cs[i].depth = maxd THEN Table[cs[i].mask][edges[i]]
                    ELSE LET j == CHOOSE j \in 0..11 : Table[cs[i].mask][j] # <<>> /\ \A q \in 0..11 : Table[cs[i].mask][q] # <<>> => j <= q
                         IN Table[cs[i].mask][j]
         iv == <<cs[deepest].path, vert(deepest)[2]>>
         vs == [i \in 1..4 |-> <<cs[i].path, vert(i)[1]>>]
         w == IF startOut THEN 3 ELSE 1
         tri(j) == LET j2 == ((j - 1 + w) % 4) + 1 IN
                   IF cs[j].path # cs[j2].path THEN << <<vs[j], vs[j2], iv>> >> ELSE <<>>
     IN tri(1) \o tri(2) \o tri(3) \o tri(4)

\* the coarse leaf next to finer ones must be a single-vertex ("manifold") cell
CoarseOK(cs) == \A i \in 1..4 : (cs[i].k = "L" /\ \E j \in 1..4 : cs[j].depth > cs[i].depth) => NVerts[cs[i].mask] = 1

DcEdge(T, a, b, c, d) ==
  IF IsLeaf(a) /\ IsLeaf(b) /\ IsLeaf(c) /\ IsLeaf(d) THEN LeafEdge(T, <<a, b, c, d>>)
  ELSE LET t == T[1] u == T[2] v == T[3]
           sub(i) == DcEdge(T, Child(a, Mul(t, i) + u + v), Child(b, Mul(t, i) + v), Child(c, Mul(t, i)), Child(d, Mul(t, i) + u))
       IN sub(FALSE) \o sub(TRUE)

DcFace(T, lo, hi) ==
  IF IsLeaf(lo) /\ IsLeaf(hi) THEN <<>>
  ELSE LET t == T[1] u == T[2] v == T[3]
           T1 == NextFrame(T)  T2 == NextFrame(T1)
           e1(i) == DcEdge(T1, Child(lo, Mul(u, i) + t), Child(lo, Mul(u, i) + v + t), Child(hi, Mul(u, i) + v), Child(hi, Mul(u, i)))
           e2(i) == DcEdge(T2, Child(lo, Mul(v, i) + t), Child(hi, Mul(v, i)), Child(hi, Mul(v, i) + u), Child(lo, Mul(v, i) + u + t))
       IN Cat4(DcFace(T, Child(lo, t), Child(hi, 0)), DcFace(T, Child(lo, t + u), Child(hi, u)),
               DcFace(T, Child(lo, t + v), Child(hi, v)), DcFace(T, Child(lo, t + u + v), Child(hi, u + v)))
          \o e1(FALSE) \o e2(FALSE) \o e1(TRUE) \o e2(TRUE)

DcCell(cell) ==
  IF cell.k # "B" THEN <<>>
  ELSE LET RECURSIVE Kids(_) Kids(c) == IF c > 7 THEN <<>> ELSE DcCell(Child(cell, c)) \o Kids(c + 1)
           faces(T) == LET t == T[1] u == T[2] v == T[3] IN
              Cat4(DcFace(T, Child(cell, 0), Child(cell, t)), DcFace(T, Child(cell, u), Child(cell, u + t)),
                   DcFace(T, Child(cell, v), Child(cell, v + t)), DcFace(T, Child(cell, u + v), Child(cell, u + v + t)))
           edge(T, i) == LET t == T[1] u == T[2] v == T[3] IN
              DcEdge(T, Child(cell, Mul(t, i)), Child(cell, Mul(t, i) + u), Child(cell, Mul(t, i) + u + v), Child(cell, Mul(t, i) + v))
       IN Kids(0) \o faces(Frames[1]) \o faces(Frames[2]) \o faces(Frames[3])
          \o edge(Frames[1], FALSE) \o edge(Frames[2], FALSE) \o edge(Frames[3], FALSE)
          \o edge(Frames[1], TRUE) \o edge(Frames[2], TRUE) \o edge(Frames[3], TRUE)

Mesh == DcCell(Build(<<>>, 0, <<0, 0, 0>>))

\* ------------------------------------------------------------------ properties
DEdges(m) == {<<i, k>> : i \in 1..Len(m), k \in 1..3}
EdgeOf(m, ik) == <<m[ik[1]][ik[2]], m[ik[1]][(ik[2] % 3) + 1]>>
Manifold(m) ==
  LET ES == {EdgeOf(m, x) : x \in DEdges(m)} IN
  /\ \A i \in 1..Len(m) : m[i][1] # m[i][2] /\ m[i][2] # m[i][3] /\ m[i][1] # m[i][3]
  /\ Cardinality(ES) = 3 * Len(m)                     \* no directed edge twice
  /\ \A e \in ES : <<e[2], e[1]>> \in ES               \* and its reverse is there


Cands == IF Depth = 1 THEN << <<>> >> ELSE [c \in 1..8 |-> <<c - 1>>] \o << <<>> >>
Init == inside = {} /\ idx = 1 /\ coll = {} /\ cidx = 1
Next == \/ /\ idx <= NPts
          /\ inside' \in {inside, inside \cup {PtSeq[idx]}}
          /\ idx' = idx + 1 /\ UNCHANGED <<coll, cidx>>
        \/ /\ idx > NPts /\ cidx <= Len(Cands)
          /\ coll' \in {coll, coll \cup {Cands[cidx]}}
          /\ cidx' = cidx + 1 /\ UNCHANGED <<inside, idx>>
Spec == Init /\ [][Next]_vars
\* sign fields only, nothing collapses
NextNC == idx <= NPts /\ inside' \in {inside, inside \cup {PtSeq[idx]}} /\ idx' = idx + 1 /\ UNCHANGED <<coll, cidx>>
SpecNoCollapse == Init /\ [][NextNC]_vars
FinalNC == idx > NPts
Final == idx > NPts /\ cidx > Len(Cands)
\* ------------------------------------------------------------------ the shared ambiguous face
(* A lattice face with checkerboard signs whose two filled corners are, in BOTH cells that share it, part of  *)
(* one connected filled region (they are joined through the cell's other corners).  Each cell then has a      *)
(* single vertex for all four sign-change edges of the face, the four quads around those edges all contain    *)
(* the edge between the two cell vertices, and the mesh cannot be manifold.  (Uniform leaves; this is where   *)
(* grouping filled corners into regions per cell differs from a manifold dual-cell table.)                    *)
UnitMask(o) == LET RECURSIVE M(_) M(c) == IF c > 7 THEN 0 ELSE
                     (IF Sgn(<<o[1] + (IF Has(c, 1) THEN 1 ELSE 0), o[2] + (IF Has(c, 2) THEN 1 ELSE 0), o[3] + (IF Has(c, 4) THEN 1 ELSE 0)>>) THEN 2^c ELSE 0) + M(c + 1)
               IN M(0)
SameRegion(m, a, b) == \E r \in Regions(Filled(m)) : a \in r /\ b \in r
Bit(m, c) == (m \div 2^c) % 2 = 1
(* face of the unit cell at o on its high side along axis t; the neighbour is at o + t *)
SharedAmbiguous(o, t) ==
  LET u == NextAx(t)  v == NextAx(u)
      lo == UnitMask(o)
      step == <<IF t = 1 THEN 1 ELSE 0, IF t = 2 THEN 1 ELSE 0, IF t = 4 THEN 1 ELSE 0>>
      hi == UnitMask(<<o[1] + step[1], o[2] + step[2], o[3] + step[3]>>)
      diag1 == Bit(lo, t) /\ Bit(lo, t + u + v) /\ ~Bit(lo, t + u) /\ ~Bit(lo, t + v)
      diag2 == ~Bit(lo, t) /\ ~Bit(lo, t + u + v) /\ Bit(lo, t + u) /\ Bit(lo, t + v)
  IN \/ diag1 /\ SameRegion(lo, t, t + u + v) /\ SameRegion(hi, 0, u + v)
     \/ diag2 /\ SameRegion(lo, t + u, t + v) /\ SameRegion(hi, u, v)
HasSharedAmbiguous == \E x, y, z \in 0..(N - 1) : \E t \in {1, 2, 4} :
     (<<x, y, z>>[AxIdx(t) + 1] < N - 1) /\ SharedAmbiguous(<<x, y, z>>, t)
(* without collapsing, this is exactly when the dual walk's output fails to be manifold *)
ManifoldIffNoSharedAmbiguous == ~(FinalNC /\ coll = {} /\ cidx = 1 /\ NoCollapseRun) \/ (Manifold(Mesh) <=> ~HasSharedAmbiguous)

\* ------------------------------------------------------------------ orientation (canonical embedding)
(* Every cell vertex is placed at the centre of its cell and every intersection vertex at the midpoint of its  *)
(* lattice edge (coordinates doubled so that they stay integers).  A triangle is wound outward when the filled  *)
(* endpoint of the lattice edge it crosses lies strictly behind its plane and the empty endpoint strictly in    *)
(* front.  The vertex ids of the dual walk are <<cell path, offset>>: offsets below the cell's vertex count are *)
(* cell vertices, the others are intersections, identified with their cell edge through the table.             *)
RECURSIVE OrgOf(_, _)
OrgOf(path, k) == IF k = 0 THEN <<0, 0, 0>>
                  ELSE LET o == OrgOf(path, k - 1)  h == 2^(Depth - k)  c == path[k]
                       IN <<o[1] + h * (IF Has(c, 1) THEN 1 ELSE 0), o[2] + h * (IF Has(c, 2) THEN 1 ELSE 0), o[3] + h * (IF Has(c, 4) THEN 1 ELSE 0)>>
RECURSIVE CellAt(_, _, _)
CellAt(cell, path, k) == IF k > Len(path) \/ cell.k # "B" THEN cell ELSE CellAt(cell.ch[path[k] + 1], path, k + 1)
Corner2(path, c) == LET o == OrgOf(path, Len(path))  sz == 2^(Depth - Len(path))
                    IN <<2 * (o[1] + sz * (IF Has(c, 1) THEN 1 ELSE 0)), 2 * (o[2] + sz * (IF Has(c, 2) THEN 1 ELSE 0)), 2 * (o[3] + sz * (IF Has(c, 4) THEN 1 ELSE 0))>>
Centre2(path) == LET o == OrgOf(path, Len(path))  sz == 2^(Depth - Len(path)) IN <<2 * o[1] + sz, 2 * o[2] + sz, 2 * o[3] + sz>>
EdgeOfOffset(mask, off) == CHOOSE e \in 0..11 : Table[mask][e] # <<>> /\ Table[mask][e][2] = off
Pos2(root, v) == LET cell == CellAt(root, v[1], 1) IN
   IF v[2] < NVerts[cell.mask] THEN Centre2(v[1])
   ELSE LET co == ECorners(EdgeOfOffset(cell.mask, v[2]))  a == Corner2(v[1], co[1])  b == Corner2(v[1], co[2])
        IN <<(a[1] + b[1]) \div 2, (a[2] + b[2]) \div 2, (a[3] + b[3]) \div 2>>
Sub3(a, b) == <<a[1] - b[1], a[2] - b[2], a[3] - b[3]>>
Cross(a, b) == <<a[2] * b[3] - a[3] * b[2], a[3] * b[1] - a[1] * b[3], a[1] * b[2] - a[2] * b[1]>>
Dot(a, b) == a[1] * b[1] + a[2] * b[2] + a[3] * b[3]
(* the third vertex of every triangle is the intersection vertex (see LeafEdge) *)
TriOutward(root, t) ==
  LET A == Pos2(root, t[1])  B == Pos2(root, t[2])  C == Pos2(root, t[3])
      cell == CellAt(root, t[3][1], 1)
      co == ECorners(EdgeOfOffset(cell.mask, t[3][2]))
      p1 == Corner2(t[3][1], co[1])  p2 == Corner2(t[3][1], co[2])
      filled == IF Bit(cell.mask, co[1]) THEN p1 ELSE p2
      empty == IF Bit(cell.mask, co[1]) THEN p2 ELSE p1
      n == Cross(Sub3(B, A), Sub3(C, A))
  IN Dot(n, Sub3(filled, C)) < 0 /\ Dot(n, Sub3(empty, C)) > 0
Outward == ~(Final \/ (FinalNC /\ coll = {} /\ cidx = 1 /\ NoCollapseRun))
           \/ LET root == Build(<<>>, 0, <<0, 0, 0>>)  m == DcCell(root) IN \A i \in 1..Len(m) : TriOutward(root, m[i])

MeshOK == ~(Final \/ (FinalNC /\ coll = {} /\ cidx = 1 /\ NoCollapseRun)) \/ LET m == Mesh IN Manifold(m) /\ (inside # {} => Len(m) > 0)
\* statistics hook: some behaviour really collapses something
RECURSIVE HasCoarseLeaf(_)
HasCoarseLeaf(cell) == IF cell.k = "L" THEN cell.depth < Depth ELSE IF cell.k = "B" THEN \E c \in 1..8 : HasCoarseLeaf(cell.ch[c]) ELSE FALSE
NeverCollapses == ~Final \/ ~HasCoarseLeaf(Build(<<>>, 0, <<0, 0, 0>>))
=============================================================================
