------------------------------ MODULE BulkDriver ------------------------------
(***************************************************************************)
(* JitBulkEval::eval (fidget-jit/src/lib.rs): how a request for n samples  *)
(* is turned into calls of a native function that only accepts multiples   *)
(* of the SIMD width W.  A call is <<buffer, offset, count>>: it reads     *)
(* elements offset .. offset+count-1 of every input buffer ("caller" = the *)
(* caller's slices, "scratch" = the evaluator's own W-wide scratch rows)   *)
(* and writes the same range of every output row (rows are sized           *)
(* max(n, W)).                                                             *)
(* Impl: Driver(n) transcribes the three branches (n < W: one call on the  *)
(* scratch copy; otherwise the largest multiple, then the *last* full      *)
(* vector again for the remainder).                                        *)
(* Abs (also applied by Trace_C02 to the calls recorded from the real      *)
(* code): InBounds - never outside the caller's slices / scratch / output; *)
(* Covered - every sample i < n is produced, from input sample i.          *)
(***************************************************************************)
EXTENDS Integers, Sequences, FiniteSets, TLC
CONSTANTS W, MaxN
VARIABLES n, calls, done
vars == <<n, calls, done>>

MaxSimdWidth == 8
Driver(len) ==
  IF len < W THEN << <<"scratch", 0, W>> >>
  ELSE LET m == (len \div W) * W IN
       IF len # m THEN << <<"caller", 0, m>>, <<"caller", len - W, W>> >> ELSE << <<"caller", 0, m>> >>

Init == n \in 0..MaxN /\ calls = <<>> /\ done = FALSE
Next == ~done /\ calls' = Driver(n) /\ done' = TRUE /\ UNCHANGED n
Spec == Init /\ [][Next]_vars

OutLen(len, w) == IF len > w THEN len ELSE w
Range(c) == {c[2] + i : i \in 0..(c[3] - 1)}
CallsInBounds(cs, len, w, outlen) == \A k \in 1..Len(cs) : LET c == cs[k] IN
   /\ c[3] % w = 0 /\ c[3] >= 0 /\ c[2] >= 0
   /\ (c[1] = "caller" => Range(c) \subseteq 0..(len - 1))
   /\ (c[1] = "scratch" => Range(c) \subseteq 0..(MaxSimdWidth - 1))
   /\ Range(c) \subseteq 0..(outlen - 1)
CallsCover(cs, len) == \A i \in 0..(len - 1) : \E k \in 1..Len(cs) : i \in Range(cs[k])

InBounds == done => CallsInBounds(calls, n, W, OutLen(n, W))
Covered == done => CallsCover(calls, n)
WidthFits == W <= MaxSimdWidth
==============================================================================
