------------------------------ MODULE Trace_C06 ------------------------------
(***************************************************************************)
(* Trace specification for C06.  Each line is one image rendered by the    *)
(* real 2D renderer (shape, image size, view matrix, slice height, tile    *)
(* list, backend, thread pool) together with the value of the unsimplified *)
(* shape at every pixel's sample position (brute force).  For every pixel: *)
(*   reported inside  <=>  the reference value is negative,                *)
(* pixels whose reference value lies within the rounding band around zero  *)
(* excepted; in pixel-perfect mode the pixel carries that value (bit for   *)
(* bit, NaN matching NaN, sign of zero free).  Tile skipping and           *)
(* simplified tapes are thereby required to be unobservable.               *)
(***************************************************************************)
EXTENDS Integers, Sequences, FiniteSets, TLC, Json, IOUtils, Floats

Rec == ndJsonDeserialize(IOEnv.TRACE)
VARIABLE l
vars == <<l>>

\* a value that is exactly zero is not negative in any evaluator (exact cancellation);
\* only non-zero values within the band may round differently
InBand(r, v) == ~IsNaN(v) /\ Mag(v) > 0 /\ Mag(v) < Mag(r.band)
PixelOk(r, k) == LET v == r.ref[k] IN
   IF IsNaN(v) THEN r.pix[k] = 0
   ELSE InBand(r, v) \/ (r.pix[k] = 1) = (Key(v) < 0)
ValueOk(r, k) == ~r.perfect \/ InBand(r, r.ref[k]) \/ SameZ(r.val[k], r.ref[k])

(* the screen-to-world matrix of the image size is the documented mapping (centre to the origin, y flipped, the shortest   *)
(* axis of the region spans -1 .. +1), computed by the recorder from the documentation alone                             *)
S2W(r) == IF r.s2w_ok THEN {} ELSE {"screen-to-world"}

Fails(r) ==
  IF ~r.ok THEN {"no-image"} \cup S2W(r) ELSE S2W(r) \cup
  IF Len(r.pix) # r.w * r.h \/ Len(r.ref) # r.w * r.h THEN {"size"} ELSE
     (IF \A k \in 1..Len(r.pix) : PixelOk(r, k) THEN {} ELSE {"inside"})
  \cup (IF \A k \in 1..Len(r.pix) : ValueOk(r, k) THEN {} ELSE {"value"})

Init == l = 1
Next == /\ l <= Len(Rec)
        /\ l' = l + 1
        /\ LET f == Fails(Rec[l]) IN f = {} \/ PrintT(<<"REJECT", Rec[l].id, f>>)
Spec == Init /\ [][Next]_vars
Consumed == TLCGet("stats").diameter - 1 = Len(Rec) \/ PrintT(<<"UNCONSUMED", TLCGet("stats").diameter, Len(Rec)>>)
==============================================================================
