------------------------------- MODULE MC_Mdc -------------------------------
EXTENDS Mdc
VARIABLE m
Init == m \in 0..255
Next == UNCHANGED m
Spec == Init /\ [][Next]_m
Tables == TableOK(m)
(* a collapse never merges into an empty / full / multi-vertex cell, and agrees with its children on every corner *)
CollapseSound == \A k \in {0, 255, m} : LET ms == [c \in 1..8 |-> IF c % 2 = 1 THEN m ELSE k] IN
                   CollapsibleMasks(ms) # -1 => NVerts[CollapsibleMasks(ms)] = 1
==============================================================================
