SPECIFICATION Spec
CONSTANTS Reduced = FALSE MaxSteps = 3
INVARIANT EmitHist
CHECK_DEADLOCK FALSE
