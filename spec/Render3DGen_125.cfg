SPECIFICATION GenSpec
CONSTANTS TS <- TS21 W = 1 H = 2 D = 5 Clamp = "gt-d"
INVARIANT EmitVoxels
CHECK_DEADLOCK FALSE
