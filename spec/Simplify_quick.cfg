SPECIFICATION Spec
CONSTANTS MaxLive = 3 MaxOps = 4 AssertAsWritten = FALSE
INVARIANT WellFormed
INVARIANT Preserves
INVARIANT CodeAssert
CHECK_DEADLOCK FALSE
