------------------------------- MODULE Render2D -------------------------------
(***************************************************************************)
(* Impl-level model of the 2D renderer (fidget-raster/src/pixel.rs and     *)
(* render_tiles / TileSizesRef::pixel_offset in lib.rs).                   *)
(* The image is W x H pixels; root tiles of size TS[1] cover it and may    *)
(* overhang on either axis; every root tile has its own buffer of TS[1]^2  *)
(* entries addressed by pixel_offset(pos) = x mod T0 + (y mod T0) * T0.    *)
(* render_tile_recurse evaluates the shape over the *closed* tile box      *)
(* [corner, corner + size]: the oracle may answer "neg" only if every      *)
(* lattice position of that box is inside, "pos" only if none is, and      *)
(* "amb" always (four policies: exact, never, root only, leaf only).  In   *)
(* fill mode a decided tile writes `size` consecutive entries per row;     *)
(* otherwise the renderer recurses (j outer, i inner) or evaluates the     *)
(* tile's pixels.  The final assembly copies every root buffer into the    *)
(* image, clipping x < W and y < H.                                        *)
(* The shape is an arbitrary set of inside positions on the lattice        *)
(* (0..NX*T0) x (0..NY*T0), built one position per step.                   *)
(* Invariants: Correct - every image pixel is reported inside iff its      *)
(* sample position is inside; WrittenOnce - every buffer entry is written  *)
(* exactly once; InBuffer - no write leaves the root buffer.               *)
(* The generator config prints every image bitmap as a GEN line.           *)
(***************************************************************************)
EXTENDS Integers, Sequences, FiniteSets, TLC, Json

CONSTANTS TS, W, H, FillMode
T0 == TS[1]
NX == (W + T0 - 1) \div T0
NY == (H + T0 - 1) \div T0
XMax == NX * T0
YMax == NY * T0
Lattice == (0..XMax) \X (0..YMax)
Policies == {"exact", "never", "rootonly", "leafonly"}

VARIABLES inside, policy, idx
vars == <<inside, policy, idx>>

Box(c, s) == {p \in Lattice : p[1] >= c[1] /\ p[1] <= c[1] + s /\ p[2] >= c[2] /\ p[2] <= c[2] + s}
Truth(c, s) == IF Box(c, s) \subseteq inside THEN "neg" ELSE IF Box(c, s) \cap inside = {} THEN "pos" ELSE "amb"
Oracle(di, c, s) ==
   CASE policy = "exact" -> Truth(c, s)
     [] policy = "never" -> "amb"
     [] policy = "rootonly" -> (IF di = 1 THEN Truth(c, s) ELSE "amb")
     [] policy = "leafonly" -> (IF di = Len(TS) THEN Truth(c, s) ELSE "amb")

PixelOffset(p) == (p[1] % T0) + (p[2] % T0) * T0
\* a buffer is a function 0..T0*T0-1 -> <<value, writes>> ; value in {"in", "out", "unset"}
EmptyBuf == [k \in 0..(T0 * T0 - 1) |-> <<"unset", 0>>]
Write(buf, k, v) == IF k \in DOMAIN buf THEN [buf EXCEPT ![k] = <<v, @[2] + 1>>] ELSE buf

\* st = <<buf, inbounds>>
RECURSIVE FillRows(_, _, _, _, _)
FillRows(st, c, s, v, y) ==
  IF y >= s THEN st
  ELSE LET start == PixelOffset(<<c[1], c[2] + y>>)
           ks == {start + i : i \in 0..(s - 1)}
           b1 == [k \in DOMAIN st[1] |-> IF k \in ks THEN <<v, st[1][k][2] + 1>> ELSE st[1][k]]
       IN FillRows(<<b1, st[2] /\ ks \subseteq DOMAIN st[1]>>, c, s, v, y + 1)

RECURSIVE PixelRows(_, _, _, _)
PixelRows(st, c, s, q) ==
  IF q >= s * s THEN st
  ELSE LET i == q % s  j == q \div s
           p == <<c[1] + i, c[2] + j>>
           k == PixelOffset(<<c[1], c[2] + j>>) + i
       IN PixelRows(<<Write(st[1], k, IF p \in inside THEN "in" ELSE "out"), st[2] /\ k \in DOMAIN st[1]>>, c, s, q + 1)

RECURSIVE Recurse(_, _, _)
RECURSIVE Sub(_, _, _, _, _)
Sub(st, di, c, n, q) ==
  IF q >= n * n THEN st
  ELSE LET i == q % n  j == q \div n  s2 == TS[di] IN
       Sub(Recurse(st, di, <<c[1] + i * s2, c[2] + j * s2>>), di, c, n, q + 1)
Recurse(st, di, c) ==
  LET s == TS[di]  a == Oracle(di, c, s) IN
  IF FillMode /\ a = "neg" THEN FillRows(st, c, s, "in", 0)
  ELSE IF FillMode /\ a = "pos" THEN FillRows(st, c, s, "out", 0)
  ELSE IF di < Len(TS) THEN Sub(st, di + 1, c, s \div TS[di + 1], 0)
  ELSE PixelRows(st, c, s, 0)

RootTile(tx, ty) == Recurse(<<EmptyBuf, TRUE>>, 1, <<tx * T0, ty * T0>>)
\* final assembly with clipping
Image == [p \in (0..(W - 1)) \X (0..(H - 1)) |->
            RootTile(p[1] \div T0, p[2] \div T0)[1][PixelOffset(p)][1]]

LatSeq == [i \in 1..((XMax + 1) * (YMax + 1)) |-> <<(i - 1) % (XMax + 1), (i - 1) \div (XMax + 1)>>]
NL == (XMax + 1) * (YMax + 1)
Init == inside = {} /\ policy \in Policies /\ idx = 1
Next == /\ idx <= NL
        /\ inside' \in {inside, inside \cup {LatSeq[idx]}}
        /\ idx' = idx + 1 /\ UNCHANGED policy
Spec == Init /\ [][Next]_vars
\* generator: one oracle policy is enough to enumerate the inside sets
GenInit == inside = {} /\ policy = "exact" /\ idx = 1
GenSpec == GenInit /\ [][Next]_vars

Done == idx > NL
Correct == Done => \A p \in DOMAIN Image : (Image[p] = "in") = (p \in inside)
WrittenOnce == Done => \A tx \in 0..(NX - 1), ty \in 0..(NY - 1) :
                 \A k \in DOMAIN EmptyBuf : RootTile(tx, ty)[1][k][2] = 1
InBuffer == Done => \A tx \in 0..(NX - 1), ty \in 0..(NY - 1) : RootTile(tx, ty)[2]
EmitBitmap == (Done /\ policy = "exact" /\ inside \subseteq (0..(W - 1)) \X (0..(H - 1))) =>
   PrintT(<<"GEN", ToJson([w |-> W, h |-> H, rows |-> [y \in 1..H |-> [x \in 1..W |-> IF <<x - 1, y - 1>> \in inside THEN 1 ELSE 0]]])>>)

(***************************************************************************)
(* Step-wise formulation: one tile decision per step (the grain of the     *)
(* pix_tile hook events, see Trace_Tiles2.tla), for one root tile.         *)
(* st = [st (<<buffer, in bounds>>), agenda]; the agenda lists the tiles   *)
(* still to be looked at, head first, as <<level, corner>>.  An answer is  *)
(* "neg" / "pos" (the tile is filled; fill mode only) or "amb" (recurse    *)
(* into the sub-tiles, j outer and i inner, or evaluate the pixels).       *)
(* StepsAgree: driving the steps with the oracle gives the buffer of the   *)
(* recursive formulation (checked by TLC for every inside set).            *)
(***************************************************************************)
StepInit(tx, ty) == [st |-> <<EmptyBuf, TRUE>>, agenda |-> << <<1, <<tx * T0, ty * T0>>>> >>]
SubTiles(di, c) == LET s2 == TS[di + 1]  n == TS[di] \div s2 IN
                   [q \in 1..(n * n) |-> <<di + 1, <<c[1] + ((q - 1) % n) * s2, c[2] + ((q - 1) \div n) * s2>>>>]
StepTile(s, ans) ==
  LET di == Head(s.agenda)[1]
      c == Head(s.agenda)[2]
      rest == Tail(s.agenda)
  IN CASE ans = "neg" -> [s EXCEPT !.st = FillRows(s.st, c, TS[di], "in", 0), !.agenda = rest]
       [] ans = "pos" -> [s EXCEPT !.st = FillRows(s.st, c, TS[di], "out", 0), !.agenda = rest]
       [] ans = "amb" -> (IF di < Len(TS) THEN [s EXCEPT !.agenda = SubTiles(di, c) \o rest]
                          ELSE [s EXCEPT !.st = PixelRows(s.st, c, TS[di], 0), !.agenda = rest])
ModelAnswer(s) == LET a == Oracle(Head(s.agenda)[1], Head(s.agenda)[2], TS[Head(s.agenda)[1]]) IN
                  IF FillMode THEN a ELSE "amb"
RECURSIVE RunSteps(_)
RunSteps(s) == IF s.agenda = <<>> THEN s ELSE RunSteps(StepTile(s, ModelAnswer(s)))
StepsAgree == Done => \A tx \in 0..(NX - 1), ty \in 0..(NY - 1) : RunSteps(StepInit(tx, ty)).st = RootTile(tx, ty)
==============================================================================
