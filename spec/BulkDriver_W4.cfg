SPECIFICATION Spec
CONSTANTS W = 4  MaxN = 20
INVARIANT InBounds
INVARIANT Covered
INVARIANT WidthFits
CHECK_DEADLOCK FALSE
