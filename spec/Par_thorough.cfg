SPECIFICATION Spec
CONSTANTS K = 3  T = 5
INVARIANT AllOrNothing
INVARIANT NoneIffPolled
INVARIANT NeverSet
INVARIANT Unobservable
CHECK_DEADLOCK FALSE
