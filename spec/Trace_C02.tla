------------------------------ MODULE Trace_C02 ------------------------------
(***************************************************************************)
(* Trace specification for C02 (x86_64 JIT vs interpreter).                *)
(*  `nodes` : local obligations.  The tape has every slot exported, so for *)
(*     each op the JIT's result is judged against the reference opcode     *)
(*     (the interpreter's meaning) applied to the operand values the JIT   *)
(*     itself reported: bit-identical, NaN matching NaN, and a min/max of  *)
(*     two zeros may differ in the sign of zero.  Integer-exact ops are    *)
(*     additionally recomputed here (sub-language Z).                      *)
(*  `e2e`   : whole programs, JIT vs the interpreter on the same tape,     *)
(*     single point and many-point for every slice length; exactly one     *)
(*     result per sample and output; guard regions around the caller's     *)
(*     slices untouched; the native calls recorded by the bulk-driver hook *)
(*     satisfy BulkDriver!CallsInBounds / CallsCover.  Executions in which *)
(*     a NaN or a zero reaches an operation that is sensitive to the NaN   *)
(*     payload or the sign of zero are tainted (the allowed slack can be   *)
(*     amplified) and only their shape is judged.                          *)
(***************************************************************************)
EXTENDS Integers, Sequences, FiniteSets, TLC, Json, IOUtils, Tapes

Rec == ndJsonDeserialize(IOEnv.TRACE)
VARIABLE l
vars == <<l>>

BD == INSTANCE BulkDriver WITH W <- 8, MaxN <- 0, n <- 0, calls <- <<>>, done <- FALSE

\* op = <<name, class, a, b, got, ref>>
Rel(op) == IF op[1] \in {"Min", "Max"} THEN SameZ(op[5], op[6]) ELSE SameF(op[5], op[6])
Tiny(b) == IsSmallInt(b) /\ IntOf(b) > -2000 /\ IntOf(b) < 2000
ZRel(op) ==
  CASE op[2] = 3 /\ ZUnOk(op[1]) /\ Tiny(op[3]) ->
         IsSmallInt(op[5]) /\ IntOf(op[5]) = ZUn(op[1], IntOf(op[3]))
    [] op[2] \in {4, 5, 6} /\ Tiny(op[3]) /\ Tiny(op[4]) /\ ZBinOk(op[1], IntOf(op[4])) ->
         IsSmallInt(op[5]) /\ IntOf(op[5]) = ZBin(op[1], IntOf(op[3]), IntOf(op[4]))
    [] OTHER -> TRUE
NodeFails(r) == (IF \A k \in 1..Len(r.ops) : Rel(r.ops[k]) THEN {} ELSE {"op-value"})
           \cup (IF \A k \in 1..Len(r.ops) : ZRel(r.ops[k]) THEN {} ELSE {"op-zvalue"})

TaintedBy(bs, zs) == (\E k \in 1..Len(bs) : IsNaN(bs[k]) \/ IsZero(bs[k])) \/ (\E k \in 1..Len(zs) : IsZero(zs[k]))

PointFails(r) ==
  IF r.jerr # "" \/ r.verr # "" THEN {"eval-error"} ELSE
  IF Len(r.jit) # r.nout \/ Len(r.vm) # r.nout THEN {"count"} ELSE
  IF TaintedBy(r.bs, r.zs) \/ \A o \in 1..r.nout : SameZ(r.jit[o], r.vm[o]) THEN {} ELSE {"point-value"}

\* recorded native calls as BulkDriver calls
Call(c) == <<IF c.scratch = 1 THEN "scratch" ELSE "caller", c.offset, c.count>>
Calls(r) == [k \in 1..Len(r.calls) |-> Call(r.calls[k])]
SliceFails(r) ==
  IF r.jerr # "" \/ r.verr # "" THEN {"eval-error"} ELSE
     (IF Len(r.jit) = r.nout /\ \A o \in 1..Len(r.jit) : Len(r.jit[o]) = r.len THEN {} ELSE {"count"})
  \cup (IF r.guards_intact THEN {} ELSE {"guard"})
  \cup (IF Len(r.calls) = 0 \/
           (/\ \A k \in 1..Len(r.calls) : r.calls[k].n = r.len /\ r.calls[k].w = 8
            /\ BD!CallsInBounds(Calls(r), r.len, 8, r.calls[1].out_len)
            /\ r.calls[1].out_len >= r.len
            /\ BD!CallsCover(Calls(r), r.len))
        THEN {} ELSE {"driver"})
  \cup (IF Len(r.jit) = r.nout /\ Len(r.vm) = r.nout /\
           \A o \in 1..r.nout : Len(r.jit[o]) = r.len /\ Len(r.vm[o]) = r.len /\
              \A s \in 1..r.len : TaintedBy(r.bs[s], r.zs[s]) \/ SameZ(r.jit[o][s], r.vm[o][s])
        THEN {} ELSE {"slice-value"})

Fails(r) == CASE r.ev = "nodes" -> NodeFails(r)
              [] r.ev = "e2e" /\ r.kind = "point" -> PointFails(r)
              [] r.ev = "e2e" /\ r.kind = "slice" -> SliceFails(r)
              [] r.ev = "evalfail" -> {"eval-error"}
              [] OTHER -> {"unknown-event"}

Init == l = 1
Next == /\ l <= Len(Rec)
        /\ l' = l + 1
        /\ LET f == Fails(Rec[l]) IN f = {} \/ PrintT(<<"REJECT", Rec[l].id, f>>)
Spec == Init /\ [][Next]_vars
Consumed == TLCGet("stats").diameter - 1 = Len(Rec) \/ PrintT(<<"UNCONSUMED", TLCGet("stats").diameter, Len(Rec)>>)
==============================================================================
