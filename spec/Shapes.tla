--------------------------------- MODULE Shapes ---------------------------------
(***************************************************************************)
(* Documented geometry of the shape library (fidget-shapes), decided        *)
(* exactly on rational points (C16).                                        *)
(* A shape is a term; Side(shape, p) is -1 inside, 0 on the surface, 1      *)
(* outside, 9 undecidable here (the point would need an irrational          *)
(* coordinate).  A point is three rationals <<n, d>> with d > 0, and a      *)
(* fourth component <<float, inexact>>: when the point stands for what a    *)
(* float evaluation computes (F3, used by Trace_C16), `inexact` is the set  *)
(* of coordinates that went through a transform whose matrix is not exact   *)
(* in floats (a rotation: cos 90 deg is -4.4e-8 in f32; the reflection      *)
(* about x = y: its normal is (-1, 1, 0) / sqrt 2).  Such a coordinate is   *)
(* within rounding of its exact value, which only matters at the one        *)
(* discontinuous operator, the seam of a repetition: there the side is      *)
(* undecidable.  The design model (I3) is exact throughout.                 *)
(*   primitives : sphere / circle |p - c|^2 < r^2 ; box / rectangle strict  *)
(*       containment ; plane with a named normal ("X", "Y", "Z") or a named *)
(*       plane ("XY" has normal Z, "YZ" normal X, "ZX" normal Y): inside    *)
(*       where normal . p < offset                                          *)
(*   transforms : T(s)(p) = s(T^-1 p) for move by an offset, scale by       *)
(*       non-zero (possibly negative, non-uniform) factors, rotation by     *)
(*       quarter turns (right-handed, counter-clockwise positive) about X,  *)
(*       Y or Z through a centre, reflection about the planes x = o, y = o, *)
(*       z = o and x = y, repetition along X with a period, revolution      *)
(*       about the Y axis, extrusion along Z                                *)
(*   CSG : union / intersection of any number of shapes, difference,        *)
(*       complement                                                         *)
(* MC_Shapes enumerates shape terms (primitives under chains of transforms  *)
(* and CSG) as GEN lines; Trace_C16 applies Side to what the real library   *)
(* reported at lattice points.                                              *)
(***************************************************************************)
EXTENDS Integers, Sequences, FiniteSets

Undef == 9
AbsI(x) == IF x < 0 THEN -x ELSE x
Sgn(x) == IF x < 0 THEN -1 ELSE IF x > 0 THEN 1 ELSE 0
\* rationals <<n, d>>, d > 0
RSubC(a, c) == <<a[1] - c * a[2], a[2]>>
RCSub(c, a) == <<c * a[2] - a[1], a[2]>>
RNeg(a) == <<-a[1], a[2]>>
RDivI(a, k) == IF k > 0 THEN <<a[1], a[2] * k>> ELSE <<-a[1], a[2] * (-k)>>       \* k # 0
RCmpC(a, c) == Sgn(a[1] - c * a[2])                                               \* sign(a - c)
RInt(a) == a[1] % a[2] = 0
RVal(a) == a[1] \div a[2]                                                          \* when RInt
I3(p) == <<<<p[1], 1>>, <<p[2], 1>>, <<p[3], 1>>, <<FALSE, {}>>>>
F3(p) == <<<<p[1], 1>>, <<p[2], 1>>, <<p[3], 1>>, <<TRUE, {}>>>>
\* flags of a point after a transform that makes the coordinates `add` inexact / exact again (`drop`)
Mark(p, add, drop) == IF p[4][1] THEN <<TRUE, (p[4][2] \cup add) \ drop>> ELSE p[4]
Inexact(p, k) == p[4][1] /\ k \in p[4][2]
Others(axis) == CASE axis = "X" -> {2, 3} [] axis = "Y" -> {1, 3} [] axis = "Z" -> {1, 2}

\* sign of sum_i (p_i - c_i)^2 - r^2 over the first k coordinates
Dist2Sign(p, c, r, k) ==
  LET D == p[1][2] * p[2][2] * p[3][2]                      \* common denominator
      num(i) == (p[i][1] - c[i] * p[i][2]) * (D \div p[i][2])   \* (p_i - c_i) * D
      s == IF k = 2 THEN num(1) * num(1) + num(2) * num(2) ELSE num(1) * num(1) + num(2) * num(2) + num(3) * num(3)
  IN Sgn(s - r * r * D * D)
\* max / min of signs (three-valued, Undef absorbing)
SMax(a, b) == IF a = Undef \/ b = Undef THEN Undef ELSE IF a > b THEN a ELSE b
SMin(a, b) == IF a = Undef \/ b = Undef THEN Undef ELSE IF a < b THEN a ELSE b
SNeg(a) == IF a = Undef THEN Undef ELSE -a
\* sign of max(lo - x, x - hi)
Slab(x, lo, hi) == SMax(-RCmpC(x, lo), RCmpC(x, hi))

NormalOf(name) == CASE name \in {"X", "YZ"} -> 1 [] name \in {"Y", "ZX"} -> 2 [] name \in {"Z", "XY"} -> 3

\* inverse quarter turn (right-handed rotation about `axis`), applied q times
Quarter(axis, p) == CASE axis = "Z" -> <<p[2], RNeg(p[1]), p[3], p[4]>>
                      [] axis = "X" -> <<p[1], p[3], RNeg(p[2]), p[4]>>
                      [] axis = "Y" -> <<RNeg(p[3]), p[2], p[1], p[4]>>
RECURSIVE Quarters(_, _, _)
Quarters(axis, p, q) == IF q = 0 THEN p ELSE Quarters(axis, Quarter(axis, p), q - 1)
ISqrt(n) == IF \E k \in 0..40 : k * k = n THEN CHOOSE k \in 0..40 : k * k = n ELSE -1

RECURSIVE Side(_, _)
RECURSIVE SideAll(_, _, _, _)
SideAll(ss, p, i, isUnion) ==
  IF i > Len(ss) THEN (IF isUnion THEN 1 ELSE -1)
  ELSE IF isUnion THEN SMin(Side(ss[i], p), SideAll(ss, p, i + 1, isUnion))
       ELSE SMax(Side(ss[i], p), SideAll(ss, p, i + 1, isUnion))
Side(s, p) ==
  CASE s[1] = "sphere" -> Dist2Sign(p, s[2], s[3], 3)
    [] s[1] = "circle" -> Dist2Sign(p, <<s[2][1], s[2][2], 0>>, s[3], 2)
    [] s[1] = "box" -> SMax(SMax(Slab(p[1], s[2][1], s[3][1]), Slab(p[2], s[2][2], s[3][2])), Slab(p[3], s[2][3], s[3][3]))
    [] s[1] = "rect" -> SMax(Slab(p[1], s[2][1], s[3][1]), Slab(p[2], s[2][2], s[3][2]))
    [] s[1] = "plane" -> RCmpC(p[NormalOf(s[2])], s[3])
    [] s[1] = "move" -> Side(s[2], <<RSubC(p[1], s[3][1]), RSubC(p[2], s[3][2]), RSubC(p[3], s[3][3]), p[4]>>)
    [] s[1] = "scale" -> Side(s[2], <<RDivI(p[1], s[3][1]), RDivI(p[2], s[3][2]), RDivI(p[3], s[3][3]), p[4]>>)
    [] s[1] = "scaleu" -> Side(s[2], <<RDivI(p[1], s[3]), RDivI(p[2], s[3]), RDivI(p[3], s[3]), p[4]>>)
    [] s[1] = "reflect" -> LET i == NormalOf(s[3]) IN
                           Side(s[2], [k \in 1..4 |-> IF k = i THEN RCSub(2 * s[4], p[k]) ELSE p[k]])
    [] s[1] = "reflectxy" -> Side(s[2], <<p[2], p[1], p[3], Mark(p, {1, 2}, {})>>)
    [] s[1] = "rot" -> LET c == s[5]
                           q == Quarters(s[3], <<RSubC(p[1], c[1]), RSubC(p[2], c[2]), RSubC(p[3], c[3]), p[4]>>, s[4])
                       IN Side(s[2], <<RSubC(q[1], -c[1]), RSubC(q[2], -c[2]), RSubC(q[3], -c[3]), Mark(p, Others(s[3]), {})>>)
    [] s[1] = "repeatx" -> IF ~RInt(p[1]) THEN Undef
                           ELSE LET r == s[3] - s[4]
                                    m == (RVal(p[1]) + r) % (2 * s[3]) IN
                                IF m = 0 /\ Inexact(p, 1) THEN Undef
                                ELSE Side(s[2], << <<m - r, 1>>, p[2], p[3], p[4]>>)
    \* revolve about the vertical line x = s[3] ("X offset about which to revolve"): a point at distance q from that
    \* line belongs to the solid iff the profile contains (s[3] + q, y)
    [] s[1] = "revolvey" -> IF ~RInt(p[1]) \/ ~RInt(p[3]) THEN Undef
                            ELSE LET dx == RVal(p[1]) - s[3]
                                     q == ISqrt(dx * dx + RVal(p[3]) * RVal(p[3])) IN
                                 IF q < 0 THEN Undef
                                 ELSE Side(s[2], << <<s[3] + q, 1>>, p[2], p[3],
                                                    Mark(p, IF Inexact(p, 1) \/ Inexact(p, 3) THEN {1} ELSE {}, {})>>)
    [] s[1] = "extrudez" -> SMax(Side(s[2], <<p[1], p[2], <<0, 1>>, Mark(p, {}, {3})>>), Slab(p[3], s[3], s[4]))
    [] s[1] = "union" -> SideAll(s[2], p, 1, TRUE)
    [] s[1] = "inter" -> SideAll(s[2], p, 1, FALSE)
    [] s[1] = "diff" -> SMax(Side(s[2], p), SNeg(Side(s[3], p)))
    [] s[1] = "inv" -> SNeg(Side(s[2], p))
=================================================================================
