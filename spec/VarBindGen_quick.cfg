SPECIFICATION Spec
CONSTANTS NFree = 2  MaxEncounters = 4
INVARIANT EmitCase
CHECK_DEADLOCK FALSE
