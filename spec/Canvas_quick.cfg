SPECIFICATION Spec
CONSTANTS MaxEvents = 4  ZoomRefreshesHandle = TRUE  FlagAsWritten = FALSE
INVARIANT DragKeepsGrabbedPoint
VIEW View
CHECK_DEADLOCK FALSE
