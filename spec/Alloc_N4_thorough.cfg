SPECIFICATION Spec
CONSTANTS N = 4  MaxLive = 6  MaxOps = 7
INVARIANT Valid
INVARIANT Consistent
INVARIANT RegsInverse
INVARIANT Done
INVARIANT NoPanic
INVARIANT SlotBound
VIEW View
CHECK_DEADLOCK FALSE
