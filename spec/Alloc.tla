------------------------------ MODULE Alloc ------------------------------
(***************************************************************************)
(* Impl-level model of fidget-core/src/compiler/alloc.rs                   *)
(* (RegisterAllocator<N>): the reverse single-pass register allocator.     *)
(*                                                                         *)
(* One action per SSA op handed to `RegisterAllocator::op` (the tape is    *)
(* walked root first).  The SSA program itself is chosen on the fly: every *)
(* reverse-topological order of every DAG shape within MaxLive/MaxOps is   *)
(* explored.  Rust helper functions (get_memory, get_register, bind,       *)
(* rebind, release, push_store, get_out_reg, op_reg_fn, op_reg_reg's       *)
(* 11 branches = the 18-row table) are transcribed one to one as operators *)
(* on a state record.  Rust `assert!`s and out-of-bounds indexings are     *)
(* modelled as the explicit outcome `panic`, so that "fails loudly" is a   *)
(* state (property C01: budgets below 3 must fail loudly, never            *)
(* miscompile).                                                            *)
(*                                                                         *)
(* Property-level statement (Valid/Consistent/Done): the register tape     *)
(* emitted so far, read forward, delivers to every pending demand the SSA  *)
(* slot it names: a backward demand map `dem : location -> SSA slot` is    *)
(* pushed through exactly the ops emitted in each step.                    *)
(*                                                                         *)
(* `prog` is a history variable (the SSA program generated so far); it is  *)
(* hidden by VIEW in the model-checking configs and printed as JSON in the *)
(* generator config (EmitProg), which feeds the conformance harness.       *)
(***************************************************************************)
EXTENDS Integers, Sequences, FiniteSets, TLC, Json

CONSTANTS N,        \* register budget
          MaxLive,  \* bound on simultaneously pending SSA slots
          MaxOps    \* bound on number of SSA ops processed

U == -1   \* UNASSIGNED

VARIABLES alloc,    \* slot -> location (reg < N, mem >= N) or U
          regs,     \* reg -> slot or U
          lru,      \* sequence of regs, newest first
          spareR,   \* stack of spare registers (top = last)
          spareM,   \* stack of spare memory slots (top = last)
          slotCount,
          pending,  \* set of slots that have been used but not yet defined
          nslots,   \* number of slot names handed out
          nops,
          dem,      \* demand map: location -> slot (backward dataflow)
          ok,       \* all backward transfer steps were valid
          panicked, \* a Rust assertion / bounds check fired
          prog      \* history: SSA ops processed so far (root first)

vars == <<alloc, regs, lru, spareR, spareM, slotCount, pending, nslots, nops, dem, ok, panicked, prog>>

Slots == 0..(MaxOps*2+2)

MoveFront(s, r) == <<r>> \o SelectSeq(s, LAMBDA x: x # r)

Chk(st, c) == IF c THEN st ELSE [st EXCEPT !.panic = TRUE]
\* ---- state record threaded through the Rust helper functions ----
St == [alloc: [Slots -> Int], regs: [0..N-1 -> Int], lru: Seq(0..N-1),
       spareR: Seq(0..N-1), spareM: Seq(Int), slotCount: Int, out: Seq(Seq(Int))]

\* RegOps are encoded as tuples: <<"load", r, m>>, <<"store", r, m>>,
\* <<"op", outreg, nargs, a1, a2>>, <<"output", r>>, <<"def", r>>

GetMemory(st) ==
  IF Len(st.spareM) > 0
  THEN <<[st EXCEPT !.spareM = SubSeq(@, 1, Len(@)-1)], st.spareM[Len(st.spareM)]>>
  ELSE <<[st EXCEPT !.slotCount = @ + 1], st.slotCount>>

\* get_allocation pokes the LRU when the slot is in a register
Poke(st, r) == [st EXCEPT !.lru = MoveFront(@, r)]

GetRegister(st) ==
  IF Len(st.spareR) > 0
  THEN LET r == st.spareR[Len(st.spareR)]
           s1 == [st EXCEPT !.spareR = SubSeq(@, 1, Len(@)-1),
                            !.slotCount = IF @ > r + 1 THEN @ ELSE r + 1]
       IN <<Poke(Chk(s1, st.regs[r] = U), r), r>>
  ELSE LET r  == st.lru[Len(st.lru)]
           s1 == [st EXCEPT !.lru = MoveFront(@, r)]
           gm == GetMemory(s1)
           s2 == gm[1]
           m  == gm[2]
           prev == s2.regs[r]
           s3 == IF prev = U THEN [s2 EXCEPT !.panic = TRUE, !.out = Append(@, <<"load", r, m>>)]
                 ELSE [s2 EXCEPT !.alloc[prev] = m, !.regs[r] = U,
                            !.out = Append(@, <<"load", r, m>>)]
       IN <<s3, r>>

PushStore(st, r, m) == [st EXCEPT !.out = Append(@, <<"store", r, m>>),
                                   !.spareM = Append(@, m)]

Bind(st, n, r) == LET s == Chk(st, (st.alloc[n] = U \/ st.alloc[n] >= N) /\ st.regs[r] = U) IN [s EXCEPT !.regs[r] = n, !.alloc[n] = r]
Rebind(st, n, r) == IF st.regs[r] = U THEN [st EXCEPT !.panic = TRUE] ELSE LET s == Chk(st, (st.alloc[n] = U \/ st.alloc[n] >= N)) IN [s EXCEPT !.alloc[st.regs[r]] = U, !.regs[r] = n, !.alloc[n] = r]
Release(st, r) == IF st.regs[r] = U THEN [st EXCEPT !.panic = TRUE] ELSE [st EXCEPT !.alloc[st.regs[r]] = U, !.regs[r] = U, !.spareR = Append(@, r)]

IsReg(a) == a >= 0 /\ a < N
IsMem(a) == a >= N

\* get_allocation with poke side effect
GetAlloc(st, n) == IF IsReg(st.alloc[n]) THEN Poke(st, st.alloc[n]) ELSE st

GetOutReg(st, o) ==
  LET s0 == GetAlloc(st, o) IN
  IF IsReg(s0.alloc[o]) THEN <<s0, s0.alloc[o]>>
  ELSE LET g == GetRegister(s0)
           s1 == PushStore(g[1], g[2], s0.alloc[o])
       IN <<Bind(s1, o, g[2]), g[2]>>

Emit(st, op) == [st EXCEPT !.out = Append(@, op)]

OpUnary(st, o, a) ==
  LET g == GetOutReg(st, o)  rx == g[2]
      s0 == GetAlloc(g[1], a)
      la == s0.alloc[a]
  IN IF IsReg(la) THEN Release(Emit(Chk(s0, rx # la), <<"op", rx, 1, la, la>>), rx)
     ELSE IF IsMem(la) THEN
        LET h == GetRegister(s0)  ra == h[2]
            s1 == PushStore(h[1], ra, la)
            s2 == Emit(s1, <<"op", rx, 1, ra, ra>>)
        IN Bind(Release(s2, rx), a, ra)
     ELSE Rebind(Emit(s0, <<"op", rx, 1, rx, rx>>), a, rx)

OpBinary(st, o, l, r) ==
  LET g == GetOutReg(st, o)  rx == g[2]
      s0 == GetAlloc(GetAlloc(g[1], l), r)
      ll == s0.alloc[l]  lr == s0.alloc[r]
  IN CASE IsReg(ll) /\ IsReg(lr) -> Release(Emit(s0, <<"op", rx, 2, ll, lr>>), rx)
       [] IsMem(ll) /\ IsReg(lr) ->
            LET h == GetRegister(s0) ra == h[2]
                s1 == Emit(PushStore(h[1], ra, ll), <<"op", rx, 2, ra, lr>>)
            IN Bind(Release(s1, rx), l, ra)
       [] IsReg(ll) /\ IsMem(lr) ->
            LET h == GetRegister(s0) ra == h[2]
                s1 == Emit(PushStore(h[1], ra, lr), <<"op", rx, 2, ll, ra>>)
            IN Bind(Release(s1, rx), r, ra)
       [] IsMem(ll) /\ IsMem(lr) /\ l = r ->
            LET h == GetRegister(s0) ra == h[2]
                s1 == Emit(PushStore(h[1], ra, ll), <<"op", rx, 2, ra, ra>>)
            IN Bind(Release(s1, rx), l, ra)
       [] IsMem(ll) /\ IsMem(lr) /\ l # r ->
            LET h == GetRegister(s0) ra == h[2]
                k == GetRegister(h[1]) rb == k[2]
                s1 == PushStore(PushStore(k[1], ra, ll), rb, lr)
                s2 == Emit(s1, <<"op", rx, 2, ra, rb>>)
            IN Bind(Bind(Release(s2, rx), l, ra), r, rb)
       [] ll = U /\ IsReg(lr) -> Rebind(Emit(s0, <<"op", rx, 2, rx, lr>>), l, rx)
       [] IsReg(ll) /\ lr = U -> Rebind(Emit(s0, <<"op", rx, 2, ll, rx>>), r, rx)
       [] ll = U /\ lr = U /\ l = r -> Rebind(Emit(s0, <<"op", rx, 2, rx, rx>>), l, rx)
       [] ll = U /\ lr = U /\ l # r ->
            LET h == GetRegister(s0) ra == h[2]
                s1 == Emit(h[1], <<"op", rx, 2, rx, ra>>)
            IN Bind(Rebind(s1, l, rx), r, ra)
       [] ll = U /\ IsMem(lr) ->
            LET h == GetRegister(s0) ra == h[2]
                s1 == Emit(PushStore(Chk(h[1], ra # rx), ra, lr), <<"op", rx, 2, rx, ra>>)
            IN Bind(Rebind(s1, l, rx), r, ra)
       [] IsMem(ll) /\ lr = U ->
            LET h == GetRegister(s0) ra == h[2]
                s1 == Emit(PushStore(Chk(h[1], ra # rx), ra, ll), <<"op", rx, 2, ra, rx>>)
            IN Rebind(Bind(s1, l, ra), r, rx)

OpDef(st, o) ==   \* Input / CopyImm
  LET g == GetOutReg(st, o) rx == g[2]
  IN Release(Emit(g[1], <<"def", rx>>), rx)

OpOutput(st, a) ==
  LET s0 == GetAlloc(st, a)  la == s0.alloc[a]
  IN IF IsReg(la) THEN Emit(s0, <<"output", la>>)
     ELSE IF IsMem(la) THEN
        LET h == GetRegister(s0) ra == h[2]
        IN Bind(Emit(PushStore(h[1], ra, la), <<"output", ra>>), a, ra)
     ELSE LET h == GetRegister(s0) ra == h[2]
          IN Bind(Emit(h[1], <<"output", ra>>), a, ra)

\* ---- backward demand transfer ----
\* d: function from locations (Int) to slot or U, represented as a set of pairs
Dom(d) == {p[1] : p \in d}
Get(d, loc) == (CHOOSE p \in d : p[1] = loc)[2]
Rm(d, loc) == {p \in d : p[1] # loc}
\* returns <<d', valid>>
Add(dv, loc, s) == IF loc \in Dom(dv[1]) /\ Get(dv[1], loc) # s THEN <<dv[1], FALSE>>
                   ELSE <<dv[1] \cup {<<loc, s>>}, dv[2]>>

\* sop = the SSA op: <<kind, o, a, b>>
Back(dv, rop, sop) ==
  LET d == dv[1] IN
  CASE rop[1] = "load" ->
         IF rop[2] \in Dom(d) THEN Add(<<Rm(d, rop[2]), dv[2]>>, rop[3], Get(d, rop[2])) ELSE dv
    [] rop[1] = "store" ->
         IF rop[3] \in Dom(d) THEN Add(<<Rm(d, rop[3]), dv[2]>>, rop[2], Get(d, rop[3])) ELSE dv
    [] rop[1] = "output" -> Add(dv, rop[2], sop[3])
    [] rop[1] = "def" ->
         IF rop[2] \in Dom(d) /\ Get(d, rop[2]) = sop[2] THEN <<Rm(d, rop[2]), dv[2]>> ELSE <<d, FALSE>>
    [] rop[1] = "op" ->
         IF rop[2] \in Dom(d) /\ Get(d, rop[2]) = sop[2]
         THEN LET d1 == <<Rm(d, rop[2]), dv[2]>>
                  d2 == Add(d1, rop[4], sop[3])
              IN IF rop[3] = 2 THEN Add(d2, rop[5], sop[4]) ELSE d2
         ELSE <<d, FALSE>>

RECURSIVE BackAll(_, _, _, _)
BackAll(dv, ops, i, sop) == IF i > Len(ops) THEN dv ELSE BackAll(Back(dv, ops[i], sop), ops, i+1, sop)

Cur == [alloc |-> alloc, regs |-> regs, lru |-> lru, spareR |-> spareR,
        spareM |-> spareM, slotCount |-> slotCount, out |-> <<>>, panic |-> FALSE]

Install(st, sop) ==
  LET dv == BackAll(<<dem, ok>>, st.out, 1, sop) IN
  /\ alloc' = st.alloc /\ regs' = st.regs /\ lru' = st.lru
  /\ spareR' = st.spareR /\ spareM' = st.spareM /\ slotCount' = st.slotCount
  /\ dem' = dv[1] /\ ok' = dv[2]
  /\ nops' = nops + 1
  /\ panicked' = st.panic
  /\ prog' = Append(prog, sop)

Init == /\ alloc = [s \in Slots |-> U]
        /\ regs = [r \in 0..N-1 |-> U]
        /\ lru = [i \in 1..N |-> i-1]
        /\ spareR = [i \in 1..N |-> N - i]
        /\ spareM = <<>>
        /\ slotCount = 0
        /\ pending = {} /\ nslots = 0 /\ nops = 0
        /\ dem = {} /\ ok = TRUE /\ panicked = FALSE /\ prog = <<>>

\* An argument is either an already-pending slot or a fresh one
ArgChoices == pending \cup {nslots}

DoOutput ==
  /\ nops < MaxOps
  /\ \E a \in ArgChoices :
       /\ (a = nslots => Cardinality(pending) < MaxLive)
       /\ pending' = pending \cup {a}
       /\ nslots' = IF a = nslots THEN nslots + 1 ELSE nslots
       /\ Install(OpOutput(Cur, a), <<"output", U, a, U>>)

DoDef ==
  /\ \E o \in pending :
       /\ pending' = pending \ {o}
       /\ UNCHANGED nslots
       /\ Install(OpDef(Cur, o), <<"def", o, U, U>>)

DoUnary ==
  /\ nops < MaxOps
  /\ \E o \in pending : \E a \in (pending \ {o}) \cup {nslots} :
       /\ (a = nslots => Cardinality(pending) - 1 < MaxLive)
       /\ pending' = (pending \ {o}) \cup {a}
       /\ nslots' = IF a = nslots THEN nslots + 1 ELSE nslots
       /\ Install(OpUnary(Cur, o, a), <<"un", o, a, U>>)

DoBinary ==
  /\ nops < MaxOps
  /\ \E o \in pending : \E l \in (pending \ {o}) \cup {nslots} :
       \E r \in (pending \ {o}) \cup {nslots, nslots + 1} :
       /\ (r = nslots + 1 => l = nslots)      \* canonical fresh naming
       /\ LET fresh == Cardinality({l, r} \ pending) IN
          /\ Cardinality(pending) - 1 + fresh <= MaxLive
          /\ nslots' = nslots + fresh
       /\ pending' = (pending \ {o}) \cup {l, r}
       /\ Install(OpBinary(Cur, o, l, r), <<"bin", o, l, r>>)

Next == ~panicked /\ (DoOutput \/ DoDef \/ DoUnary \/ DoBinary)

Spec == Init /\ [][Next]_vars

\* ---- properties ----
Valid == ok
Loud == panicked \/ (ok /\ (\A s \in pending : alloc[s] # U => <<alloc[s], s>> \in dem) /\ (\A p \in dem : p[2] \in pending /\ alloc[p[2]] = p[1]))
\* the demand map is exactly the allocator's binding of pending slots
Consistent ==
  /\ \A s \in pending : alloc[s] # U => <<alloc[s], s>> \in dem
  /\ \A p \in dem : p[2] \in pending /\ alloc[p[2]] = p[1]
  /\ \A s \in pending : alloc[s] # U
RegsInverse == \A r \in 0..N-1 : regs[r] # U => alloc[regs[r]] = r
Done == pending = {} => dem = {}
\* budgets the allocator accepts (N >= 3) never trip an assertion
NoPanic == ~panicked
\* every location handed out lies below the advertised slot count; registers
\* are below N and memory at or above N
SlotBound ==
  /\ \A s \in Slots : alloc[s] # U => alloc[s] < slotCount
  /\ \A p \in dem : p[1] < slotCount
  /\ \A i \in 1..Len(spareM) : spareM[i] >= N /\ spareM[i] < slotCount

\* model-checking view: the history variable adds no behaviour
View == <<alloc, regs, lru, spareR, spareM, slotCount, pending, nslots, nops, dem, ok, panicked>>

\* generator: one JSON line per complete SSA program (all demands defined)
EmitProg == (pending = {} /\ nops > 0 /\ ~panicked) => PrintT(<<"PROG", ToJson(prog)>>)
==========================================================================
