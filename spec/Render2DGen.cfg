SPECIFICATION Spec
CONSTANTS TS <- TS21 W = 2 H = 2 FillMode = TRUE
INVARIANT Correct
INVARIANT EmitBitmap
CHECK_DEADLOCK FALSE
