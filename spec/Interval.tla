------------------------------- MODULE Interval -------------------------------
(***************************************************************************)
(* Interval arithmetic of fidget-core/src/types/interval.rs transcribed    *)
(* onto a small saturating number line {-INF, -M..M, INF, NAN} that        *)
(* follows the IEEE rules for infinities and NaN (overflow saturates to    *)
(* +-INF, INF - INF = NAN, 0 * INF = NAN, x / 0 = +-INF, f32::min/max      *)
(* ignore a NaN operand).  Two slots each carry an interval together with  *)
(* one point of the original finite box; every op sequence up to MaxDepth  *)
(* from every finite start box is explored.                                *)
(*   NoPanic   (C11): no reachable interval trips the constructor          *)
(*             assertion (lo <= hi or both NaN).  Guarded = FALSE          *)
(*             reproduces the defect repaired in Add / Sub / Mul<f32>.     *)
(*   Enclosure (C03): the carried point stays inside the carried interval  *)
(*             unless the interval is the NaN interval or the point is NaN.*)
(*             GuardedInf = FALSE reproduces the defect repaired in sin /  *)
(*             cos / rem_euclid (28471dc), in mul (674efe4: 0 * INF at an  *)
(*             interior point) and in add / sub (71f5367: INF - INF).      *)
(***************************************************************************)
EXTENDS Integers, Sequences, FiniteSets, TLC
CONSTANTS M, MaxDepth, GuardedProducts, Guarded,    \* Guarded = TRUE: Add/Sub/Mul-by-imm return the NaN interval when a bound is NaN
          GuardedInf                                \* TRUE: bounded-range ops (sin, cos, mod) return the NaN interval for an infinite bound

INF == 100  NINF == -100  NAN == 999
Fin == -M..M
Val == Fin \cup {INF, NINF, NAN}
IsNan(a) == a = NAN
Sat(x) == IF x > M THEN INF ELSE IF x < -M THEN NINF ELSE x
Sgn(a) == IF a > 0 THEN 1 ELSE IF a < 0 THEN -1 ELSE 0
IsInf(a) == a \in {INF, NINF}
FAdd(a, b) == IF IsNan(a) \/ IsNan(b) THEN NAN
              ELSE IF IsInf(a) /\ IsInf(b) THEN (IF a = b THEN a ELSE NAN)
              ELSE IF IsInf(a) THEN a ELSE IF IsInf(b) THEN b ELSE Sat(a + b)
FNeg(a) == IF IsNan(a) THEN NAN ELSE -a
FSub(a, b) == FAdd(a, FNeg(b))
FMul(a, b) == IF IsNan(a) \/ IsNan(b) THEN NAN
              ELSE IF (IsInf(a) /\ b = 0) \/ (IsInf(b) /\ a = 0) THEN NAN
              ELSE IF IsInf(a) \/ IsInf(b) THEN (IF Sgn(a) * Sgn(b) > 0 THEN INF ELSE NINF)
              ELSE Sat(a * b)
Lt(a, b) == ~IsNan(a) /\ ~IsNan(b) /\ a < b
Le(a, b) == ~IsNan(a) /\ ~IsNan(b) /\ a <= b
RMin(a, b) == IF IsNan(a) THEN b ELSE IF IsNan(b) THEN a ELSE IF a < b THEN a ELSE b     \* f32::min ignores NaN
RMax(a, b) == IF IsNan(a) THEN b ELSE IF IsNan(b) THEN a ELSE IF a > b THEN a ELSE b
FAbs(a) == IF IsNan(a) THEN NAN ELSE IF a < 0 THEN -a ELSE a

\* intervals <<lo, hi>>; ILL = constructor assertion failed (panic)
ILL == <<"ill">>
New(lo, hi) == IF Le(lo, hi) \/ (IsNan(lo) /\ IsNan(hi)) THEN <<lo, hi>> ELSE ILL
NanIv == <<NAN, NAN>>
HasNan(i) == IsNan(i[1]) \/ IsNan(i[2])
G(lo, hi) == IF Guarded /\ (IsNan(lo) \/ IsNan(hi)) THEN NanIv ELSE New(lo, hi)
(* with GuardedInf the two other bound combinations are examined too: they are NaN exactly when the ranges hold  *)
(* infinities whose sum / difference is NaN at some point (71f5367)                                               *)
IAdd(a, b) == IF GuardedInf /\ (IsNan(FAdd(a[1], b[2])) \/ IsNan(FAdd(a[2], b[1]))) THEN NanIv
              ELSE G(FAdd(a[1], b[1]), FAdd(a[2], b[2]))
ISub(a, b) == IF GuardedInf /\ (IsNan(FSub(a[1], b[1])) \/ IsNan(FSub(a[2], b[2]))) THEN NanIv
              ELSE G(FSub(a[1], b[2]), FSub(a[2], b[1]))
INeg(a) == New(FNeg(a[2]), FNeg(a[1]))
IAbs(a) == IF Lt(a[1], 0) THEN (IF Lt(0, a[2]) THEN New(0, RMax(a[2], FNeg(a[1]))) ELSE New(FNeg(a[2]), FNeg(a[1]))) ELSE a
ISquare(a) == IF Lt(a[2], 0) THEN New(FMul(a[2], a[2]), FMul(a[1], a[1]))
              ELSE IF Lt(0, a[1]) THEN New(FMul(a[1], a[1]), FMul(a[2], a[2]))
              ELSE IF HasNan(a) THEN NanIv
              ELSE LET m == RMax(FAbs(a[1]), FAbs(a[2])) IN New(0, FMul(m, m))
HasInf(a) == IsInf(a[1]) \/ IsInf(a[2])
Has0(a) == Le(a[1], 0) /\ Le(0, a[2])
IMul(a, b) == IF HasNan(a) \/ HasNan(b) THEN NanIv
              ELSE IF GuardedInf /\ ((HasInf(a) /\ Has0(b)) \/ (HasInf(b) /\ Has0(a))) THEN NanIv     \* 0 * INF inside the ranges (674efe4)
              ELSE LET p == <<FMul(a[1], b[1]), FMul(a[1], b[2]), FMul(a[2], b[1]), FMul(a[2], b[2])>>
                       lo == RMin(RMin(RMin(p[1], p[2]), p[3]), p[4])
                       hi == RMax(RMax(RMax(p[1], p[2]), p[3]), p[4])
                   IN IF GuardedProducts /\ \E k \in 1..4 : IsNan(p[k]) THEN NanIv ELSE New(lo, hi)
IMulImm(a, k) == IF HasNan(a) \/ IsNan(k) THEN NanIv
                 ELSE IF GuardedInf /\ IsInf(k) /\ Has0(a) THEN NanIv
                 ELSE IF k < 0 THEN G(FMul(a[2], k), FMul(a[1], k)) ELSE G(FMul(a[1], k), FMul(a[2], k))
IMin(a, b) == IF HasNan(a) \/ HasNan(b) THEN NanIv ELSE New(RMin(a[1], b[1]), RMin(a[2], b[2]))
IMax(a, b) == IF HasNan(a) \/ HasNan(b) THEN NanIv ELSE New(RMax(a[1], b[1]), RMax(a[2], b[2]))

FDivInt(a, b) == IF b > 0 THEN a \div b ELSE (-a) \div (-b)       \* rounds toward -inf: monotone, like any rounding mode
FDiv(a, b) == IF IsNan(a) \/ IsNan(b) THEN NAN
              ELSE IF IsInf(a) /\ IsInf(b) THEN NAN
              ELSE IF b = 0 THEN (IF a = 0 THEN NAN ELSE IF a > 0 THEN INF ELSE NINF)
              ELSE IF IsInf(b) THEN 0
              ELSE IF IsInf(a) THEN (IF Sgn(a) * Sgn(b) > 0 THEN INF ELSE NINF)
              ELSE Sat(FDivInt(a, b))
IRecip(a) == IF Lt(0, a[1]) \/ Lt(a[2], 0) THEN New(FDiv(1, a[2]), FDiv(1, a[1])) ELSE NanIv
IDiv(a, b) == IF HasNan(a) THEN NanIv
              ELSE IF Lt(0, b[1]) \/ Lt(b[2], 0)
              THEN LET p == <<FDiv(a[1], b[1]), FDiv(a[1], b[2]), FDiv(a[2], b[1]), FDiv(a[2], b[2])>>
                       lo == RMin(RMin(RMin(p[1], p[2]), p[3]), p[4])
                       hi == RMax(RMax(RMax(p[1], p[2]), p[3]), p[4])
                   IN IF GuardedProducts /\ \E k \in 1..4 : IsNan(p[k]) THEN NanIv ELSE New(lo, hi)
              ELSE NanIv
ICompare(a, b) == IF HasNan(a) \/ HasNan(b) THEN NanIv
                  ELSE IF Lt(a[2], b[1]) THEN <<-1, -1>> ELSE IF Lt(b[2], a[1]) THEN <<1, 1>>
                  ELSE IF a[1] = a[2] /\ b[1] = b[2] /\ a[1] = b[1] THEN <<0, 0>> ELSE <<-1, 1>>
Contains0(a) == Le(a[1], 0) /\ Le(0, a[2])
INot(a) == IF ~Contains0(a) /\ ~HasNan(a) THEN <<0, 0>> ELSE IF a = <<0, 0>> THEN <<1, 1>> ELSE <<0, 1>>
IAnd(a, b) == IF HasNan(a) \/ HasNan(b) THEN NanIv ELSE IF a = <<0, 0>> THEN <<0, 0>>
              ELSE IF ~Contains0(a) THEN b ELSE New(RMin(b[1], 0), RMax(b[2], 0))
IOr(a, b) == IF HasNan(a) \/ HasNan(b) THEN NanIv ELSE IF ~Contains0(a) THEN a
             ELSE IF a = <<0, 0>> THEN b ELSE New(RMin(a[1], b[1]), RMax(a[2], b[2]))
PCompare(x, y) == IF IsNan(x) \/ IsNan(y) THEN NAN ELSE IF x < y THEN -1 ELSE IF x > y THEN 1 ELSE 0
PNot(x) == IF x = 0 THEN 1 ELSE 0
PAnd(x, y) == IF x = 0 THEN x ELSE y
POr(x, y) == IF ~IsNan(x) /\ x # 0 THEN x ELSE IF IsNan(x) THEN x ELSE y

\* point semantics of the same ops (fidget's min/max give NaN if either side is NaN)
PMin(x, y) == IF IsNan(x) \/ IsNan(y) THEN NAN ELSE IF x < y THEN x ELSE y
PMax(x, y) == IF IsNan(x) \/ IsNan(y) THEN NAN ELSE IF x > y THEN x ELSE y

(* "wave" stands for the operators with a bounded range whose point value is NaN at +-INF (sin, cos, x mod 2): *)
(* before the repair 28471dc their interval ignored an infinite bound                                            *)
PWave(x) == IF IsNan(x) \/ IsInf(x) THEN NAN ELSE x % 2
IWave(a) == IF HasNan(a) \/ (GuardedInf /\ (IsInf(a[1]) \/ IsInf(a[2]))) THEN NanIv ELSE <<0, 1>>
Ops1 == {"neg", "abs", "square", "mulimm2", "mulimmINF", "recip", "not", "wave"}
Ops2 == {"add", "sub", "mul", "min", "max", "div", "compare", "and", "or"}
IOp1(o, a) == CASE o = "neg" -> INeg(a) [] o = "abs" -> IAbs(a) [] o = "square" -> ISquare(a)
                [] o = "mulimm2" -> IMulImm(a, -2) [] o = "mulimmINF" -> IMulImm(a, INF)
                [] o = "recip" -> IRecip(a) [] o = "not" -> INot(a) [] o = "wave" -> IWave(a)
POp1(o, x) == CASE o = "neg" -> FNeg(x) [] o = "abs" -> FAbs(x) [] o = "square" -> FMul(x, x)
                [] o = "mulimm2" -> FMul(x, -2) [] o = "mulimmINF" -> FMul(x, INF)
                [] o = "recip" -> FDiv(1, x) [] o = "not" -> PNot(x) [] o = "wave" -> PWave(x)
IOp2(o, a, b) == CASE o = "add" -> IAdd(a, b) [] o = "sub" -> ISub(a, b) [] o = "mul" -> IMul(a, b)
                   [] o = "min" -> IMin(a, b) [] o = "max" -> IMax(a, b)
                   [] o = "div" -> IDiv(a, b) [] o = "compare" -> ICompare(a, b)
                   [] o = "and" -> IAnd(a, b) [] o = "or" -> IOr(a, b)
POp2(o, x, y) == CASE o = "add" -> FAdd(x, y) [] o = "sub" -> FSub(x, y) [] o = "mul" -> FMul(x, y)
                   [] o = "min" -> PMin(x, y) [] o = "max" -> PMax(x, y)
                   [] o = "div" -> FDiv(x, y) [] o = "compare" -> PCompare(x, y)
                   [] o = "and" -> PAnd(x, y) [] o = "or" -> POr(x, y)

\* state: two slots, each an interval together with one point inside the ORIGINAL finite box, carried along
VARIABLES ia, pa, ib, pb, depth, lastop
vars == <<ia, pa, ib, pb, depth, lastop>>
FinBoxes == {<<l, h>> \in Fin \X Fin : l <= h}
Init == /\ ia \in FinBoxes /\ pa \in Fin /\ pa >= ia[1] /\ pa <= ia[2]
        /\ ib \in FinBoxes /\ pb \in Fin /\ pb >= ib[1] /\ pb <= ib[2]
        /\ depth = 0 /\ lastop = "-"
Next == /\ depth < MaxDepth /\ ia # ILL /\ ib # ILL
        /\ depth' = depth + 1
        /\ \/ \E o \in Ops1 : ia' = IOp1(o, ia) /\ pa' = POp1(o, pa) /\ lastop' = o /\ UNCHANGED <<ib, pb>>
           \/ \E o \in Ops2 : ia' = IOp2(o, ia, ib) /\ pa' = POp2(o, pa, pb) /\ lastop' = o /\ UNCHANGED <<ib, pb>>
           \/ \E o \in Ops2 : ib' = IOp2(o, ib, ia) /\ pb' = POp2(o, pb, pa) /\ lastop' = o /\ UNCHANGED <<ia, pa>>
Spec == Init /\ [][Next]_vars
NoPanic == ia # ILL /\ ib # ILL
Encl(i, p) == i = ILL \/ HasNan(i) \/ IsNan(p) \/ (i[1] <= p /\ p <= i[2])
Enclosure == Encl(ia, pa) /\ Encl(ib, pb)
==========================================================================
