----------------------------- MODULE OctreeMerge -----------------------------
(***************************************************************************)
(* Octree::build_inner_mt (fidget-mesh/src/octree.rs): the multi-threaded  *)
(* octree build (C09, mesh half; C08 on threaded builds).                  *)
(*                                                                         *)
(* 1. Pre-split: starting from the root cell, cells are popped from the    *)
(*    front of a queue and split (a group of A placeholder cells is        *)
(*    reserved in the root octree, the A children are queued, the split is *)
(*    noted for the fix-up) until the queue holds at least Target cells.   *)
(* 2. Every queued cell is built by a worker as a LOCAL octree: its own    *)
(*    group array (Branch indices are local), its own vertex array (Leaf   *)
(*    indices are local) and its root cell.                                *)
(* 3. Merge: the local group and vertex arrays are appended to the root    *)
(*    octree in queue order; every Branch index is rebased by the number   *)
(*    of groups that precede, every Leaf index by the number of vertices   *)
(*    that precede; the rebased local root is stored in the placeholder.   *)
(* 4. Fix-up, in reverse split order (check_done): a split cell whose      *)
(*    children are all Empty (all Full) becomes Empty (Full); if they are  *)
(*    all leaves (Leaf / Empty / Full) it MAY be collapsed into one Leaf   *)
(*    whose vertex is appended to the merged vertex array (whether it is   *)
(*    depends on the geometry: every subset of the splits is tried);       *)
(*    otherwise it stays a Branch.  When it does not stay a Branch its     *)
(*    children group is dropped (at the tail of the array) or overwritten  *)
(*    with placeholders (in the middle): dead groups are never looked at   *)
(*    again.  (The collapse and the dead groups were added to the model    *)
(*    after the first recorded builds disagreed with it: see               *)
(*    Trace_OctreeMerge.tla.)                                              *)
(*                                                                         *)
(* The arity A is a constant (the rebasing is the same for 2 and 8).       *)
(* Meaning(o, cell) is the tree of vertex labels a cell denotes.  TLC      *)
(* checks over every assignment of local octrees to the queued cells:      *)
(*   Isomorphic   the merged octree denotes, under every queued cell's     *)
(*                path, exactly what that worker's local octree denotes    *)
(*   InBounds     every Branch / Leaf index points into the arrays         *)
(*   NoInvalid    no placeholder survives                                  *)
(* The conformance side is Trace_C09 (threaded mesh = sequential mesh) and *)
(* Trace_C08 (threaded builds are manifold).                               *)
(***************************************************************************)
EXTENDS Integers, Sequences, FiniteSets, TLC

CONSTANTS A, Target
VARIABLE c
vars == <<c>>

\* cells: <<"E">>, <<"F">>, <<"I">> (placeholder), <<"L", first vertex, count>>, <<"B", group>>
E == <<"E">>  F == <<"F">>  I == <<"I">>
Leaf(i, n) == <<"L", i, n>>
Branch(g) == <<"B", g>>
Oct(root, groups, verts) == [root |-> root, groups |-> groups, verts |-> verts]

(* a small family of local octrees, vertex labels made unique per worker by the tag t *)
Family(t) == {
  Oct(E, <<>>, <<>>),
  Oct(F, <<>>, <<>>),
  Oct(Leaf(0, 2), <<>>, <<t * 10 + 1, t * 10 + 2>>),
  Oct(Branch(0), << [j \in 1..A |-> IF j = 1 THEN Leaf(0, 1) ELSE E] >>, <<t * 10 + 3>>),
  Oct(Branch(0), << [j \in 1..A |-> IF j = 1 THEN Branch(1) ELSE Leaf(1, 1)],
                   [j \in 1..A |-> IF j = A THEN Leaf(0, 1) ELSE F] >>, <<t * 10 + 4, t * 10 + 5>>) }

(* what a cell denotes *)
RECURSIVE Meaning(_, _)
Meaning(o, cell) ==
  CASE cell[1] = "L" -> <<"leaf", SubSeq(o.verts, cell[2] + 1, cell[2] + cell[3])>>
    [] cell[1] = "B" -> <<"branch", [j \in 1..A |-> Meaning(o, o.groups[cell[2] + 1][j])]>>
    [] OTHER -> <<cell[1]>>

(* ---- 1. pre-split: queue entries are <<group, j>> (position of the placeholder); the root is <<-1, 0>> *)
RECURSIVE Split(_, _, _)
Split(queue, ngroups, fixup) ==
  IF Len(queue) >= Target THEN [queue |-> queue, ngroups |-> ngroups, fixup |-> fixup]
  ELSE LET next == Head(queue) IN
       Split(Tail(queue) \o [j \in 1..A |-> <<ngroups, j>>], ngroups + 1, Append(fixup, <<next, ngroups>>))

(* ---- 3. merge *)
Rebase(cell, goff, voff) == CASE cell[1] = "L" -> Leaf(cell[2] + voff, cell[3])
                              [] cell[1] = "B" -> Branch(cell[2] + goff)
                              [] OTHER -> cell
Put(o, pos, cell) == IF pos[1] = -1 THEN [o EXCEPT !.root = cell]
                     ELSE [o EXCEPT !.groups[pos[1] + 1][pos[2]] = cell]
RECURSIVE Merge(_, _, _, _)
Merge(o, queue, locals, i) ==
  IF i > Len(queue) THEN o
  ELSE LET goff == Len(o.groups)  voff == Len(o.verts)  lo == locals[i]
           added == [o EXCEPT !.groups = o.groups \o [g \in 1..Len(lo.groups) |-> [j \in 1..A |-> Rebase(lo.groups[g][j], goff, voff)]],
                              !.verts = o.verts \o lo.verts]
       IN Merge(Put(added, queue[i], Rebase(lo.root, goff, voff)), queue, locals, i + 1)

(* ---- 4. fix-up in reverse split order *)
Get(o, pos) == IF pos[1] = -1 THEN o.root ELSE o.groups[pos[1] + 1][pos[2]]
LeafLike(cell) == cell[1] \in {"L", "E", "F"}
\* <<new cell, octree>>: the octree gains a vertex when the group is collapsed into a leaf
Done(o, g, collapse) ==
  LET kids == o.groups[g + 1] IN
  IF \A j \in 1..A : kids[j] = E THEN <<E, o>>
  ELSE IF \A j \in 1..A : kids[j] = F THEN <<F, o>>
  ELSE IF collapse /\ \A j \in 1..A : LeafLike(kids[j])
       THEN <<Leaf(Len(o.verts), 1), [o EXCEPT !.verts = Append(o.verts, -1 - g)]>>
       ELSE <<Branch(g), o>>
\* the children group of a cell that did not stay a Branch: dropped at the tail, placeholders in the middle
Retire(o, g) == IF g + 1 = Len(o.groups) THEN [o EXCEPT !.groups = SubSeq(o.groups, 1, g)]
                ELSE [o EXCEPT !.groups[g + 1] = [j \in 1..A |-> I]]
RECURSIVE Fixup(_, _, _, _)
Fixup(o, fixup, k, coll) ==
  IF k = 0 THEN o
  ELSE LET d == Done(o, fixup[k][2], fixup[k][2] \in coll)
           o2 == IF d[1][1] = "B" THEN d[2] ELSE Retire(d[2], fixup[k][2])
       IN Fixup(Put(o2, fixup[k][1], d[1]), fixup, k - 1, coll)

Build(locals, coll) ==
  LET s == Split(<< <<-1, 0>> >>, 0, <<>>)
      start == Oct(I, [g \in 1..s.ngroups |-> [j \in 1..A |-> I]], <<>>)
  IN [split |-> s, tree |-> Fixup(Merge(start, s.queue, locals, 1), s.fixup, Len(s.fixup), coll)]

(* ---- properties *)
S0 == Split(<< <<-1, 0>> >>, 0, <<>>)
NTasks == Len(S0.queue)
(* a collapsed parent (all children Empty / Full) denotes the same as each child: compare through that rule *)
RECURSIVE Simplify(_)
Simplify(m) == IF m[1] # "branch" THEN m
               ELSE LET ks == [j \in 1..A |-> Simplify(m[2][j])] IN
                    IF \A j \in 1..A : ks[j] = <<"E">> THEN <<"E">>
                    ELSE IF \A j \in 1..A : ks[j] = <<"F">> THEN <<"F">> ELSE <<"branch", ks>>
\* a group is alive if the split cell that reserved it is still a Branch to it, and so on up to the root
RECURSIVE GroupAlive(_, _, _)
GroupAlive(b, g, fuel) ==
  /\ fuel > 0 /\ g < Len(b.tree.groups)
  /\ \E k \in 1..Len(b.split.fixup) :
        /\ b.split.fixup[k][2] = g
        /\ (b.split.fixup[k][1][1] = -1 \/ GroupAlive(b, b.split.fixup[k][1][1], fuel - 1))
        /\ Get(b.tree, b.split.fixup[k][1]) = Branch(g)
Isomorphic(b, locals) == \A i \in 1..NTasks :
   LET pos == b.split.queue[i] IN
      \/ pos[1] = -1      \* (no split at all: the root is the only task)
      \/ ~GroupAlive(b, pos[1], 8)
      \/ Simplify(Meaning(b.tree, Get(b.tree, pos))) = Simplify(Meaning(locals[i], locals[i].root))
RECURSIVE CellsOf(_, _)
CellsOf(o, cell) == IF cell[1] = "B" THEN {cell} \cup UNION {CellsOf(o, o.groups[cell[2] + 1][j]) : j \in 1..A} ELSE {cell}
InBounds(o) == \A cell \in CellsOf(o, o.root) :
                 /\ (cell[1] = "B" => cell[2] >= 0 /\ cell[2] < Len(o.groups))
                 /\ (cell[1] = "L" => cell[2] >= 0 /\ cell[2] + cell[3] <= Len(o.verts))
NoInvalid(o) == \A cell \in CellsOf(o, o.root) : cell # I
(* every vertex of every worker is in the merged array exactly once, in queue order *)
VertsKept(b, locals) == LET RECURSIVE Cat(_) Cat(i) == IF i > NTasks THEN <<>> ELSE locals[i].verts \o Cat(i + 1)
                        IN Len(b.tree.verts) >= Len(Cat(1)) /\ SubSeq(b.tree.verts, 1, Len(Cat(1))) = Cat(1)

Init == c = <<"pick", <<>> >>
Next == \/ c[1] = "pick" /\ Len(c[2]) < NTasks /\ \E o \in Family(Len(c[2]) + 1) : c' = <<"pick", Append(c[2], o)>>
        \/ c[1] = "pick" /\ Len(c[2]) = NTasks /\ \E coll \in SUBSET (0..(S0.ngroups - 1)) : c' = <<"case", c[2], coll>>
Spec == Init /\ [][Next]_vars
Correct == c[1] = "case" => LET b == Build(c[2], c[3]) IN
             /\ InBounds(b.tree) /\ NoInvalid(b.tree) /\ VertsKept(b, c[2]) /\ Isomorphic(b, c[2])
==============================================================================
