SPECIFICATION Spec
CONSTANTS MaxOps = 7
INVARIANT KthChoiceWritesEntryK
INVARIANT TraceIffDecided
CHECK_DEADLOCK FALSE
