SPECIFICATION Spec
CONSTANTS MaxCalls = 2
INVARIANT Meaning
INVARIANT NoDup
INVARIANT NoImmImm
CHECK_DEADLOCK FALSE
