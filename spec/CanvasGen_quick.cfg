SPECIFICATION Spec
CONSTANTS MaxEvents = 3  ZoomRefreshesHandle = TRUE  FlagAsWritten = FALSE
INVARIANT EmitHist
CHECK_DEADLOCK FALSE
