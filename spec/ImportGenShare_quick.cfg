SPECIFICATION Spec
CONSTANTS Reduced = TRUE MaxSteps = 5
INVARIANT EmitHist
CHECK_DEADLOCK FALSE
