------------------------------- MODULE VarBind -------------------------------
(***************************************************************************)
(* How variables reach a tape (C14).                                       *)
(*  1. Flattening (SsaTape::new) numbers variables in the order in which   *)
(*     their Input nodes are first popped from the traversal stack         *)
(*     (VarMap::insert gives the next free index; a second encounter keeps *)
(*     the first index).  The model lets the traversal meet the variables  *)
(*     in every possible order, with repetitions.                          *)
(*  2. Shape evaluation (ShapeTracingEval / ShapeBulkEval ::eval_raw)      *)
(*     fills the evaluator's argument vector by identity: X, Y, Z from the *)
(*     (transformed) position, every other variable from the value         *)
(*     supplied under its own identity; extra supplied variables are       *)
(*     ignored, a missing one is an error before evaluation.               *)
(*  3. Simplification keeps the map (children share the parent's VarMap).  *)
(* Invariant SlotIdentity: slot i of the argument vector holds the value   *)
(* of the variable whose index is i; Errors: an error is reported iff a    *)
(* used non-axis variable is missing.                                      *)
(* The model emits every (encounter order, supplied set) as a GEN line;    *)
(* the harness realises each as a weighted sum with distinct weights, so   *)
(* that any slot mix-up changes the integer value Trace_C14 recomputes.    *)
(***************************************************************************)
EXTENDS Integers, Sequences, FiniteSets, TLC, Json

CONSTANTS NFree, MaxEncounters
Axes == {"X", "Y", "Z"}
Free == {"v" \o ToString(i) : i \in 1..NFree}
Vars == Axes \cup Free
Extra == "extra"

VARIABLES order,     \* encounter sequence (with repetitions)
          index,     \* VarMap: var -> index (partial function)
          supplied,  \* set of supplied non-axis variables (may contain Extra, may miss used ones)
          scratch,   \* argument vector after binding: index -> var whose value it holds
          err, phase
vars == <<order, index, supplied, scratch, err, phase>>

Init == /\ order = <<>> /\ index = [v \in {} |-> 0] /\ supplied = {} /\ scratch = <<>>
        /\ err = FALSE /\ phase = "flatten"

Encounter(v) ==
  /\ phase = "flatten" /\ Len(order) < MaxEncounters
  /\ order' = Append(order, v)
  /\ index' = IF v \in DOMAIN index THEN index
              ELSE [x \in DOMAIN index \cup {v} |-> IF x = v THEN Cardinality(DOMAIN index) ELSE index[x]]
  /\ UNCHANGED <<supplied, scratch, err, phase>>

Supply(S) ==
  /\ phase = "flatten" /\ Len(order) > 0
  /\ supplied' = S /\ phase' = "bind"
  /\ UNCHANGED <<order, index, scratch, err>>

Bind ==
  /\ phase = "bind"
  /\ LET used == DOMAIN index
         missing == (used \ Axes) \ supplied
     IN /\ err' = (missing # {})
        /\ scratch' = IF missing # {} THEN <<>>
                      ELSE [i \in 1..Cardinality(used) |-> CHOOSE v \in used : index[v] = i - 1]
  /\ phase' = "done"
  /\ UNCHANGED <<order, index, supplied>>

Next == (\E v \in Vars : Encounter(v)) \/ (\E S \in SUBSET (Free \cup {Extra}) : Supply(S)) \/ Bind
Spec == Init /\ [][Next]_vars

Dense == \A v \in DOMAIN index : index[v] \in 0..(Cardinality(DOMAIN index) - 1)
Injective == \A a, b \in DOMAIN index : a # b => index[a] # index[b]
FirstEncounter == \A v \in DOMAIN index :
   index[v] = Cardinality({order[k] : k \in 1..(CHOOSE j \in 1..Len(order) : order[j] = v /\ \A i \in 1..(j - 1) : order[i] # v)}) - 1
SlotIdentity == (phase = "done" /\ ~err) => \A i \in 1..Len(scratch) : index[scratch[i]] = i - 1
Errors == phase = "done" => (err <=> \E v \in DOMAIN index : v \notin Axes /\ v \notin supplied)
EmitCase == phase = "done" => PrintT(<<"GEN", ToJson([order |-> order, supplied |-> supplied, err |-> err])>>)
==============================================================================
