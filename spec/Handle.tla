------------------------------- MODULE Handle -------------------------------
(***************************************************************************)
(* RenderHandle (fidget-core/src/render/mod.rs): the chain of cached       *)
(* simplifications that the tile recursion of the renderers walks (C10,    *)
(* with C04 and C06/C07 relying on it).                                    *)
(*                                                                         *)
(* A handle owns a shape and at most one cached child (next), keyed by the *)
(* trace that produced it.  simplify(trace) at some level                  *)
(*   - hit:  the cached child has this trace: return it;                   *)
(*   - miss: the cached subtree (deepest first) and its tapes are recycled *)
(*           into the storage pools, a storage object is popped from the   *)
(*           pool (or made fresh) and the shape is simplified into it;     *)
(*           if the result is not shorter it goes straight back to the     *)
(*           pool and the handle itself is returned, otherwise it becomes  *)
(*           the cached child.                                             *)
(* A walk is what one tile does: from the root, simplify by the trace of   *)
(* each enclosing region in turn, then evaluate the handle it ends on.     *)
(* Objects are identities with contents, so that reuse of a recycled       *)
(* object by a later simplification is visible.                            *)
(* Invariants:                                                             *)
(*   Coherent  the content of the k-th cached object is the shape          *)
(*             simplified by exactly the traces on the chain above it      *)
(*   NoAlias   chain objects are pairwise distinct and none is in the pool *)
(*   Denotes   the handle a walk ends on denotes the root restricted by    *)
(*             the walk's regions that produced a gain, in order           *)
(* The model emits every history of walks of the bound for replay on the   *)
(* real RenderHandle with shared storage vectors.                          *)
(***************************************************************************)
EXTENDS Integers, Sequences, FiniteSets, TLC, Json

CONSTANTS Boxes,      \* region ids; a region stands for the trace obtained on it
          NoGain,     \* regions whose simplification is never shorter
          MaxDepth, MaxWalks
VARIABLES chain,      \* cached children: chain[k] = [box, obj] is the child of level k-1
          content,    \* obj -> sequence of boxes (what the object currently holds)
          pool,       \* recycled storage objects
          fresh,      \* next unused object id
          hist,       \* walks so far
          last        \* [path, level, denotes] of the last walk
vars == <<chain, content, pool, fresh, hist, last>>

Paths == UNION {[1..k -> Boxes] : k \in 1..MaxDepth}
ShapeAt(ch, k) == [i \in 1..k |-> ch[i].box]

(* one simplify call at `level` of state s = [chain, content, pool, fresh]; returns the new state and level *)
Simplify(s, level, b) ==
  IF Len(s.chain) >= level + 1 /\ s.chain[level + 1].box = b THEN [s EXCEPT !.level = level + 1]      \* hit
  ELSE LET evicted == {s.chain[k].obj : k \in (level + 1)..Len(s.chain)}
           pool1 == s.pool \cup evicted
           kept == SubSeq(s.chain, 1, level)
           reuse == pool1 # {}
           id == IF reuse THEN CHOOSE o \in pool1 : \A q \in pool1 : o <= q ELSE s.fresh
           pool2 == pool1 \ {id}
           written == [s.content EXCEPT ![id] = Append(ShapeAt(kept, level), b)]
       IN IF b \in NoGain
          THEN [chain |-> kept, content |-> written, pool |-> pool2 \cup {id},
                fresh |-> IF reuse THEN s.fresh ELSE s.fresh + 1, level |-> level]
          ELSE [chain |-> Append(kept, [box |-> b, obj |-> id]), content |-> written, pool |-> pool2,
                fresh |-> IF reuse THEN s.fresh ELSE s.fresh + 1, level |-> level + 1]
RECURSIVE WalkFrom(_, _, _)
WalkFrom(s, path, i) == IF i > Len(path) THEN s ELSE WalkFrom(Simplify(s, s.level, path[i]), path, i + 1)

Objs == 0..(MaxDepth * MaxWalks + 2)
Init == /\ chain = <<>> /\ content = [o \in Objs |-> <<>>] /\ pool = {} /\ fresh = 1
        /\ hist = <<>> /\ last = [path |-> <<>>, level |-> 0, denotes |-> <<>>]
Walk(p) ==
  /\ Len(hist) < MaxWalks
  /\ LET s == WalkFrom([chain |-> chain, content |-> content, pool |-> pool, fresh |-> fresh, level |-> 0], p, 1) IN
       /\ chain' = s.chain /\ content' = s.content /\ pool' = s.pool /\ fresh' = s.fresh
       /\ last' = [path |-> p, level |-> s.level, denotes |-> IF s.level = 0 THEN <<>> ELSE s.content[s.chain[s.level].obj]]
  /\ hist' = Append(hist, p)
Next == \E p \in Paths : Walk(p)
Spec == Init /\ [][Next]_vars

Coherent == \A k \in 1..Len(chain) : content[chain[k].obj] = ShapeAt(chain, k)
NoAlias == /\ \A i, j \in 1..Len(chain) : i # j => chain[i].obj # chain[j].obj
           /\ \A k \in 1..Len(chain) : chain[k].obj \notin pool /\ chain[k].obj # 0
Gains(p) == SelectSeq(p, LAMBDA b : b \notin NoGain)
Denotes == last.denotes = Gains(last.path)
Emit == Len(hist) = MaxWalks => PrintT(<<"GEN", ToJson([walks |-> hist])>>)
=============================================================================
