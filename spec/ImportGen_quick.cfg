SPECIFICATION Spec
CONSTANTS Reduced = FALSE MaxSteps = 2
INVARIANT EmitHist
CHECK_DEADLOCK FALSE
