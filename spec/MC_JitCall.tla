---- MODULE MC_JitCall ----
EXTENDS JitCall
\* float_slice.rs: vmovups [rsp + 0x20 k], ymm(k + 4); arguments at rsp + 0x180 and rsp + 0x1a0
Cell0 == [r \in 0..11 |-> r]
\* a copy-and-paste slip in the reload list: ymm9 reloaded from the cell of ymm8
Slip == [r \in 0..11 |-> IF r = 5 THEN 4 ELSE r]
AllPtrs == {"rdi", "rsi", "rdx", "rcx", "r15"}
NoR15 == {"rdi", "rsi", "rdx", "rcx"}
====
