SPECIFICATION Spec
CONSTANTS M = 1  MaxDepth = 4  Guarded = TRUE  GuardedProducts = TRUE  GuardedInf = TRUE
INVARIANT NoPanic
INVARIANT Enclosure
CHECK_DEADLOCK FALSE
