SPECIFICATION Spec
CONSTANTS M = 1  MaxDepth = 12  Guarded = TRUE  GuardedProducts = TRUE  GuardedInf = TRUE
INVARIANT NoPanic
INVARIANT Enclosure
CHECK_DEADLOCK FALSE
