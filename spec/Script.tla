------------------------------- MODULE Script -------------------------------
(***************************************************************************)
(* What a script denotes (C17).                                            *)
(*                                                                         *)
(* A script is an abstract syntax tree (variables, literals, arrays, maps, *)
(* operators, function / method calls).  Eval gives the value the          *)
(* scripting engine must produce for it:                                   *)
(*   - operators and math functions build the namesake tree node with the  *)
(*     operands in source order; a number or an array next to a tree is    *)
(*     coerced (number -> constant, array of trees -> union);              *)
(*   - comparisons that involve a tree are errors;                         *)
(*   - `let` bindings shadow the built-in axes x, y, z; `remap` substitutes *)
(*     the axes lazily (a remap node);                                     *)
(*   - shape constructors are matched against the shape's fields, which    *)
(*     are NOT written down here: the table (field names, types, default   *)
(*     values) is exported from the real crate by reflection at check time *)
(*     and read as JSON (IOEnv.META).  The module states the matching      *)
(*     algorithm: map form with defaults and unknown-key rejection,        *)
(*     (tree, map) transform form, two-tree form, 1..8 tree reduction,     *)
(*     positional arguments of pairwise distinct types in any order with   *)
(*     defaults, vec2 -> vec3 promotion with the default z, axis -> plane, *)
(*     ordered positional arguments, and which overload a call reaches.    *)
(*                                                                         *)
(* All records are uniform (same fields for every kind) so that TLC can    *)
(* compare any two of them.                                                *)
(***************************************************************************)
EXTENDS Integers, Sequences, FiniteSets, TLC, Json, IOUtils

Meta == ndJsonDeserialize(IOEnv.META)

---------------------------------------------------------------------------
(* dyadic rationals                                                        *)
Q(n, d) == [n |-> n, d |-> d]
RECURSIVE Norm(_)
Norm(q) == IF q.d > 1 /\ q.n % 2 = 0 THEN Norm(Q(q.n \div 2, q.d \div 2)) ELSE q
QAdd(a, b) == Norm(Q(a.n * b.d + b.n * a.d, a.d * b.d))
QSub(a, b) == Norm(Q(a.n * b.d - b.n * a.d, a.d * b.d))
QMul(a, b) == Norm(Q(a.n * b.n, a.d * b.d))
QNeg(a) == Q(0 - a.n, a.d)
NoQ == Q(0, 0)

---------------------------------------------------------------------------
(* tree terms and shape field values                                       *)
Term(o, f, q, a, fl) == [o |-> o, f |-> f, n |-> q.n, d |-> q.d, m |-> <<>>, a |-> a, fl |-> fl]
VarT(s) == Term("var", s, NoQ, <<>>, <<>>)
ConstT(q) == Term("const", "", q, <<>>, <<>>)
UnT(f, a) == Term("un", f, NoQ, <<a>>, <<>>)
BinT(f, a, b) == Term("bin", f, NoQ, <<a, b>>, <<>>)
ShapeT(name, fl) == Term("shape", name, NoQ, <<>>, fl)
FV(name, k, c, t, s) == [name |-> name, k |-> k, c |-> c, t |-> t, s |-> s]
NoFV == FV("", "none", <<>>, <<>>, "")
Named(fv, name) == [fv EXCEPT !.name = name]

RECURSIVE ShapeFree(_)
ShapeFree(t) == t.o # "shape" /\ \A i \in 1..Len(t.a) : ShapeFree(t.a[i])

---------------------------------------------------------------------------
(* script values                                                           *)
Val(k, q, t, e, s, c, kv) == [k |-> k, n |-> q.n, d |-> q.d, t |-> t, e |-> e, s |-> s, c |-> c, kv |-> kv]
Err == Val("err", NoQ, <<>>, <<>>, "", <<>>, <<>>)
NoModel == Val("nomodel", NoQ, <<>>, <<>>, "", <<>>, <<>>)
IntV(q) == Val("int", q, <<>>, <<>>, "", <<>>, <<>>)
FltV(q) == Val("flt", q, <<>>, <<>>, "", <<>>, <<>>)
TreeV(t) == Val("tree", NoQ, <<t>>, <<>>, "", <<>>, <<>>)
ArrV(e) == Val("arr", NoQ, <<>>, e, "", <<>>, <<>>)
StrV(s) == Val("str", NoQ, <<>>, <<>>, s, <<>>, <<>>)
ChrV(s) == Val("chr", NoQ, <<>>, <<>>, s, <<>>, <<>>)
MapV(kv) == Val("map", NoQ, <<>>, <<>>, "", <<>>, kv)
Vec2V(c) == Val("vec2", NoQ, <<>>, <<>>, "", c, <<>>)
Vec3V(c) == Val("vec3", NoQ, <<>>, <<>>, "", c, <<>>)
AxisV(s) == Val("axis", NoQ, <<>>, <<>>, s, <<>>, <<>>)
PlaneV(s, off) == Val("plane", NoQ, <<>>, <<>>, s, <<off>>, <<>>)

IsNum(v) == v.k \in {"int", "flt"}
NumQ(v) == Q(v.n, v.d)
AllNums(v) == v.k = "arr" /\ \A i \in 1..Len(v.e) : IsNum(v.e[i])

(* numbers become constants, arrays of tree-convertible things a union *)
RECURSIVE CanTree(_)
CanTree(v) == \/ v.k \in {"tree", "int", "flt"}
              \/ v.k = "arr" /\ \A i \in 1..Len(v.e) : CanTree(v.e[i])
RECURSIVE ToTree(_)
ToTree(v) == IF v.k = "tree" THEN v.t[1]
             ELSE IF IsNum(v) THEN ConstT(NumQ(v))
             ELSE ShapeT("Union", <<FV("input", "vt", <<>>, [i \in 1..Len(v.e) |-> ToTree(v.e[i])], "")>>)

---------------------------------------------------------------------------
(* coercions into the shape field types                                    *)
Co(ok, c, s) == [ok |-> ok, c |-> c, s |-> s]
CoBad == Co(FALSE, <<>>, "")
CoVec2(v) == IF v.k = "vec2" THEN Co(TRUE, v.c, "")
             ELSE IF AllNums(v) /\ Len(v.e) = 2 THEN Co(TRUE, <<NumQ(v.e[1]), NumQ(v.e[2])>>, "")
             ELSE CoBad
(* a vec2 (or a 2-array) is promoted with the given z *)
CoVec3(v, z) == IF CoVec2(v).ok THEN Co(TRUE, CoVec2(v).c \o <<z>>, "")
                ELSE IF v.k = "vec3" THEN Co(TRUE, v.c, "")
                ELSE IF AllNums(v) /\ Len(v.e) = 3 THEN Co(TRUE, <<NumQ(v.e[1]), NumQ(v.e[2]), NumQ(v.e[3])>>, "")
                ELSE CoBad
Lower(s) == CASE s \in {"x", "X"} -> "x" [] s \in {"y", "Y"} -> "y" [] s \in {"z", "Z"} -> "z" [] OTHER -> ""
BasisName(c) == CASE c = <<Q(1, 1), Q(0, 1), Q(0, 1)>> -> "x"
                  [] c = <<Q(0, 1), Q(1, 1), Q(0, 1)>> -> "y"
                  [] c = <<Q(0, 1), Q(0, 1), Q(1, 1)>> -> "z"
                  [] OTHER -> ""     \* general directions are outside the exact model
CoAxis(v) == IF v.k = "axis" THEN Co(TRUE, <<>>, v.s)
             ELSE IF CoVec3(v, Q(0, 1)).ok
                  THEN (IF BasisName(CoVec3(v, Q(0, 1)).c) # "" THEN Co(TRUE, <<>>, BasisName(CoVec3(v, Q(0, 1)).c)) ELSE CoBad)
             ELSE IF v.k \in {"str", "chr"} THEN (IF Lower(v.s) # "" THEN Co(TRUE, <<>>, Lower(v.s)) ELSE CoBad)
             ELSE IF v.k = "tree" /\ v.t[1].o = "var" THEN Co(TRUE, <<>>, v.t[1].f)
             ELSE CoBad
PlaneName(s) == CASE s \in {"xy", "XY"} -> "z" [] s \in {"yz", "YZ"} -> "x" [] s \in {"zx", "ZX"} -> "y" [] OTHER -> ""
CoPlane(v) == IF v.k = "plane" THEN Co(TRUE, v.c, v.s)
              ELSE IF CoAxis(v).ok THEN Co(TRUE, <<Q(0, 1)>>, CoAxis(v).s)
              ELSE IF v.k = "str" /\ PlaneName(v.s) # "" THEN Co(TRUE, <<Q(0, 1)>>, PlaneName(v.s))
              ELSE CoBad

R(ok, v) == [ok |-> ok, v |-> v]
RBad == R(FALSE, NoFV)
DefaultZ(f) == IF f.hasdef /\ f.ty = "Vec3" THEN f.c[3] ELSE Q(0, 1)
(* the value of a field whose type is known (map forms) *)
Tagged(f, v) ==
  CASE f.ty = "Float" -> IF IsNum(v) THEN R(TRUE, FV(f.name, "f", <<NumQ(v)>>, <<>>, "")) ELSE RBad
    [] f.ty = "Vec2" -> IF CoVec2(v).ok THEN R(TRUE, FV(f.name, "v2", CoVec2(v).c, <<>>, "")) ELSE RBad
    [] f.ty = "Vec3" -> IF CoVec3(v, DefaultZ(f)).ok THEN R(TRUE, FV(f.name, "v3", CoVec3(v, DefaultZ(f)).c, <<>>, "")) ELSE RBad
    [] f.ty = "Tree" -> IF CanTree(v) THEN R(TRUE, FV(f.name, "tree", <<>>, <<ToTree(v)>>, "")) ELSE RBad
    [] f.ty = "VecTree" -> IF v.k = "arr" /\ CanTree(v)
                           THEN R(TRUE, FV(f.name, "vt", <<>>, [i \in 1..Len(v.e) |-> ToTree(v.e[i])], "")) ELSE RBad
    [] f.ty = "Axis" -> IF CoAxis(v).ok THEN R(TRUE, FV(f.name, "axis", <<>>, <<>>, CoAxis(v).s)) ELSE RBad
    [] f.ty = "Plane" -> IF CoPlane(v).ok THEN R(TRUE, FV(f.name, "plane", CoPlane(v).c, <<>>, CoPlane(v).s)) ELSE RBad
    [] OTHER -> RBad
DefaultFV(f) ==
  CASE f.ty = "Float" -> FV(f.name, "f", f.c, <<>>, "")
    [] f.ty = "Vec2" -> FV(f.name, "v2", f.c, <<>>, "")
    [] f.ty = "Vec3" -> FV(f.name, "v3", f.c, <<>>, "")
    [] f.ty = "Axis" -> FV(f.name, "axis", <<>>, <<>>, f.s)
    [] f.ty = "Plane" -> FV(f.name, "plane", f.c, <<>>, f.s)
    [] OTHER -> NoFV

(* the type an argument is taken for when only its value is known (positional forms) *)
Cl(ok, ty, v) == [ok |-> ok, ty |-> ty, v |-> v]
Classify(v) ==
  IF IsNum(v) THEN Cl(TRUE, "Float", FV("", "f", <<NumQ(v)>>, <<>>, ""))
  ELSE IF CoVec2(v).ok THEN Cl(TRUE, "Vec2", FV("", "v2", CoVec2(v).c, <<>>, ""))
  ELSE IF CoVec3(v, Q(0, 1)).ok THEN Cl(TRUE, "Vec3", FV("", "v3", CoVec3(v, Q(0, 1)).c, <<>>, ""))
  ELSE IF AllNums(v) /\ Len(v.e) = 4 THEN Cl(TRUE, "Vec4", NoFV)
  ELSE IF v.k = "arr" /\ CanTree(v) THEN Cl(TRUE, "VecTree", FV("", "vt", <<>>, [i \in 1..Len(v.e) |-> ToTree(v.e[i])], ""))
  ELSE IF v.k = "tree" THEN Cl(TRUE, "Tree", FV("", "tree", <<>>, <<v.t[1]>>, ""))
  ELSE IF CoAxis(v).ok THEN Cl(TRUE, "Axis", FV("", "axis", <<>>, <<>>, CoAxis(v).s))
  ELSE IF CoPlane(v).ok THEN Cl(TRUE, "Plane", FV("", "plane", CoPlane(v).c, <<>>, CoPlane(v).s))
  ELSE Cl(FALSE, "", NoFV)

---------------------------------------------------------------------------
(* shape constructors                                                      *)
NF(S) == Len(S.fields)
TreeCount(S) == Cardinality({i \in 1..NF(S) : S.fields[i].ty = "Tree"})
HasTy(S, ty) == \E i \in 1..NF(S) : S.fields[i].ty = ty
IsTransform(S) == TreeCount(S) = 1 /\ S.fields[1].ty = "Tree" /\ ~HasTy(S, "VecTree")
IsBinary(S) == TreeCount(S) = 2 /\ NF(S) = 2
IsReduce(S) == NF(S) = 1 /\ S.fields[1].ty = "VecTree"
AllUnique(S) == \A i, j \in 1..NF(S) : i # j => S.fields[i].ty # S.fields[j].ty
MinCount(S) == Cardinality({i \in 1..NF(S) : ~S.fields[i].hasdef})

Built(S, r) == IF \A i \in 1..NF(S) : r[i].ok THEN TreeV(ShapeT(S.name, [i \in 1..NF(S) |-> r[i].v])) ELSE Err
KnownKeys(S, m) == \A j \in 1..Len(m.kv) : \E i \in 1..NF(S) : S.fields[i].name = m.kv[j].k
InMap(m, key) == \E j \in 1..Len(m.kv) : m.kv[j].k = key
AtKey(m, key) == m.kv[CHOOSE j \in 1..Len(m.kv) : m.kv[j].k = key].v
FieldFromMap(f, m) == IF InMap(m, f.name) THEN Tagged(f, AtKey(m, f.name))
                      ELSE IF f.hasdef THEN R(TRUE, DefaultFV(f))      \* documented: defaulted fields may be omitted
                      ELSE RBad
FromMap(S, m) == IF KnownKeys(S, m) THEN Built(S, [i \in 1..NF(S) |-> FieldFromMap(S.fields[i], m)]) ELSE Err
(* tree first, the remaining fields from the map *)
Transform(S, t, m) ==
  IF CanTree(t) /\ KnownKeys(S, m) /\ ~InMap(m, S.fields[1].name)
  THEN Built(S, [i \in 1..NF(S) |-> IF i = 1 THEN R(TRUE, FV(S.fields[1].name, "tree", <<>>, <<ToTree(t)>>, ""))
                                     ELSE FieldFromMap(S.fields[i], m)])
  ELSE Err
Binary(S, a, b) == IF CanTree(a) /\ CanTree(b)
                   THEN TreeV(ShapeT(S.name, <<FV(S.fields[1].name, "tree", <<>>, <<ToTree(a)>>, ""),
                                               FV(S.fields[2].name, "tree", <<>>, <<ToTree(b)>>, "")>>))
                   ELSE Err
Reduce(S, args) == IF \A i \in 1..Len(args) : CanTree(args[i])
                   THEN TreeV(ShapeT(S.name, <<FV(S.fields[1].name, "vt", <<>>, [i \in 1..Len(args) |-> ToTree(args[i])], "")>>))
                   ELSE Err
(* arguments of pairwise distinct types, in any order; a later argument of the same type replaces an earlier one *)
Unique(S, args) ==
  LET cls == [i \in 1..Len(args) |-> Classify(args[i])]
      Idx(ty) == {i \in 1..Len(args) : cls[i].ty = ty}
      Given(ty) == Idx(ty) # {}
      Last(ty) == cls[CHOOSE i \in Idx(ty) : \A j \in Idx(ty) : j <= i].v
      Promote(f) == f.ty = "Vec3" /\ ~Given("Vec3") /\ Given("Vec2") /\ ~HasTy(S, "Vec2") /\ f.hasdef
      Upgrade(f) == f.ty = "Plane" /\ ~Given("Plane") /\ Given("Axis") /\ ~HasTy(S, "Axis")
      Field(f) == IF Given(f.ty) THEN R(TRUE, Named(Last(f.ty), f.name))
                  ELSE IF Promote(f) THEN R(TRUE, FV(f.name, "v3", Last("Vec2").c \o <<f.c[3]>>, <<>>, ""))
                  ELSE IF Upgrade(f) THEN R(TRUE, FV(f.name, "plane", <<Q(0, 1)>>, <<>>, Last("Axis").s))
                  ELSE IF f.hasdef THEN R(TRUE, DefaultFV(f))
                  ELSE RBad
      Used(ty) == \/ HasTy(S, ty)
                  \/ ty = "Vec2" /\ \E i \in 1..NF(S) : Promote(S.fields[i])
                  \/ ty = "Axis" /\ \E i \in 1..NF(S) : Upgrade(S.fields[i])
  IN IF \E i \in 1..Len(args) : ~cls[i].ok THEN Err
     ELSE IF \E i \in 1..Len(args) : ~Used(cls[i].ty) THEN Err
     ELSE Built(S, [i \in 1..NF(S) |-> Field(S.fields[i])])
Ordered(S, args) ==
  LET cls == [i \in 1..Len(args) |-> Classify(args[i])]
  IN IF \A i \in 1..NF(S) : cls[i].ok /\ cls[i].ty = S.fields[i].ty
     THEN TreeV(ShapeT(S.name, [i \in 1..NF(S) |-> Named(cls[i].v, S.fields[i].name)])) ELSE Err

(* which overload a call reaches: an exact Map parameter beats the untyped overloads, and of two untyped *)
(* overloads of the same arity the one registered last (unique, then ordered) is the one that exists     *)
CallShape(S, args) ==
  LET n == Len(args) IN
  IF n = 1 /\ args[1].k = "map" THEN FromMap(S, args[1])
  ELSE IF n = 2 /\ args[2].k = "map" /\ IsTransform(S) THEN Transform(S, args[1], args[2])
  ELSE IF AllUnique(S) /\ n >= MinCount(S) /\ n <= NF(S) THEN Unique(S, args)
  ELSE IF ~IsBinary(S) /\ ~IsReduce(S) /\ ~AllUnique(S) /\ n = NF(S) THEN Ordered(S, args)
  ELSE IF IsReduce(S) /\ n \in 1..8 THEN Reduce(S, args)
  ELSE IF IsBinary(S) /\ n = 2 THEN Binary(S, args[1], args[2])
  ELSE Err

---------------------------------------------------------------------------
(* operators and math functions                                            *)
UnaryFns == {"abs", "sqrt", "square", "sin", "cos", "tan", "asin", "acos", "atan", "exp", "ln", "not", "rand",
             "ceil", "floor", "round"}
BinaryFns == {"min", "max", "compare", "mix", "and", "or", "atan2"}
InfixOps == {"+", "-", "*", "/", "%"}
CmpOps == {"==", "!=", "<", ">", "<=", ">="}
OpName(s) == CASE s = "+" -> "add" [] s = "-" -> "sub" [] s = "*" -> "mul" [] s = "/" -> "div" [] s = "%" -> "mod"
               [] s = "atan2" -> "atan" [] OTHER -> s

Un(f, v) == IF v.k \in {"tree", "arr"} /\ CanTree(v) THEN TreeV(UnT(f, ToTree(v))) ELSE NoModel
Neg(v) == IF v.k = "int" THEN IntV(QNeg(NumQ(v))) ELSE IF v.k = "flt" THEN FltV(QNeg(NumQ(v))) ELSE Un("neg", v)
(* at least one operand must already be a tree; the other one is coerced; source order is kept *)
Bin(s, a, b) ==
  IF a.k = "tree" THEN (IF CanTree(b) THEN TreeV(BinT(OpName(s), a.t[1], ToTree(b))) ELSE Err)
  ELSE IF b.k = "tree" THEN (IF CanTree(a) THEN TreeV(BinT(OpName(s), ToTree(a), b.t[1])) ELSE Err)
  ELSE IF IsNum(a) /\ IsNum(b) /\ s \in {"+", "-", "*"}
       THEN LET q == CASE s = "+" -> QAdd(NumQ(a), NumQ(b)) [] s = "-" -> QSub(NumQ(a), NumQ(b)) [] OTHER -> QMul(NumQ(a), NumQ(b))
            IN IF a.k = "int" /\ b.k = "int" THEN IntV(q) ELSE FltV(q)
  ELSE NoModel
Cmp(a, b) == IF a.k = "tree" \/ b.k = "tree" THEN Err ELSE NoModel

ShapeIdx(f) == {i \in 1..Len(Meta) : Meta[i].fname = f}
Call(f, args) ==
  LET n == Len(args) IN
  IF f = "plane" /\ n = 1 /\ args[1].k # "map" THEN (IF CoPlane(args[1]).ok THEN PlaneV(CoPlane(args[1]).s, CoPlane(args[1]).c[1]) ELSE Err)
  ELSE IF f = "plane" /\ n = 2 /\ args[2].k = "flt" THEN (IF CoPlane(args[1]).ok THEN PlaneV(CoPlane(args[1]).s, NumQ(args[2])) ELSE Err)
  ELSE IF ShapeIdx(f) # {} THEN CallShape(Meta[CHOOSE i \in ShapeIdx(f) : TRUE], args)
  ELSE IF f \in UnaryFns /\ n = 1 THEN Un(f, args[1])
  ELSE IF f \in BinaryFns /\ n = 2 THEN (IF args[1].k = "tree" \/ args[2].k = "tree" THEN Bin(f, args[1], args[2]) ELSE NoModel)
  ELSE IF f = "vec2" /\ n = 2 THEN (IF IsNum(args[1]) /\ IsNum(args[2]) THEN Vec2V(<<NumQ(args[1]), NumQ(args[2])>>) ELSE Err)
  ELSE IF f = "vec3" /\ n = 3 THEN (IF \A i \in 1..3 : IsNum(args[i]) THEN Vec3V(<<NumQ(args[1]), NumQ(args[2]), NumQ(args[3])>>) ELSE Err)
  ELSE IF f = "axis" /\ n = 1 THEN (IF CoAxis(args[1]).ok THEN AxisV(CoAxis(args[1]).s) ELSE Err)
  ELSE NoModel

(* `remap(shape, x, y, z)` / `remap(shape, x, y)`: the shape is coerced like any tree operand, the new axes must be trees *)
RemapT(t, x, y, z) == Term("remap", "", NoQ, <<t, x, y, z>>, <<>>)
Remap(args) ==
  IF CanTree(args[1]) /\ \A i \in 2..Len(args) : args[i].k = "tree"
  THEN TreeV(RemapT(ToTree(args[1]), args[2].t[1], args[3].t[1], IF Len(args) = 4 THEN args[4].t[1] ELSE VarT("z")))
  ELSE Err

(* env: the script's own `let` bindings, innermost last; x, y, z fall back to the axes only when not bound *)
Bound(env, name) == \E i \in 1..Len(env) : env[i].k = name
Lookup(env, name) == env[CHOOSE i \in 1..Len(env) : env[i].k = name /\ \A j \in (i + 1)..Len(env) : env[j].k # name].v
RECURSIVE Ev(_, _)
Ev(a, env) ==
  LET es == [i \in 1..Len(a.e) |-> Ev(a.e[i], env)]
      kv == [i \in 1..Len(a.kv) |-> [k |-> a.kv[i].k, v |-> Ev(a.kv[i].v, env)]]
      bad == (\E i \in 1..Len(a.e) : es[i].k = "err") \/ (\E i \in 1..Len(a.kv) : kv[i].v.k = "err")
      nomodel == (\E i \in 1..Len(a.e) : es[i].k = "nomodel") \/ (\E i \in 1..Len(a.kv) : kv[i].v.k = "nomodel")
  IN IF a.a = "var" THEN (IF Bound(env, a.s) THEN Lookup(env, a.s)
                          ELSE IF a.s \in {"x", "y", "z"} THEN TreeV(VarT(a.s)) ELSE Err)
     ELSE IF a.a = "let" THEN LET v == Ev(a.e[1], env) IN            \* let NAME = e1; e2
                              IF v.k \in {"err", "nomodel"} THEN v ELSE Ev(a.e[2], Append(env, [k |-> a.s, v |-> v]))
     ELSE IF a.a = "int" THEN IntV(Q(a.n, 1))
     ELSE IF a.a = "flt" THEN FltV(Norm(Q(a.n, a.d)))
     ELSE IF a.a = "str" THEN StrV(a.s)
     ELSE IF a.a = "chr" THEN ChrV(a.s)
     ELSE IF bad THEN Err                      \* an error anywhere aborts the script
     ELSE IF nomodel THEN NoModel
     ELSE CASE a.a = "arr" -> ArrV(es)
            [] a.a = "map" -> MapV(kv)
            [] a.a = "neg" -> Neg(es[1])
            [] a.a = "infix" -> Bin(a.s, es[1], es[2])
            [] a.a = "cmp" -> Cmp(es[1], es[2])
            [] a.a \in {"call", "meth"} /\ a.s = "remap" /\ Len(es) \in {3, 4} -> Remap(es)
            [] a.a \in {"call", "meth"} -> Call(a.s, es)
            [] OTHER -> NoModel
Eval(a) == Ev(a, <<>>)

RECURSIVE HasCmp(_)
HasCmp(a) == a.a = "cmp" \/ (\E i \in 1..Len(a.e) : HasCmp(a.e[i])) \/ (\E i \in 1..Len(a.kv) : HasCmp(a.kv[i].v))
(* what the property itself demands: every accepted form, and the rejection of comparisons on trees;  *)
(* the other rejections (wrong types, unknown keys, ...) are how the implementation behaves today     *)
PropertyLevel(a) == Eval(a).k = "tree" \/ (Eval(a).k = "err" /\ HasCmp(a))

---------------------------------------------------------------------------
(* syntax                                                                  *)
A(a, s, n, d, e, kv) == [a |-> a, s |-> s, n |-> n, d |-> d, e |-> e, kv |-> kv]
AVar(s) == A("var", s, 0, 0, <<>>, <<>>)
AInt(n) == A("int", "", n, 1, <<>>, <<>>)
AFlt(n, d) == A("flt", "", n, d, <<>>, <<>>)
AStr(s) == A("str", s, 0, 0, <<>>, <<>>)
AChr(s) == A("chr", s, 0, 0, <<>>, <<>>)
AArr(e) == A("arr", "", 0, 0, e, <<>>)
AMap(kv) == A("map", "", 0, 0, <<>>, kv)
ANeg(e) == A("neg", "", 0, 0, <<e>>, <<>>)
AInfix(op, l, r) == A("infix", op, 0, 0, <<l, r>>, <<>>)
ACmp(op, l, r) == A("cmp", op, 0, 0, <<l, r>>, <<>>)
ACall(f, e) == A("call", f, 0, 0, e, <<>>)
AMeth(f, e) == A("meth", f, 0, 0, e, <<>>)     \* e[1] is the receiver
ALet(name, v, body) == A("let", name, 0, 0, <<v, body>>, <<>>)   \* only at the top of a script
=============================================================================
