------------------------------ MODULE Trace_Hooks ------------------------------
(***************************************************************************)
(* Trace validation of the repository's OWN test suite.  The tests of      *)
(* fidget-jit, fidget-mesh, fidget-raster and fidget-solver are built with *)
(* the hook cfg and run with FIDGET_VERIF_TRACE set, so that every hook    *)
(* event of every test is appended to a file (no test knows about the      *)
(* hooks).  The events are grouped without judging them (the native calls  *)
(* of one bulk evaluation: per process and thread, in sequence order, a    *)
(* call at offset 0 opens a group and a call at a later offset for the     *)
(* same n belongs to it; identical groups and identical collapse events    *)
(* are counted once, with their multiplicity) and each distinct record is  *)
(* judged by the same design-model predicates as the harness's own         *)
(* recordings:                                                             *)
(*   bulk     - the native calls of one many-point evaluation stay inside  *)
(*              the caller's slices / the scratch buffers and the output   *)
(*              arrays, and cover every sample (BulkDriver.tla; C02)       *)
(*   collapse - the eight children the octree builder merged into one leaf *)
(*              satisfy the topology-safety predicates and give the mask   *)
(*              the builder used (Mdc.tla; C08)                            *)
(***************************************************************************)
EXTENDS Mdc, Json, IOUtils

Rec == ndJsonDeserialize(IOEnv.TRACE)
VARIABLE l
vars == <<l>>

BD == INSTANCE BulkDriver WITH W <- 8, MaxN <- 0, n <- 0, calls <- <<>>, done <- FALSE
Call(c) == <<IF c.scratch = 1 THEN "scratch" ELSE "caller", c.offset, c.count>>
Calls(r) == [k \in 1..Len(r.calls) |-> Call(r.calls[k])]
BulkFails(r) ==
  IF /\ \A k \in 1..Len(r.calls) : r.calls[k].n = r.n /\ r.calls[k].w = r.w
     /\ r.w \in {1, 4, 8}
     /\ BD!CallsInBounds(Calls(r), r.n, r.w, r.out_len)
     /\ r.out_len >= r.n
     /\ BD!CallsCover(Calls(r), r.n)
  THEN {} ELSE {"driver"}
CollapseFails(r) == IF CollapsibleMasks(r.c) = r.mask THEN {} ELSE {"unsafe-collapse"}
Fails(r) == CASE r.ev = "bulk" -> BulkFails(r) [] r.ev = "collapse" -> CollapseFails(r) [] OTHER -> {"unknown-event"}

Init == l = 1
Next == /\ l <= Len(Rec)
        /\ l' = l + 1
        /\ LET f == Fails(Rec[l]) IN f = {} \/ PrintT(<<"REJECT", Rec[l].id, f>>)
Spec == Init /\ [][Next]_vars
Consumed == TLCGet("stats").diameter - 1 = Len(Rec) \/ PrintT(<<"UNCONSUMED", TLCGet("stats").diameter, Len(Rec)>>)
================================================================================
