SPECIFICATION Spec
CONSTANTS N = 2  MaxLive = 4  MaxOps = 6
INVARIANT Loud
VIEW View
CHECK_DEADLOCK FALSE
