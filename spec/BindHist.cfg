SPECIFICATION Spec
CONSTANT NVars = 3
CONSTANT MaxSteps = 3
INVARIANT ChildKeepsParentMap
INVARIANT InnerArgumentsAgree
CHECK_DEADLOCK FALSE
