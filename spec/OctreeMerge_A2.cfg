SPECIFICATION Spec
CONSTANTS A = 2
          Target = 4
INVARIANT Correct
CHECK_DEADLOCK FALSE
