--------------------------------- MODULE Lru ---------------------------------
(***************************************************************************)
(* fidget-core/src/compiler/lru.rs: the register LRU is a doubly linked    *)
(* ring in a static array (prev/next/head).  Alloc.tla models it as a      *)
(* move-to-front list (newest first, the last element is evicted).  This   *)
(* module transcribes remove / insert_before / poke / pop and checks that  *)
(* the ring refines that list for every operation sequence (Refines), and  *)
(* stays a well-formed ring (Ring).                                        *)
(***************************************************************************)
EXTENDS Integers, Sequences, FiniteSets

CONSTANTS N, MaxSteps
VARIABLES prev, next, head, list, steps, popped
vars == <<prev, next, head, list, steps, popped>>
R == 0..N-1

MoveFront(s, r) == <<r>> \o SelectSeq(s, LAMBDA x: x # r)

Init == /\ next = [i \in R |-> (i + 1) % N]
        /\ prev = [i \in R |-> IF i = 0 THEN N - 1 ELSE i - 1]
        /\ head = 0
        /\ list = [i \in 1..N |-> i - 1]
        /\ steps = 0 /\ popped = -1

\* remove(i); insert_before(i, nxt) as in the Rust code (sequential updates)
Remove(p, n, i) == LET p1 == [p EXCEPT ![n[i]] = p[i]]
                       n1 == [n EXCEPT ![p[i]] = n[i]]
                   IN <<p1, n1>>
InsertBefore(p, n, i, nx) == LET pv == p[nx]
                                 n1 == [n EXCEPT ![pv] = i]
                                 p1 == [p EXCEPT ![nx] = i]
                             IN <<[p1 EXCEPT ![i] = pv], [n1 EXCEPT ![i] = nx]>>

Poke(i) == /\ steps < MaxSteps /\ steps' = steps + 1 /\ popped' = -1
           /\ list' = MoveFront(list, i)
           /\ IF head = i THEN UNCHANGED <<prev, next, head>>
              ELSE IF prev[head] # i
                   THEN LET a == Remove(prev, next, i)
                            b == InsertBefore(a[1], a[2], i, head)
                        IN prev' = b[1] /\ next' = b[2] /\ head' = i
                   ELSE UNCHANGED <<prev, next>> /\ head' = i
Pop == /\ steps < MaxSteps /\ steps' = steps + 1
       /\ popped' = prev[head]
       /\ head' = prev[head]
       /\ list' = MoveFront(list, list[Len(list)])
       /\ UNCHANGED <<prev, next>>
Next == Pop \/ \E i \in R : Poke(i)
Spec == Init /\ [][Next]_vars

RECURSIVE Walk(_, _)
Walk(i, k) == IF k = 0 THEN <<>> ELSE <<i>> \o Walk(next[i], k - 1)
Refines == Walk(head, N) = list
PopRefines == popped # -1 => popped = list[1]   \* the popped register became the newest
Ring == /\ \A i \in R : prev[next[i]] = i /\ next[prev[i]] = i
        /\ {Walk(head, N)[k] : k \in 1..N} = R
==============================================================================
