SPECIFICATION Spec
CONSTANTS Reduced = FALSE MaxSteps = 3
INVARIANT Correct
INVARIANT CacheSound
VIEW View
CHECK_DEADLOCK FALSE
