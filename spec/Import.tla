------------------------------- MODULE Import -------------------------------
(***************************************************************************)
(* Context::import (fidget-core/src/context/mod.rs) as the explicit-stack  *)
(* machine it is: `todo` stack of Down / Up / Pop / PopAffine actions,     *)
(* value `stack`, `axes` frames, the pending-affine matrix stack, and the  *)
(* `seen` cache keyed by (frame, subtree).  Trees are produced by builder  *)
(* sequences over two registers (so that a once-remapped tree can have a   *)
(* second owner and shared subtrees can appear under different frames):    *)
(* add a leaf, multiply a tree with itself, remap_affine (with the         *)
(* builder's flattening of consecutive affine remaps), remap_xyz, clone    *)
(* into the second register, combine the registers.                        *)
(* Abs: D(t, frame) - denotational substitution (later remaps are applied  *)
(* to the coordinates first; constants and non-axis variables untouched).  *)
(* Invariants: Correct - the machine's result is D(tree); CacheSound -     *)
(* every cache entry is what recomputation under that frame would give.    *)
(* Constructor rewrites are not modelled here (C12): nodes are raw terms.  *)
(* `hist` records the builder sequence and is printed (GEN) for replay.    *)
(***************************************************************************)
EXTENDS Integers, Sequences, FiniteSets, TLC, Json

CONSTANTS MaxSteps, Reduced   \* Reduced = TRUE: a small alphabet aimed at sharing (clones, repeated matrices), explored deeper

\* integer affine maps as 3 rows of 4
Id == <<<<1,0,0,0>>, <<0,1,0,0>>, <<0,0,1,0>>>>
MatSeq == << <<<<1,0,0,2>>, <<0,1,0,0>>, <<0,0,1,-1>>>>,      \* translate
            <<<<2,0,0,0>>, <<0,1,0,0>>, <<0,0,-1,0>>>>,      \* scale / mirror
            <<<<0,-1,0,1>>, <<1,0,0,0>>, <<0,0,1,0>>>>,      \* rot90 + shift
            <<<<1,1,0,0>>, <<0,1,0,0>>, <<0,0,1,0>>>>,      \* shear
            <<<<1,0,0,0>>, <<0,1,0,0>>, <<0,0,1,0>>>> >>      \* the identity: a remap like any other
Mats == {MatSeq[i] : i \in 1..Len(MatSeq)}
Row4(M, i) == IF i <= 3 THEN M[i] ELSE <<0,0,0,1>>
MatMul(A, B) == [i \in 1..3 |-> [j \in 1..4 |->
                   A[i][1]*Row4(B,1)[j] + A[i][2]*Row4(B,2)[j] + A[i][3]*Row4(B,3)[j] + A[i][4]*Row4(B,4)[j]]]

\* trees
X == <<"x">>  Y == <<"y">>  Zt == <<"z">>
LeafSeq == <<X, Y, Zt, <<"c", 1>>>>
Leafs == {LeafSeq[i] : i \in 1..Len(LeafSeq)}
AxisSeq == <<X, Y, Zt, <<"add", X, <<"c", 1>>>>, <<"mul", Y, <<"c", 2>>>>, <<"add", Zt, X>>>>
AxisExprs == {AxisSeq[i] : i \in 1..Len(AxisSeq)}

RemapAffine(t, M) == IF t[1] = "raff" THEN <<"raff", t[2], MatMul(t[3], M)>> ELSE <<"raff", t, M>>
RemapXyz(t, a, b, c) == <<"rxyz", t, a, b, c>>

VARIABLES tree, other, steps, hist
vars == <<tree, other, steps, hist>>
Init == \E i \in (IF Reduced THEN {1} ELSE 1..Len(LeafSeq)) : tree = LeafSeq[i] /\ other = LeafSeq[i] /\ steps = 0 /\ hist = << <<"leaf", i, 0, 0>> >>
Step(t, o, h) == tree' = t /\ other' = o /\ hist' = Append(hist, h) /\ steps' = steps + 1
LeafIdx == IF Reduced THEN {2} ELSE 1..Len(LeafSeq)
MatIdx == IF Reduced THEN {1, 3} ELSE 1..Len(MatSeq)
XyzForms == IF Reduced THEN {<<1, 2, 3>>, <<4, 2, 3>>}
            ELSE {<<a, b, 3>> : a \in 1..Len(AxisSeq), b \in 1..Len(AxisSeq)} \cup {<<2, 3, a>> : a \in 1..Len(AxisSeq)}
Next == /\ steps < MaxSteps
        /\ \/ \E i \in LeafIdx : Step(<<"add", tree, LeafSeq[i]>>, other, <<"add", i, 0, 0>>)
           \/ Step(<<"mul", tree, tree>>, other, <<"mul", 0, 0, 0>>)                     \* shared subtree
           \/ \E i \in MatIdx : Step(RemapAffine(tree, MatSeq[i]), other, <<"raff", i, 0, 0>>)
           \/ \E f \in XyzForms : Step(RemapXyz(tree, AxisSeq[f[1]], AxisSeq[f[2]], AxisSeq[f[3]]), other, <<"rxyz", f[1], f[2], f[3]>>)
           \/ Step(tree, tree, <<"clone", 0, 0, 0>>)                                     \* second owner
           \/ Step(<<"add", tree, other>>, other, <<"addo", 0, 0, 0>>)
           \/ Step(<<"add", other, tree>>, other, <<"oadd", 0, 0, 0>>)
Spec == Init /\ [][Next]_vars
View == <<tree, other, steps>>
EmitHist == PrintT(<<"GEN", ToJson(hist)>>)

\* ---------------- denotation (substitution) ----------------
AffFrame(M, f) == [i \in 1..3 |->
   <<"add", <<"add", <<"mul", <<"c", M[i][1]>>, f[1]>>, <<"mul", <<"c", M[i][2]>>, f[2]>>>>,
            <<"add", <<"mul", <<"c", M[i][3]>>, f[3]>>, <<"c", M[i][4]>>>>>>]
RECURSIVE D(_, _)
D(t, f) == CASE t[1] = "x" -> f[1] [] t[1] = "y" -> f[2] [] t[1] = "z" -> f[3]
             [] t[1] = "c" -> t
             [] t[1] \in {"add", "mul"} -> <<t[1], D(t[2], f), D(t[3], f)>>
             [] t[1] = "rxyz" -> D(t[2], <<D(t[3], f), D(t[4], f), D(t[5], f)>>)
             [] t[1] = "raff" -> D(t[2], AffFrame(t[3], f))

\* ---------------- the machine ----------------
Last(s) == s[Len(s)]
Front(s) == SubSeq(s, 1, Len(s) - 1)
Shared(t, root) == TRUE   \* strong_count > 1 is over-approximated: always cache

RECURSIVE Run(_, _, _, _, _)
Run(todo, stack, axes, aff, seen) ==
  IF todo = <<>> THEN <<stack, seen>>
  ELSE
  LET a == Last(todo)  rest == Front(todo) IN
  CASE a[1] = "pop" -> Run(rest, stack, Front(axes), aff, seen)
    [] a[1] = "popaff" -> Run(rest, stack, axes, Front(aff), seen)
    [] a[1] = "down" ->
        LET t == a[2]  fr == Last(axes) IN
        IF t[1] \in {"add", "mul"} /\ <<fr, t>> \in DOMAIN seen
        THEN Run(rest, Append(stack, seen[<<fr, t>>]), axes, aff, seen)
        ELSE
        (CASE t[1] = "c" -> Run(rest, Append(stack, t), axes, aff, seen)
          [] t[1] = "x" -> Run(rest, Append(stack, fr[1]), axes, aff, seen)
          [] t[1] = "y" -> Run(rest, Append(stack, fr[2]), axes, aff, seen)
          [] t[1] = "z" -> Run(rest, Append(stack, fr[3]), axes, aff, seen)
          [] t[1] \in {"add", "mul"} ->
               Run(rest \o << <<"up", t>>, <<"down", t[2]>>, <<"down", t[3]>> >>, stack, axes, aff, seen)
          [] t[1] = "rxyz" ->
               Run(rest \o << <<"up", t>>, <<"down", t[3]>>, <<"down", t[4]>>, <<"down", t[5]>> >>, stack, axes, aff, seen)
          [] t[1] = "raff" ->
               LET prev == IF aff = <<>> THEN Id ELSE Last(aff)
                   mat == MatMul(prev, t[3])
               IN IF t[2][1] = "raff"
                  THEN Run(rest \o << <<"popaff">>, <<"down", t[2]>> >>, stack, axes, Append(aff, mat), seen)
                  ELSE Run(rest \o << <<"pop">>, <<"down", t[2]>> >>, stack, Append(axes, AffFrame(mat, fr)), aff, seen))
    [] a[1] = "up" ->
        LET t == a[2]  fr == Last(axes) IN
        CASE t[1] \in {"add", "mul"} ->
               \* popped in this order: lhs was pushed last, so it is popped first
               LET lhs == Last(stack)  rhs == Last(Front(stack))
                   out == <<t[1], lhs, rhs>>
               IN Run(rest, Append(Front(Front(stack)), out), axes, aff, seen @@ (<<fr, t>> :> out))
          [] t[1] = "rxyz" ->
               LET x == Last(stack)  y == Last(Front(stack))  z == Last(Front(Front(stack)))
               IN Run(rest \o << <<"pop">>, <<"down", t[2]>> >>, Front(Front(Front(stack))), Append(axes, <<x, y, z>>), aff, seen)

Import(t) == Run(<< <<"down", t>> >>, <<>>, << <<X, Y, Zt>> >>, <<>>, <<>>)
Correct == LET r == Import(tree) IN Len(r[1]) = 1 /\ r[1][1] = D(tree, <<X, Y, Zt>>)
\* every cache entry is what recomputation would give
CacheSound == LET r == Import(tree) IN \A k \in DOMAIN r[2] : r[2][k] = D(k[2], k[1])
==========================================================================
