SPECIFICATION Spec
CONSTANTS MaxLen = 12
INVARIANT Independent
INVARIANT EmitHist
CHECK_DEADLOCK FALSE
