------------------------------ MODULE Trace_C20 ------------------------------
(***************************************************************************)
(* Trace specification for C20.  Each line is one tracing evaluation of a  *)
(* real evaluator (interpreter or JIT, point or interval) on a tape whose  *)
(* clause operands are exported as extra outputs, so the entry of every    *)
(* clause is judged against the operand values *that evaluator* computed:  *)
(*   - one output per requested output;                                    *)
(*   - a reported trace has one entry per choice clause, each left / right *)
(*     / both and equal to Choices!{Point,Interval}Implied of the operands;*)
(*   - no trace is reported only when every clause is undecided (both).    *)
(* `meta` lines: bulk output has exactly outputs x samples entries, and    *)
(* output count / variable map agree between the function and every tape.  *)
(***************************************************************************)
EXTENDS Integers, Sequences, FiniteSets, TLC, Json, IOUtils, Choices

Rec == ndJsonDeserialize(IOEnv.TRACE)
VARIABLE l
vars == <<l>>

Lhs(r, c) == r.out[c[3] + 1]
Rhs(r, c) == IF c[4] >= 0 THEN r.out[c[4] + 1] ELSE <<c[5], c[5]>>
Implied(r, c) == IF r.kind = "point" THEN PointImplied(c[1], Lhs(r, c)[1], Rhs(r, c)[1])
                 ELSE IntervalImplied(c[1], Lhs(r, c), Rhs(r, c))

TraceFails(r) ==
  IF r.panic THEN {"crash"} ELSE IF r.err # "" THEN {"err"} ELSE
  IF Len(r.out) # r.nout THEN {"count"} ELSE
  IF r.has THEN
       IF Len(r.trace) # r.nch THEN {"length"} ELSE
          (IF \A k \in 1..r.nch : r.trace[k] \in 1..3 THEN {} ELSE {"unknown"})
     \cup (IF \A k \in 1..r.nch : r.trace[k] = Implied(r, r.clauses[k]) THEN {} ELSE {"entry"})
  ELSE (IF \A k \in 1..r.nch : Implied(r, r.clauses[k]) = 3 THEN {} ELSE {"missed"})

MetaFails(r) ==
  IF r.err # "" THEN {"bulkerr"} ELSE
     (IF r.rows = r.nout /\ \A k \in 1..Len(r.lens) : r.lens[k] = r.samples THEN {} ELSE {"bulkshape"})
  \cup (IF r.f_out = r.nout /\ \A k \in 1..4 : r.tape_out[k] = r.nout THEN {} ELSE {"outcount"})
  \cup (IF \A k \in 1..4 : r.vars_agree[k] THEN {} ELSE {"vars"})
  \cup (IF r.f_nvars = r.nvars THEN {} ELSE {"nvars"})
  \cup (IF r.can_simplify = (r.nch > 0) THEN {} ELSE {"cansimplify"})

\* a bulk evaluator object reused across tapes reports the shape of the current request
ShapeFails(r) ==
  IF r.err # "" THEN {"bulkerr"} ELSE
  IF r.rows = r.nout /\ Len(r.lens) = r.nout /\ \A k \in 1..Len(r.lens) : r.lens[k] = r.samples THEN {} ELSE {"bulkshape"}

Fails(r) == CASE r.ev = "trace" -> TraceFails(r)
              [] r.ev = "bulkshape" -> ShapeFails(r)
              [] r.ev = "meta" -> MetaFails(r)
              [] r.ev = "compile_panic" -> (IF r.n < 3 THEN {} ELSE {"panic"})
              [] OTHER -> {"unknown-event"}

Init == l = 1
Next == /\ l <= Len(Rec)
        /\ l' = l + 1
        /\ LET f == Fails(Rec[l]) IN f = {} \/ PrintT(<<"REJECT", Rec[l].id, f>>)
Spec == Init /\ [][Next]_vars
Consumed == TLCGet("stats").diameter - 1 = Len(Rec) \/ PrintT(<<"UNCONSUMED", TLCGet("stats").diameter, Len(Rec)>>)
==============================================================================
