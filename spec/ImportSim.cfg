SPECIFICATION Spec
CONSTANTS Reduced = FALSE MaxSteps = 6
INVARIANT EmitHist
CHECK_DEADLOCK FALSE
