SPECIFICATION Spec
CONSTANTS MaxEvents = 4  ZoomRefreshesHandle = FALSE  FlagAsWritten = FALSE
INVARIANT DragKeepsGrabbedPoint
VIEW View
CHECK_DEADLOCK FALSE
