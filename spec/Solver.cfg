SPECIFICATION Spec
CONSTANTS NV = 5
INVARIANT Correct
INVARIANT InRange
INVARIANT FixedContributeNothing
INVARIANT ResultKeys
CHECK_DEADLOCK FALSE
