SPECIFICATION GenSpec
CONSTANTS TS <- TS31 W = 3 H = 3 FillMode = TRUE
INVARIANT EmitBitmap
CHECK_DEADLOCK FALSE
