------------------------------ MODULE Trace_C11 ------------------------------
(***************************************************************************)
(* Trace specification for C11 (totality).                                 *)
(*  `eval` : an evaluator entry point (point, interval, many-point,        *)
(*     gradient; interpreter at two budgets, JIT) was called with finite   *)
(*     inputs of magnitude up to f32::MAX on a random program, on a        *)
(*     program of the generator, or on a composition over the alphabet of  *)
(*     spec/Interval.tla (the candidate crash paths: overflow followed by  *)
(*     add / sub / multiply-by-immediate).  It must return normally, with  *)
(*     one result per output and sample; interval results are well formed  *)
(*     (lo <= hi) or the NaN interval.                                     *)
(*  `args` : malformed argument lists (too few variables, mismatched slice *)
(*     lengths, missing bound variables) must be reported as error values; *)
(*     extra variables are accepted.  A panic is never acceptable.         *)
(***************************************************************************)
EXTENDS Integers, Sequences, FiniteSets, TLC, Json, IOUtils, Floats

Rec == ndJsonDeserialize(IOEnv.TRACE)
VARIABLE l
vars == <<l>>

NaNIv(i) == IsNaN(i[1]) \/ IsNaN(i[2])
\* the interpreter builds intervals through the checked constructor: both bounds NaN or ordered;
\* native code may leave one bound NaN, which every consumer treats as the NaN interval (has_nan)
Formed(r, i) == IF r.backend = "jit" THEN NaNIv(i) \/ Key(i[1]) <= Key(i[2]) ELSE WellFormed(i)

EvalFails(r) ==
  IF r.panic THEN {"crash"} ELSE IF r.err # "" THEN {"error-on-valid-arguments"} ELSE
  IF Len(r.out) # r.nout THEN {"count"} ELSE
  CASE r.kind = "interval" -> (IF \A o \in 1..r.nout : Formed(r, r.out[o]) THEN {} ELSE {"ill-formed-interval"})
    [] r.kind \in {"float", "grad"} -> (IF \A o \in 1..r.nout : r.out[o][1] = r.out[o][2] THEN {} ELSE {"samples"})
    [] OTHER -> {}

ArgFails(r) == IF r.outcome = "panic" THEN {"crash-" \o r.case}
               ELSE IF r.outcome = r.expect THEN {} ELSE {"args-" \o r.case}

Fails(r) == CASE r.ev = "eval" -> EvalFails(r) [] r.ev = "args" -> ArgFails(r) [] OTHER -> {"unknown-event"}

Init == l = 1
Next == /\ l <= Len(Rec)
        /\ l' = l + 1
        /\ LET f == Fails(Rec[l]) IN f = {} \/ PrintT(<<"REJECT", Rec[l].id, f>>)
Spec == Init /\ [][Next]_vars
Consumed == TLCGet("stats").diameter - 1 = Len(Rec) \/ PrintT(<<"UNCONSUMED", TLCGet("stats").diameter, Len(Rec)>>)
==============================================================================
