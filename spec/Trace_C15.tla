------------------------------ MODULE Trace_C15 ------------------------------
(***************************************************************************)
(* Trace specification for C15.  Each line holds the words of a real       *)
(* Bytecode::new(&VmData<N>), the opcode numbering reported by iter_ops()  *)
(* at record time, the advertised register / memory counts, the SSA tape   *)
(* of the same VmData, and numeric results of the interpreter and of an    *)
(* independent executor of the documented format.  Bytecode!Decodes reads  *)
(* the words only as the documentation says and requires: markers, index   *)
(* bounds, no reserved register, and the SSA tape's output terms.  The     *)
(* numeric executor must agree with the interpreter bit for bit (NaN       *)
(* matching NaN; evaluations in which a NaN reaches rand/mix are tainted). *)
(***************************************************************************)
EXTENDS Integers, Sequences, FiniteSets, TLC, Json, IOUtils, Bytecode

Rec == ndJsonDeserialize(IOEnv.TRACE)
VARIABLE l
vars == <<l>>
SeqSame(x, y) == Len(x) = Len(y) /\ \A i \in 1..Len(x) : SameF(x[i], y[i])
Tainted(e) == \E k \in 1..Len(e.bs) : IsNaN(e.bs[k])

EvalFails(r, e) ==
  IF e.berr # "" THEN {"executor-" \o e.berr} ELSE
  IF Len(e.bc) # r.nout \/ Len(e.vm) # r.nout THEN {"count"} ELSE
  IF Tainted(e) \/ SeqSame(e.bc, e.vm) THEN {} ELSE {"value"}

Fails(r) ==
  IF r.skip THEN {} ELSE
  IF ~r.ok THEN (IF r.slots > 255 /\ r.err = "register 255 is reserved" THEN {} ELSE {"encode-failed"}) ELSE
     (IF Decodes(r.ssa, r.words, r.ops, r.regs, r.mems, r.nout) THEN {} ELSE {"decode"})
  \cup (IF Len(r.words) = r.len THEN {} ELSE {"len"})
  \cup UNION {EvalFails(r, r.evals[k]) : k \in 1..Len(r.evals)}

Init == l = 1
Next == /\ l <= Len(Rec)
        /\ l' = l + 1
        /\ LET f == Fails(Rec[l]) IN f = {} \/ PrintT(<<"REJECT", Rec[l].id, f>>)
Spec == Init /\ [][Next]_vars
Consumed == TLCGet("stats").diameter - 1 = Len(Rec) \/ PrintT(<<"UNCONSUMED", TLCGet("stats").diameter, Len(Rec)>>)
==============================================================================
