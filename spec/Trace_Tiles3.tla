---------------------------- MODULE Trace_Tiles3 ----------------------------
(***************************************************************************)
(* Step-by-step trace validation of the real voxel renderer against the    *)
(* implementation-shaped model Render3D.tla (C07).                         *)
(*                                                                         *)
(* The recorder renders with the vox_root / vox_tile / vox_hit hooks on,   *)
(* orders the events of each thread by their per-thread sequence number,   *)
(* cuts them at vox_root events into one *case* per root tile column and   *)
(* translates the coordinates of a case to the origin.  A case is          *)
(*   {e: "reset", id, vox}    the reference sign of the shape at every     *)
(*                            lattice position of the root tile column     *)
(*                            (VoxSeq order; 1 negative, 0 positive)       *)
(*   {e: "tile", d, x, y, z, s, act}   one decision of render_tile_recurse *)
(*                            act 0 every pixel already filled, 1 full,    *)
(*                            2 empty, 3 recurse, 4 per-voxel evaluation   *)
(*   {e: "hit", x, y, z}      a column whose depth render_tile_pixels set  *)
(*   {e: "end", depth}        the W x H part of the final image            *)
(* One event = one step.  A tile event must name the head of the model's   *)
(* agenda and takes StepTile of Render3D.tla with the answer the           *)
(* implementation acted on; act 0 must coincide with the model's own       *)
(* occlusion test; the hits after a leaf tile must be exactly the columns  *)
(* the model's Pixels changes, with the same depths; at the end the agenda *)
(* must be empty and the merged model image must be the recorded image.    *)
(* Any difference is SPEC-DRIFT (the model no longer describes the code;   *)
(* the rest of the case is skipped), never a violation: C07 accepts every  *)
(* correct renderer.  A full / empty answer that the reference signs       *)
(* contradict is printed as UNSOUND (reported, not a verdict here: the     *)
(* image comparison decides whether it was observable).  Property level:   *)
(* the recorded image must be the brute-force heightmap of the reference   *)
(* signs (Correct / ClampedAbove of Render3D.tla evaluated on the real     *)
(* run), and the code's assert!(depth < z) must hold in the model state    *)
(* of an agreeing run.                                                     *)
(* TS, W, H, D are constants: one TLC run per configuration.               *)
(***************************************************************************)
EXTENDS MC_Render3D, IOUtils

Rec == ndJsonDeserialize(IOEnv.TRACE)
VARIABLES l, st, expect, drift, cid
tvars == <<vars, l, st, expect, drift, cid>>

Ans(act) == CASE act = 0 -> "occ" [] act = 1 -> "neg" [] act = 2 -> "pos" [] OTHER -> "amb"

Reset(r) == /\ neg' = {VoxSeq[i] : i \in {k \in 1..NV : r.vox[k] = 1}}
            /\ policy' = "exact" /\ idx' = NV + 1
            /\ st' = StepInit /\ expect' = {} /\ drift' = FALSE /\ cid' = r.id

Drift(what) == /\ PrintT(<<"DRIFT", cid, what>>)
               /\ drift' = TRUE /\ UNCHANGED <<vars, st, expect, cid>>

TileEvent(r) ==
  IF drift THEN UNCHANGED <<vars, st, expect, drift, cid>>
  ELSE IF expect # {} THEN Drift("hits-missing")
  ELSE IF st.agenda = <<>> THEN Drift("tile-after-the-end")
  ELSE LET di == Head(st.agenda)[1]
           c == Head(st.agenda)[2]
           s == TS[di]
           a == Ans(r.act)
       IN IF ~(r.d + 1 = di /\ <<r.x, r.y, r.z>> = c /\ r.s = s) THEN Drift("tile-order")
          ELSE IF (a = "occ") # Occluded(st.out, c, s) THEN Drift("occlusion-test")
          ELSE IF a = "amb" /\ ((r.act = 3) # (di < Len(TS))) THEN Drift("level")
          ELSE LET n == StepTile(st, a) IN
               /\ st' = n
               /\ expect' = IF r.act = 4
                            THEN {<<p[1], p[2], Dep(n.out[p])>> : p \in {q \in TileCols(c, s) : n.out[q] # st.out[q]}}
                            ELSE {}
               /\ (IF (a = "neg" => Truth(c, s) = "neg") /\ (a = "pos" => Truth(c, s) = "pos")
                   THEN TRUE ELSE PrintT(<<"UNSOUND", cid, r.act, c, s>>))
               /\ (IF n.ok THEN TRUE ELSE PrintT(<<"REJECT", cid, {"depth-assertion"}>>))
               /\ UNCHANGED <<vars, drift, cid>>

HitEvent(r) ==
  IF drift THEN UNCHANGED <<vars, st, expect, drift, cid>>
  ELSE IF <<r.x, r.y, r.z>> \in expect
       THEN expect' = expect \ {<<r.x, r.y, r.z>>} /\ UNCHANGED <<vars, st, drift, cid>>
       ELSE Drift("hit")

\* the recorded image, row-major over W x H
Got(r, p) == r.depth[p[2] * W + p[1] + 1]
InImage(p) == p[1] < W /\ p[2] < H
EndEvent(r) ==
  /\ (IF \A p \in Cols : InImage(p) => Got(r, p) = (IF Over(p) THEN D ELSE Height(p))
      THEN TRUE ELSE PrintT(<<"REJECT", cid, {"height"}>>))
  /\ IF drift THEN UNCHANGED <<vars, st, expect, drift, cid>>
     ELSE IF expect # {} THEN Drift("hits-missing")
     ELSE IF st.agenda # <<>> THEN Drift("tiles-missing")
     ELSE IF \E p \in Cols : InImage(p) /\ Merge(st.out)[p][1] # Got(r, p) THEN Drift("image")
     ELSE UNCHANGED <<vars, st, expect, drift, cid>>

TInit == /\ neg = {} /\ policy = "exact" /\ idx = NV + 1
         /\ l = 1 /\ st = StepInit /\ expect = {} /\ drift = FALSE /\ cid = -1
TNext == /\ l <= Len(Rec)
         /\ l' = l + 1
         /\ CASE Rec[l].e = "reset" -> Reset(Rec[l])
              [] Rec[l].e = "tile" -> TileEvent(Rec[l])
              [] Rec[l].e = "hit" -> HitEvent(Rec[l])
              [] Rec[l].e = "end" -> EndEvent(Rec[l])
TSpec == TInit /\ [][TNext]_tvars
Consumed == TLCGet("stats").diameter - 1 = Len(Rec) \/ PrintT(<<"UNCONSUMED", TLCGet("stats").diameter, Len(Rec)>>)
==============================================================================
