------------------------------- MODULE Solver -------------------------------
(***************************************************************************)
(* The solver's Jacobian assembly (fidget-solver/src/lib.rs, C19).         *)
(* Free parameters get a gradient index in map-iteration order (any        *)
(* order); the gradient evaluator carries three partials per sample, so    *)
(* ceil(F / 3) samples are evaluated at once and sample j seeds the free   *)
(* parameters with indices 3j .. 3j+2; fixed parameters carry zero         *)
(* derivatives; the Jacobian entry of index gi is read from partial gi mod *)
(* 3 of sample gi div 3.  Gradient evaluation is abstracted as the linear  *)
(* map it is on a linear equation.                                         *)
(* Invariants for every free subset, every index order and every           *)
(* coefficient vector: Correct - entry gi is the coefficient of the        *)
(* variable whose index is gi; InRange - no sample beyond the allocated    *)
(* ones is read; FixedContributeNothing.                                   *)
(* NV = 0 free parameters is the degenerate case that used to panic.       *)
(***************************************************************************)
EXTENDS Integers, Sequences, FiniteSets, TLC
CONSTANTS NV      \* number of variables
Vars == 1..NV
VARIABLES free, order, coef
vars == <<free, order, coef>>
\* order: a permutation of the free variables = HashMap iteration order that defines grad_index
Perms(S) == {f \in [1..Cardinality(S) -> S] : \A i, j \in 1..Cardinality(S) : i # j => f[i] # f[j]}
Init == /\ free \in SUBSET Vars
        /\ order \in Perms(free)
        /\ coef \in [Vars -> {0, 2, 3}]          \* one linear equation; 0 = variable not used by this tape
Next == UNCHANGED vars
Spec == Init /\ [][Next]_vars
F == Cardinality(free)
GI(v) == (CHOOSE i \in 1..F : order[i] = v) - 1          \* grad_index[v], 0-based
NS == (F + 2) \div 3                                     \* div_ceil(3) samples
Seed(v, j, k) == IF v \in free /\ j * 3 + k = GI(v) THEN 1 ELSE 0     \* fixed variables carry zero derivatives
OutD(j, k) == LET RECURSIVE S(_) S(v) == IF v > NV THEN 0 ELSE coef[v] * Seed(v, j, k) + S(v + 1) IN S(1)
Jac(gi) == OutD(gi \div 3, gi % 3)
Correct == \A v \in free : Jac(GI(v)) = coef[v]
InRange == \A gi \in 0..(F - 1) : gi \div 3 < NS
FixedContributeNothing == \A v \in Vars \ free : \A j \in 0..NS, k \in 0..2 : Seed(v, j, k) = 0
\* the result has a value for exactly the free parameters
ResultKeys == {order[i] : i \in 1..F} = free
===========================================================================
