------------------------------ MODULE Trace_C19 ------------------------------
(***************************************************************************)
(* Trace specification for C19.  Each line is one call of the real solver  *)
(* on a consistent, diagonally dominant linear system with integer         *)
(* coefficients (1..40 parameters, random fixed subsets, equations over    *)
(* different subsets, interpreter or JIT), with the Jacobian entries and   *)
(* the gradient-index assignment recorded by the solver hooks.             *)
(*   - the call returns (no panic, no error) for every mix of free and     *)
(*     fixed parameters, including none free;                              *)
(*   - the result has a value for exactly the free parameters, also for    *)
(*     free parameters that no equation mentions;                          *)
(*   - Solver!Correct on the observation: every recorded Jacobian entry    *)
(*     (equation, variable of that gradient index) equals the integer      *)
(*     coefficient of that variable in that equation (0 if absent);        *)
(*   - a starting point that satisfies every equation exactly is returned  *)
(*     unchanged, bit for bit;                                             *)
(*   - the residual is small and the result is near the unique solution    *)
(*     (judged: computed in f64 by the harness; both backends are held to  *)
(*     the same solution, which bounds their difference).                  *)
(***************************************************************************)
EXTENDS Integers, Sequences, FiniteSets, TLC, Json, IOUtils, Floats

Rec == ndJsonDeserialize(IOEnv.TRACE)
VARIABLE l
vars == <<l>>

Free(r) == {r.roles[k][1] : k \in {j \in 1..Len(r.roles) : r.roles[j][2] = "free"}}
Keys(r) == {r.result[k][1] : k \in 1..Len(r.result)}
Coef(eq, name) == IF \E k \in 1..Len(eq.coefs) : eq.coefs[k][1] = name
                  THEN eq.coefs[CHOOSE k \in 1..Len(eq.coefs) : eq.coefs[k][1] = name][2] ELSE 0
Start(r, name) == r.roles[CHOOSE k \in 1..Len(r.roles) : r.roles[k][1] = name][3]
IsInt(b, v) == IsSmallInt(b) /\ IntOf(b) = v

(* Not property-level: a solve that is still iterating after the recorder's  *)
(* bound (the implementation's exit criteria take > 10^5 iterations on some  *)
(* well-conditioned systems but do return), and the numeric outcome on       *)
(* under-determined systems (a free parameter that no equation mentions).    *)
Drift(r) == \/ r.status = "slow"
            \/ r.loose > 0 /\ (r.status = "err" \/ ~r.residual_small)

\* the Jacobian of the first iteration, as recorded by the hook: entry (equation, free parameter) = the coefficient
JacFails(r) == IF \A k \in 1..Len(r.jac) : r.jac[k][2] \in Free(r) /\ IsInt(r.jac[k][3], Coef(r.eqs[r.jac[k][1] + 1], r.jac[k][2]))
               THEN {} ELSE {"jacobian"}

Fails(r) ==
  \* (a solve that was given up is not judged for its outcome, but the Jacobian it started from is)
  IF r.status = "slow" THEN JacFails(r) ELSE
  IF r.status = "panic" THEN {"crash"} ELSE
  IF r.status = "err" THEN (IF r.loose > 0 THEN {} ELSE {"error"}) ELSE
     (IF Keys(r) = Free(r) /\ Len(r.result) = Cardinality(Free(r)) THEN {} ELSE {"result-keys"})
  \cup JacFails(r)
  \cup (IF r.satisfied_start => \A k \in 1..Len(r.result) : r.result[k][2] = Start(r, r.result[k][1])
        THEN {} ELSE {"satisfied-start-moved"})
  \cup (IF r.loose > 0 \/ r.residual_small THEN {} ELSE {"residual"})
  \cup (IF r.loose > 0 \/ r.near_truth THEN {} ELSE {"far-from-solution"})

Init == l = 1
Next == /\ l <= Len(Rec)
        /\ l' = l + 1
        /\ LET f == Fails(Rec[l]) IN f = {} \/ PrintT(<<"REJECT", Rec[l].id, f>>)
        /\ (~Drift(Rec[l]) \/ PrintT(<<"DRIFT", Rec[l].id>>))
Spec == Init /\ [][Next]_vars
Consumed == TLCGet("stats").diameter - 1 = Len(Rec) \/ PrintT(<<"UNCONSUMED", TLCGet("stats").diameter, Len(Rec)>>)
==============================================================================
