------------------------------- MODULE MC_Grad -------------------------------
(* Design check of the dual arithmetic itself: on polynomials the dual      *)
(* number equals the exact derivative.  For every integer point, every      *)
(* integer seed and every pair of small polynomials p, q in one variable    *)
(* (coefficients in -1..1, degree <= 2): the dual of p*q, p+q, p-q, p^2     *)
(* computed by Grad!DMul etc. equals seed * (exact derivative), where the   *)
(* exact derivative is computed symbolically on coefficient vectors.        *)
EXTENDS Grad, TLC
Coef == -1..1
Polys == [0..2 -> Coef]
PEval(p, x) == p[0] + p[1] * x + p[2] * x * x
PDeriv(p, x) == p[1] + 2 * p[2] * x
PDual(p, x, s) == <<PEval(p, x), s * PDeriv(p, x), 0, 0>>
VARIABLES p, q, x, s
vars == <<p, q, x, s>>
Init == p \in Polys /\ q \in Polys /\ x \in -2..2 /\ s \in -2..2
Next == UNCHANGED vars
Spec == Init /\ [][Next]_vars
ProductRule == DMul(PDual(p, x, s), PDual(q, x, s))[2] = s * (PDeriv(p, x) * PEval(q, x) + PEval(p, x) * PDeriv(q, x))
SumRule == DAdd(PDual(p, x, s), PDual(q, x, s))[2] = s * (PDeriv(p, x) + PDeriv(q, x))
          /\ DSub(PDual(p, x, s), PDual(q, x, s))[2] = s * (PDeriv(p, x) - PDeriv(q, x))
SquareRule == DUn("Square", PDual(p, x, s))[2] = s * 2 * PEval(p, x) * PDeriv(p, x)
AbsRule == PEval(p, x) # 0 => DUn("Abs", PDual(p, x, s))[2] = (IF PEval(p, x) < 0 THEN -1 ELSE 1) * s * PDeriv(p, x)
MinRule == PEval(p, x) # PEval(q, x) =>
             DBin("Min", PDual(p, x, s), PDual(q, x, s)) = (IF PEval(p, x) < PEval(q, x) THEN PDual(p, x, s) ELSE PDual(q, x, s))
==============================================================================
