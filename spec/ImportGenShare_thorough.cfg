SPECIFICATION Spec
CONSTANTS Reduced = TRUE MaxSteps = 6
INVARIANT EmitHist
CHECK_DEADLOCK FALSE
