SPECIFICATION Spec
CONSTANTS SaveCell <- Cell0  RestoreCell <- Cell0  ArgCell = 12  RhsCell = 13  LowerCells = 17  UpperBytes = 40
          SavedPtrs <- AllPtrs  RestoredPtrs <- AllPtrs  MaxSpill = 2
INVARIANT OthersKept
INVARIANT Result
INVARIANT PointersBack
INVARIANT SpillsIntact
INVARIANT Layout
CHECK_DEADLOCK FALSE
