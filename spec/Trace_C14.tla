------------------------------ MODULE Trace_C14 ------------------------------
(***************************************************************************)
(* Trace specification for C14.  Each line is one shape evaluation of the  *)
(* real code (point / interval / many-point with single values or arrays / *)
(* gradient; VM or JIT; before or after simplification) of a function      *)
(*      sum_k weight_k * var_k      (distinct prime weights)               *)
(* at an integer position, with an integer (affine or projective)          *)
(* transform and integer variable values, so that f32 arithmetic is exact  *)
(* and the expected value is recomputed here in Integers:                  *)
(*   X, Y, Z = the transformed position; every other variable = the value  *)
(*   supplied under its own identity; extra supplied variables ignored;    *)
(*   a missing variable of the function's map is an error value.           *)
(* Also: the variable map is dense, injective and covers exactly the       *)
(* variables of the expression, before and after simplification.           *)
(***************************************************************************)
EXTENDS Integers, Sequences, FiniteSets, TLC, Json, IOUtils, Floats

Rec == ndJsonDeserialize(IOEnv.TRACE)
VARIABLE l
vars == <<l>>

Axes == {"X", "Y", "Z"}
HasMat(r) == Len(r.mat) = 16
Row(r, i) == <<r.mat[4 * i + 1], r.mat[4 * i + 2], r.mat[4 * i + 3], r.mat[4 * i + 4]>>      \* i = 0..3
Hom(r, i) == LET m == Row(r, i) IN m[1] * r.point[1] + m[2] * r.point[2] + m[3] * r.point[3] + m[4]
AbsI(x) == IF x < 0 THEN -x ELSE x
Exact(r) == ~HasMat(r) \/ (Hom(r, 3) # 0 /\ \A i \in 0..2 : Hom(r, i) % AbsI(Hom(r, 3)) = 0)
Pos(r, i) == IF ~HasMat(r) THEN r.point[i]                                                  \* i = 1..3
             ELSE IF Hom(r, 3) > 0 THEN Hom(r, i - 1) \div Hom(r, 3) ELSE (-Hom(r, i - 1)) \div (-Hom(r, 3))
Affine(r) == ~HasMat(r) \/ Row(r, 3) = <<0, 0, 0, 1>>

Lookup(pairs, name) == (CHOOSE k \in 1..Len(pairs) : pairs[k][1] = name)
Val(r, name) == CASE name = "X" -> Pos(r, 1) [] name = "Y" -> Pos(r, 2) [] name = "Z" -> Pos(r, 3)
                  [] OTHER -> r.values[Lookup(r.values, name)][2]
RECURSIVE SumSeq(_)
SumSeq(s) == IF s = <<>> THEN 0 ELSE Head(s) + SumSeq(Tail(s))
TermValue(r, t) == t[2] * Val(r, t[1])
Expected(r) == SumSeq([k \in 1..Len(r.terms) |-> TermValue(r, r.terms[k])])
\* partial derivative w.r.t. position axis c (1..3), affine transforms only
AxisRow(name) == CASE name = "X" -> 0 [] name = "Y" -> 1 [] name = "Z" -> 2
Coef(r, name, c) == IF name \notin Axes THEN 0
                    ELSE IF HasMat(r) THEN Row(r, AxisRow(name))[c] ELSE (IF AxisRow(name) = c - 1 THEN 1 ELSE 0)
\* the caller's derivative seeds: seed[j][c] is slot c of the derivative carried by input axis j (the unit axes if absent);
\* slot c of the result is sum_j (d value / d axis j) * seed[j][c]
Seed(r, j, c) == IF "seeds" \in DOMAIN r THEN r.seeds[j][c] ELSE (IF j = c THEN 1 ELSE 0)
DSlot(r, t, c) == t[2] * (Coef(r, t[1], 1) * Seed(r, 1, c) + Coef(r, t[1], 2) * Seed(r, 2, c) + Coef(r, t[1], 3) * Seed(r, 3, c))
DX(r, t) == DSlot(r, t, 1)
DY(r, t) == DSlot(r, t, 2)
DZ(r, t) == DSlot(r, t, 3)

IsInt(b, v) == IsSmallInt(b) /\ IntOf(b) = v
MapNames(r) == {r.vars[k][1] : k \in 1..Len(r.vars)}
Supplied(r) == {r.supplied[k] : k \in 1..Len(r.supplied)}
Missing(r) == (MapNames(r) \ Axes) \ Supplied(r)

MapFails(r) ==
     (IF {r.vars[k][2] : k \in 1..Len(r.vars)} = 0..(Len(r.vars) - 1) THEN {} ELSE {"map-not-dense"})
  \cup (IF MapNames(r) = {r.allvars[k] : k \in 1..Len(r.allvars)} /\ r.nvars = Len(r.vars) THEN {} ELSE {"map-wrong-vars"})

ValueFails(r) ==
  LET e == Expected(r) IN
  CASE r.kind = "point" -> (IF Len(r.got) = 1 /\ IsInt(r.got[1], e) THEN {} ELSE {"value"})
    [] r.kind = "interval" -> (IF Len(r.got) = 2 /\ IsInt(r.got[1], e) /\ IsInt(r.got[2], e) THEN {} ELSE {"value"})
    [] r.kind \in {"float-values", "float-arrays"} ->
         (IF Len(r.got) = 3 /\ \A k \in 1..Len(r.got) : IsInt(r.got[k], e) THEN {} ELSE {"value"})
    [] r.kind = "grad" ->
         (IF Len(r.got) = 2 /\ \A k \in 1..Len(r.got) : IsInt(r.got[k][1], e) THEN {} ELSE {"value"})
      \cup (IF ~Affine(r) \/ (Len(r.got) = 2 /\ \A k \in 1..Len(r.got) :
                 /\ IsInt(r.got[k][2], SumSeq([j \in 1..Len(r.terms) |-> DX(r, r.terms[j])]))
                 /\ IsInt(r.got[k][3], SumSeq([j \in 1..Len(r.terms) |-> DY(r, r.terms[j])]))
                 /\ IsInt(r.got[k][4], SumSeq([j \in 1..Len(r.terms) |-> DZ(r, r.terms[j])])))
            THEN {} ELSE {"partials"})

Fails(r) ==
  MapFails(r) \cup
  (IF Missing(r) # {} THEN (IF r.ok THEN {"missing-not-reported"} ELSE {})
   ELSE IF ~r.ok THEN {"spurious-error"}
   ELSE IF ~Exact(r) THEN {} ELSE ValueFails(r))

Init == l = 1
Next == /\ l <= Len(Rec)
        /\ l' = l + 1
        /\ LET f == Fails(Rec[l]) IN f = {} \/ PrintT(<<"REJECT", Rec[l].id, f>>)
Spec == Init /\ [][Next]_vars
Consumed == TLCGet("stats").diameter - 1 = Len(Rec) \/ PrintT(<<"UNCONSUMED", TLCGet("stats").diameter, Len(Rec)>>)
==============================================================================
