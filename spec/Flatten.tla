------------------------------- MODULE Flatten -------------------------------
(***************************************************************************)
(* SsaTape::new (fidget-core/src/compiler/ssa_tape.rs): how a DAG of the   *)
(* Context becomes an SSA tape (C01).                                      *)
(*                                                                         *)
(* Pass 1 walks the DAG from the roots with an explicit stack: the first   *)
(* visit of a node gives it the next slot (constants become immediates     *)
(* instead), numbers its variable on first encounter, and counts one       *)
(* parent for every edge to a child (both edges of f(a, a)).               *)
(* The tape starts with one Output per root (a constant root gets a fresh  *)
(* slot and a CopyImm).  Pass 2 walks again: a popped node is emitted only *)
(* when no counted parent edge is left and it was not emitted before; its  *)
(* children are pushed and their counts decremented.                       *)
(*                                                                         *)
(* Abs (what C01 needs from this step; also applied by Trace_C01 to every  *)
(* recorded SSA tape through Tapes!SsaWellFormed and value equality):      *)
(*   Once        every reachable non-constant node is emitted exactly once *)
(*   UsesFirst   an op appears in the tape before the ops defining its     *)
(*               arguments (reverse-topological order)                     *)
(*   Outputs     output k names the slot of root k                         *)
(*   Choices     choice_count = number of emitted min/max ops              *)
(*   VarsDense   variables are numbered 0.. in order of first encounter    *)
(* TLC enumerates every DAG of up to K nodes (each node's children have    *)
(* smaller ids; at most one node per variable and per constant, since the  *)
(* Context hash-conses leaves) and every root list of length 1..2, and     *)
(* emits each with the predicted tape for replay through the real Context. *)
(***************************************************************************)
EXTENDS Integers, Sequences, FiniteSets, TLC, Json

CONSTANT K
VARIABLE c
vars == <<c>>

Nodes == 1..K
Leaves == {"x", "y", "k"}               \* two variables and one constant
(* a node: <<kind, a, b>>, kind in leaves or "un", "bin", "min" *)
NodeChoices(i) == {<<l, 0, 0>> : l \in Leaves}
                  \cup {<<"un", a, 0>> : a \in 1..(i - 1)}
                  \cup {<<kd, a, b>> : kd \in {"bin", "min"}, a \in 1..(i - 1), b \in 1..(i - 1)}
Children(d, n) == LET nd == d[n] IN IF nd[1] = "un" THEN <<nd[2]>> ELSE IF nd[1] \in {"bin", "min"} THEN <<nd[2], nd[3]>> ELSE <<>>
IsConst(d, n) == d[n][1] = "k"
(* leaves unique; an op never has two immediate operands, a unary op no immediate operand (the Context folds those) *)
WellBuilt(d) == /\ \A i, j \in DOMAIN d : (i # j /\ d[i][1] \in Leaves) => d[i][1] # d[j][1]
                /\ \A i \in DOMAIN d : (d[i][1] = "un" => ~IsConst(d, d[i][2]))
                                       /\ (d[i][1] \in {"bin", "min"} => ~(IsConst(d, d[i][2]) /\ IsConst(d, d[i][3])))
                                       /\ (d[i][1] = "min" => d[i][2] < d[i][3])   \* commutative ops: the Context orders the
                                                                                  \* operands by node index (and folds f(a, a))

(* ---------------------------------------------------------------- pass 1 *)
\* st = [todo, seen, slot (node -> slot or -1 for immediates), pc (parent counts), vars (seq of leaf names), n]
RECURSIVE Pass1(_, _)
Pass1(d, st) ==
  IF st.todo = <<>> THEN st
  ELSE LET node == st.todo[Len(st.todo)]  rest == SubSeq(st.todo, 1, Len(st.todo) - 1) IN
       IF node \in st.seen THEN Pass1(d, [st EXCEPT !.todo = rest])
       ELSE LET ch == Children(d, node)
                isk == IsConst(d, node)
                pc2 == [m \in Nodes |-> st.pc[m] + Cardinality({i \in 1..Len(ch) : ch[i] = m})]
            IN Pass1(d, [todo |-> rest \o ch, seen |-> st.seen \cup {node},
                         slot |-> [st.slot EXCEPT ![node] = IF isk THEN -1 ELSE st.n],
                         pc |-> pc2,
                         vars |-> IF d[node][1] \in {"x", "y"} THEN Append(st.vars, d[node][1]) ELSE st.vars,
                         n |-> IF isk THEN st.n ELSE st.n + 1])

(* ---------------------------------------------------------------- pass 2 *)
VarIndex(vs, name) == (CHOOSE i \in 1..Len(vs) : vs[i] = name) - 1
Operand(d, p1, m) == IF IsConst(d, m) THEN <<"imm">> ELSE <<"reg", p1.slot[m]>>
OpOf(d, p1, node) ==
  LET nd == d[node] IN
  IF nd[1] \in {"x", "y"} THEN <<"input", p1.slot[node], VarIndex(p1.vars, nd[1])>>
  ELSE IF nd[1] = "un" THEN <<"un", p1.slot[node], Operand(d, p1, nd[2])>>
  ELSE <<nd[1], p1.slot[node], Operand(d, p1, nd[2]), Operand(d, p1, nd[3])>>
\* st = [todo, seen, pc, tape, order (emitted nodes), choices]
RECURSIVE Pass2(_, _, _)
Pass2(d, p1, st) ==
  IF st.todo = <<>> THEN st
  ELSE LET node == st.todo[Len(st.todo)]  rest == SubSeq(st.todo, 1, Len(st.todo) - 1) IN
       IF st.pc[node] > 0 \/ node \in st.seen THEN Pass2(d, p1, [st EXCEPT !.todo = rest])
       ELSE LET ch == Children(d, node)
                pc2 == [m \in Nodes |-> st.pc[m] - Cardinality({i \in 1..Len(ch) : ch[i] = m})]
                base == [st EXCEPT !.todo = rest \o ch, !.seen = st.seen \cup {node}, !.pc = pc2]
            IN IF IsConst(d, node) THEN Pass2(d, p1, base)
               ELSE Pass2(d, p1, [base EXCEPT !.tape = Append(st.tape, OpOf(d, p1, node)),
                                              !.order = Append(st.order, node),
                                              !.choices = st.choices + (IF d[node][1] = "min" THEN 1 ELSE 0)])

Flat(d, roots) ==
  LET zero == [m \in Nodes |-> 0]
      p1 == Pass1(d, [todo |-> roots, seen |-> {}, slot |-> [m \in Nodes |-> -2], pc |-> zero, vars |-> <<>>, n |-> 0])
      \* outputs: a constant root takes a fresh slot and a CopyImm
      RECURSIVE Outs(_, _, _)
      Outs(i, n, acc) == IF i > Len(roots) THEN <<n, acc>>
                         ELSE IF IsConst(d, roots[i]) THEN Outs(i + 1, n + 1, acc \o << <<"output", n, i - 1>>, <<"copyimm", n>> >>)
                         ELSE Outs(i + 1, n, Append(acc, <<"output", p1.slot[roots[i]], i - 1>>))
      o == Outs(1, p1.n, <<>>)
      p2 == Pass2(d, p1, [todo |-> roots, seen |-> {}, pc |-> p1.pc, tape |-> o[2], order |-> <<>>, choices |-> 0])
  IN [p1 |-> p1, p2 |-> p2, slots |-> o[1]]

(* ---------------------------------------------------------------- Abs *)
RECURSIVE Reach(_, _)
Reach(d, S) == LET S2 == S \cup {m \in Nodes : \E n \in S : \E i \in 1..Len(Children(d, n)) : Children(d, n)[i] = m} IN
               IF S2 = S THEN S ELSE Reach(d, S2)
RootSet(roots) == {roots[i] : i \in 1..Len(roots)}
Once(d, roots, f) == LET want == {m \in Reach(d, RootSet(roots)) : ~IsConst(d, m)}
                         got == f.p2.order
                     IN /\ {got[i] : i \in 1..Len(got)} = want
                        /\ Len(got) = Cardinality(want)
DefPos(f, s) == {i \in 1..Len(f.p2.tape) : f.p2.tape[i][1] \notin {"output"} /\ f.p2.tape[i][2] = s}
Args(op) == {op[k][2] : k \in {j \in 3..Len(op) : op[1] \notin {"input", "output", "copyimm"} /\ op[j][1] = "reg"}}
UsesFirst(f) == \A i \in 1..Len(f.p2.tape) : LET op == f.p2.tape[i] IN
                   /\ (op[1] = "output" => \E j \in DefPos(f, op[2]) : j > i)
                   /\ \A s \in Args(op) : \E j \in DefPos(f, s) : j > i
SingleDef(f) == \A s \in 0..(f.slots - 1) : Cardinality(DefPos(f, s)) = 1
Outputs(d, roots, f) == \A k \in 1..Len(roots) : \E i \in 1..Len(f.p2.tape) :
                          /\ f.p2.tape[i][1] = "output" /\ f.p2.tape[i][3] = k - 1
                          /\ (~IsConst(d, roots[k]) => f.p2.tape[i][2] = f.p1.slot[roots[k]])
Choices(d, f) == f.p2.choices = Cardinality({i \in 1..Len(f.p2.order) : d[f.p2.order[i]][1] = "min"})
VarsDense(d, roots, f) == LET vs == f.p1.vars IN
                          /\ \A i, j \in 1..Len(vs) : i # j => vs[i] # vs[j]
                          /\ {vs[i] : i \in 1..Len(vs)} = {d[m][1] : m \in {q \in Reach(d, RootSet(roots)) : d[q][1] \in {"x", "y"}}}

RootLists == {<<r>> : r \in Nodes} \cup {<<r, s>> : r, s \in Nodes}
Init == c = <<"start">>
Next == \/ c[1] = "start" /\ \E n1 \in NodeChoices(1) : c' = <<"dag", <<n1>> >>
        \/ c[1] = "dag" /\ Len(c[2]) < K /\ \E nd \in NodeChoices(Len(c[2]) + 1) :
               WellBuilt(Append(c[2], nd)) /\ c' = <<"dag", Append(c[2], nd)>>
        \/ c[1] = "dag" /\ Len(c[2]) = K /\ \E roots \in RootLists : c' = <<"case", c[2], roots>>
Spec == Init /\ [][Next]_vars

Correct == c[1] = "case" => LET d == c[2]  roots == c[3]  f == Flat(d, roots) IN
             Once(d, roots, f) /\ UsesFirst(f) /\ SingleDef(f) /\ Outputs(d, roots, f) /\ Choices(d, f) /\ VarsDense(d, roots, f)
Emit == c[1] = "case" => LET f == Flat(c[2], c[3]) IN
          PrintT(<<"GEN", ToJson([dag |-> c[2], roots |-> c[3], tape |-> f.p2.tape, vars |-> f.p1.vars,
                                  slots |-> f.slots, choices |-> f.p2.choices])>>)
==============================================================================
