SPECIFICATION Spec
CONSTANTS MaxLen = 4
INVARIANT Independent
INVARIANT EmitHist
CHECK_DEADLOCK FALSE
