SPECIFICATION Spec
CONSTANTS Boxes = {1, 2, 3}
          NoGain = {3}
          MaxDepth = 3
          MaxWalks = 4
INVARIANT Coherent
INVARIANT NoAlias
INVARIANT Denotes
CHECK_DEADLOCK FALSE
