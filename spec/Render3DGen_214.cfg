SPECIFICATION GenSpec
CONSTANTS TS <- TS2 W = 2 H = 1 D = 4 Clamp = "gt-d"
INVARIANT EmitVoxels
CHECK_DEADLOCK FALSE
