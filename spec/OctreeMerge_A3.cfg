SPECIFICATION Spec
CONSTANTS A = 3
          Target = 5
INVARIANT Correct
CHECK_DEADLOCK FALSE
