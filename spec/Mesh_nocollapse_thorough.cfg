SPECIFICATION SpecNoCollapse
CONSTANT NoCollapseRun = TRUE
CONSTANT Depth = 2
CONSTANT NFree = 12
INVARIANT ManifoldIffNoSharedAmbiguous
INVARIANT Outward
CHECK_DEADLOCK FALSE
