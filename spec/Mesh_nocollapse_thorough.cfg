SPECIFICATION SpecNoCollapse
CONSTANT NoCollapseRun = TRUE
CONSTANT Depth = 2
CONSTANT NFree = 12
INVARIANT ManifoldIffNoSharedAmbiguous
CHECK_DEADLOCK FALSE
