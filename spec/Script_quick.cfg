SPECIFICATION Spec
CONSTANT Full = FALSE
INVARIANT Emit
INVARIANT Denoted
INVARIANT Law1
INVARIANT Law2
INVARIANT Law3
INVARIANT Law4
INVARIANT Law5
CHECK_DEADLOCK FALSE
