------------------------------ MODULE MC_Mesh ------------------------------
(* Mesh.tla plus the emission of every complete sign field with the model's verdict, for replay into the real mesher *)
EXTENDS Mesh, Json, SequencesExt
EmitField == ~(FinalNC /\ coll = {} /\ cidx = 1 /\ NoCollapseRun)
             \/ LET m == Mesh IN
                PrintT(<<"GEN", ToJson([inside |-> SetToSeq(inside), ntri |-> Len(m), manifold |-> Manifold(m),
                                        shared |-> HasSharedAmbiguous, n |-> N])>>)
=============================================================================
