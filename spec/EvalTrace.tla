------------------------------ MODULE EvalTrace ------------------------------
(***************************************************************************)
(* Design model of how tracing evaluators record choices (C20, C04).       *)
(*                                                                         *)
(* A register tape is a sequence of ops of four shapes: "choice" (min /    *)
(* max / and / or), "call" (an op lowered to an out-of-line libm call in   *)
(* the JIT), "mem" (load / store inserted by the allocator) and "plain".   *)
(* Interpreter (fidget-core/src/vm/mod.rs): a cursor `choices.next()`      *)
(* advanced once per choice op.  JIT (fidget-jit/src/x86_64/{point,        *)
(* interval}.rs): the choice pointer lives in the caller-saved register    *)
(* rsi, is post-incremented after every choice sequence, and is backed up  *)
(* to a callee-saved register around every out-of-line call, which         *)
(* clobbers rsi.  The tape is chosen on the fly, so every op sequence up   *)
(* to MaxOps is explored.                                                  *)
(* Invariant: the k-th choice op executed writes entry k of the trace, in  *)
(* both machines, whatever loads, stores and calls are interleaved; and    *)
(* "simplify" (a trace is reported) is set iff some entry is not Both.     *)
(***************************************************************************)
EXTENDS Integers, Sequences, FiniteSets, TLC

CONSTANTS MaxOps
Garbage == -7
VARIABLES nops, nchoice,
          cursor, vmWritten,            \* interpreter
          rsi, r13, jitWritten,         \* JIT: live pointer, backup register, indices written
          flag, decided                 \* "simplify" flag / some entry decided
vars == <<nops, nchoice, cursor, vmWritten, rsi, r13, jitWritten, flag, decided>>

Init == /\ nops = 0 /\ nchoice = 0 /\ cursor = 0 /\ vmWritten = <<>>
        /\ rsi = 0 /\ r13 = Garbage /\ jitWritten = <<>> /\ flag = FALSE /\ decided = FALSE

Choice(entry) ==   \* entry: 1 left, 2 right, 3 both
  /\ nops < MaxOps /\ nops' = nops + 1 /\ nchoice' = nchoice + 1
  /\ vmWritten' = Append(vmWritten, cursor) /\ cursor' = cursor + 1
  /\ jitWritten' = Append(jitWritten, rsi) /\ rsi' = rsi + 1     \* or [rsi], c ; add rsi, 1
  /\ flag' = (flag \/ entry # 3) /\ decided' = (decided \/ entry # 3)
  /\ UNCHANGED r13
Call ==            \* mov r13, rsi ; call f (clobbers rsi) ; mov rsi, r13
  /\ nops < MaxOps /\ nops' = nops + 1
  /\ r13' = rsi /\ rsi' = rsi
  /\ UNCHANGED <<nchoice, cursor, vmWritten, jitWritten, flag, decided>>
Other ==           \* plain op, load or store: no effect on the cursor
  /\ nops < MaxOps /\ nops' = nops + 1
  /\ UNCHANGED <<nchoice, cursor, vmWritten, rsi, r13, jitWritten, flag, decided>>
Next == Call \/ Other \/ \E e \in 1..3 : Choice(e)
Spec == Init /\ [][Next]_vars

InOrder(s) == \A k \in 1..Len(s) : s[k] = k - 1
KthChoiceWritesEntryK == InOrder(vmWritten) /\ InOrder(jitWritten) /\ Len(vmWritten) = nchoice
TraceIffDecided == flag = decided
==============================================================================
