SPECIFICATION Spec
CONSTANTS Reduced = TRUE MaxSteps = 4
INVARIANT Correct
INVARIANT CacheSound
VIEW View
CHECK_DEADLOCK FALSE
