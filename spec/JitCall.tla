-------------------------------- MODULE JitCall --------------------------------
(***************************************************************************)
(* Design model of the out-of-line call protocol of the x86_64 SIMD        *)
(* assembler (fidget-jit/src/x86_64/float_slice.rs: call_fn_unary /        *)
(* call_fn_binary; the point, interval and gradient assemblers follow the  *)
(* same scheme with other widths).  Tape register k lives in ymm(k + 4),   *)
(* ymm0 is the immediate / scratch register.  The System V convention lets *)
(* the callee destroy every ymm register and rdi, rsi, rdx, rcx, so the    *)
(* generated code                                                          *)
(*   1. stores the five pointer registers below rbp,                       *)
(*   2. stores ymm4..ymm15 into the save area [rsp, rsp + 0x180),          *)
(*   3. loads the callee into r15 (callee-saved, but used by the loop),    *)
(*   4. stores the argument vector(s) into the argument slot(s) at         *)
(*      rsp + 0x180 (and 0x1a0),                                           *)
(*   5. calls the function once per lane through xmm0 (xmm1),              *)
(*   6. reloads ymm4..ymm15, 7. loads the result vector into the output    *)
(*      register, 8. reloads the pointers.                                 *)
(* The frame: [rsp, rsp + Lower) is the call area, spill slot s of the     *)
(* tape lives at rsp + Lower + 32 s, and the pointer area is the Upper     *)
(* bytes below rbp = rsp + round16(32 spills + Lower + Upper).             *)
(* Memory is modelled in 32-byte cells relative to rsp; the save and       *)
(* restore lists are constants, so that a slip in either is a change of    *)
(* the configuration.  The callee clobbers nothing, or everything it may.  *)
(* Invariants (at the end of the sequence): every tape register other than *)
(* the output holds what it held before, the output holds f of the         *)
(* argument(s) as they were before the call, the pointers are back, no     *)
(* spill slot of the tape was touched, and the frame is large enough.      *)
(***************************************************************************)
EXTENDS Integers, Sequences, FiniteSets, TLC

CONSTANTS SaveCell,      \* tape register -> 32-byte cell of the save area
          RestoreCell,   \* tape register -> cell it is reloaded from
          ArgCell, RhsCell,   \* cells of the argument vectors
          LowerCells,    \* size of the call area in cells (0x220 / 0x20 = 17)
          UpperBytes,    \* size of the pointer area (0x28)
          SavedPtrs,     \* pointer registers stored before the call
          RestoredPtrs,  \* pointer registers reloaded after it
          MaxSpill

Tape == 0..11
Ptrs == {"rdi", "rsi", "rdx", "rcx", "r15"}
CallerSaved == {"rdi", "rsi", "rdx", "rcx"}
G == <<"garbage">>

VARIABLES out, arg, rhs, binary, spills,   \* the op being lowered and the number of spill slots of the tape
          ymm,      \* tape register -> value
          gp,       \* pointer register -> value
          mem,      \* cell -> value (relative to rsp)
          psave,    \* pointer register -> saved value
          pc
vars == <<out, arg, rhs, binary, spills, ymm, gp, mem, psave, pc>>

SpillCell(s) == LowerCells + s
FrameBytes == LET raw == 32 * spills + 32 * LowerCells + UpperBytes IN ((raw + 15) \div 16) * 16
Cells == 0..(LowerCells + MaxSpill)

Init == /\ out \in Tape /\ arg \in Tape /\ rhs \in Tape /\ binary \in BOOLEAN /\ spills \in 0..MaxSpill
        /\ ymm = [r \in Tape |-> <<"T", r>>]
        /\ gp = [p \in Ptrs |-> <<"P", p>>]
        /\ mem = [c \in Cells |-> IF c >= LowerCells THEN <<"S", c - LowerCells>> ELSE G]
        /\ psave = [p \in Ptrs |-> G]
        /\ pc = "save-ptrs"

SavePtrs == /\ pc = "save-ptrs" /\ pc' = "save-ymm"
            /\ psave' = [p \in Ptrs |-> IF p \in SavedPtrs THEN gp[p] ELSE psave[p]]
            /\ UNCHANGED <<out, arg, rhs, binary, spills, ymm, gp, mem>>
SaveYmm == /\ pc = "save-ymm" /\ pc' = "load-fn"
           /\ mem' = [c \in Cells |-> IF \E r \in Tape : SaveCell[r] = c
                                      THEN ymm[CHOOSE r \in Tape : SaveCell[r] = c] ELSE mem[c]]
           /\ UNCHANGED <<out, arg, rhs, binary, spills, ymm, gp, psave>>
LoadFn == /\ pc = "load-fn" /\ pc' = "args"
          /\ gp' = [gp EXCEPT !["r15"] = <<"FN">>]
          /\ UNCHANGED <<out, arg, rhs, binary, spills, ymm, mem, psave>>
Args == /\ pc = "args" /\ pc' = "call"
        /\ mem' = [c \in Cells |-> IF c = ArgCell THEN ymm[arg] ELSE IF binary /\ c = RhsCell THEN ymm[rhs] ELSE mem[c]]
        /\ UNCHANGED <<out, arg, rhs, binary, spills, ymm, gp, psave>>
\* the eight lane calls as one step: the callee is reached through r15 and may destroy what the convention allows
Call == /\ pc = "call" /\ pc' = "restore-ymm"
        /\ \E clobber \in BOOLEAN :
             /\ ymm' = IF clobber THEN [r \in Tape |-> G] ELSE ymm
             /\ gp' = IF clobber THEN [p \in Ptrs |-> IF p \in CallerSaved THEN G ELSE gp[p]] ELSE gp
        /\ mem' = [mem EXCEPT ![ArgCell] = IF gp["r15"] = <<"FN">>
                                            THEN (IF binary THEN <<"f", mem[ArgCell], mem[RhsCell]>> ELSE <<"f", mem[ArgCell]>>)
                                            ELSE G]
        /\ UNCHANGED <<out, arg, rhs, binary, spills, psave>>
RestoreYmm == /\ pc = "restore-ymm" /\ pc' = "load-out"
              /\ ymm' = [r \in Tape |-> mem[RestoreCell[r]]]
              /\ UNCHANGED <<out, arg, rhs, binary, spills, gp, mem, psave>>
LoadOut == /\ pc = "load-out" /\ pc' = "restore-ptrs"
           /\ ymm' = [ymm EXCEPT ![out] = mem[ArgCell]]
           /\ UNCHANGED <<out, arg, rhs, binary, spills, gp, mem, psave>>
RestorePtrs == /\ pc = "restore-ptrs" /\ pc' = "done"
               /\ gp' = [p \in Ptrs |-> IF p \in RestoredPtrs THEN psave[p] ELSE gp[p]]
               /\ UNCHANGED <<out, arg, rhs, binary, spills, ymm, mem, psave>>
Next == SavePtrs \/ SaveYmm \/ LoadFn \/ Args \/ Call \/ RestoreYmm \/ LoadOut \/ RestorePtrs
Spec == Init /\ [][Next]_vars

Done == pc = "done"
OthersKept == Done => \A r \in Tape \ {out} : ymm[r] = <<"T", r>>
Result == Done => ymm[out] = (IF binary THEN <<"f", <<"T", arg>>, <<"T", rhs>>>> ELSE <<"f", <<"T", arg>>>>)
PointersBack == Done => \A p \in Ptrs : gp[p] = <<"P", p>>
SpillsIntact == \A s \in 0..(spills - 1) : mem[SpillCell(s)] = <<"S", s>>
\* the call area holds the save area and the argument cells; the frame holds call area, spill slots and pointer area
Layout == /\ \A r \in Tape : SaveCell[r] < LowerCells /\ SaveCell[r] # ArgCell /\ SaveCell[r] # RhsCell
          /\ \A r, q \in Tape : r # q => SaveCell[r] # SaveCell[q]
          /\ ArgCell < LowerCells /\ RhsCell < LowerCells /\ ArgCell # RhsCell
          /\ 32 * (LowerCells + spills) + UpperBytes <= FrameBytes
================================================================================
