SPECIFICATION Spec
CONSTANTS TS <- TS2 W = 2 H = 2 D = 1 Clamp = "gt-d"
INVARIANT AssertsOk
INVARIANT Correct
INVARIANT ClampedAbove
INVARIANT NormalAtHit
INVARIANT StepsAgree
CHECK_DEADLOCK FALSE
