SPECIFICATION Spec
CONSTANTS M = 3  MaxDepth = 4  Guarded = TRUE  GuardedProducts = TRUE  GuardedInf = TRUE
INVARIANT NoPanic
INVARIANT Enclosure
CHECK_DEADLOCK FALSE
