SPECIFICATION Spec
CONSTANTS N = 3  MaxLive = 4  MaxOps = 4
INVARIANT EmitProg
CHECK_DEADLOCK FALSE
