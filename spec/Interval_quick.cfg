SPECIFICATION Spec
CONSTANTS M = 2  MaxDepth = 2  Guarded = TRUE  GuardedProducts = TRUE
INVARIANT NoPanic
INVARIANT Enclosure
CHECK_DEADLOCK FALSE
