SPECIFICATION Spec
CONSTANTS M = 2  MaxDepth = 3  Guarded = TRUE  GuardedProducts = TRUE  GuardedInf = TRUE
INVARIANT NoPanic
INVARIANT Enclosure
CHECK_DEADLOCK FALSE
