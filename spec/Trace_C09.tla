------------------------------ MODULE Trace_C09 ------------------------------
(***************************************************************************)
(* Trace specification for C09.                                            *)
(*  `run` : one execution of the real 2D renderer, voxel renderer or       *)
(*     mesher with no pool, the global pool or a pool of n threads, the    *)
(*     cancel token set before the run, after exactly k polls (counted by  *)
(*     the cancel-poll hook in the polling thread, never by wall clock) or *)
(*     never, task starts perturbed through the schedule-point hook.       *)
(*     Par!AllOrNothing / NeverSet on the observation: what the run        *)
(*     returns equals the sequential result (image bits / the set of       *)
(*     triangles over vertex positions), never a partial one; it returns   *)
(*     nothing only if the token was set; a token set before the run gives *)
(*     nothing; a token never set gives a result.  (That the run returns   *)
(*     nothing exactly when a poll observed the flag, Par!NoneIffPolled,   *)
(*     is how today's code achieves this and is reported as SPEC-DRIFT.)   *)
(*  `shared` : one JIT tape evaluated concurrently by many threads; every  *)
(*     thread got what it gets alone.                                      *)
(***************************************************************************)
EXTENDS Integers, Sequences, FiniteSets, TLC, Json, IOUtils

Rec == ndJsonDeserialize(IOEnv.TRACE)
VARIABLE l
vars == <<l>>

SawFlag(r) == \E k \in 1..Len(r.polls) : r.polls[k] = 1
\* the token was set at some point of the run: before it, or by the k-th poll (meshes report
\* only whether some poll saw the flag)
\* cancel_after <= -1000: the token is set in the middle of a task (at a native bulk call of the JIT, reported by the
\* bulk-driver hook on the working thread); such a run may return nothing or the complete result
WasSet(r) == r.cancel_after = 0 \/ r.cancel_after <= -1000
             \/ (r.cancel_after > 0 /\ (Len(r.polls) >= r.cancel_after \/ SawFlag(r) \/ r.kind = "mesh"))
RunFails(r) ==
  IF r.result = "panic" THEN {"crash"} ELSE
     (IF r.result = "none" /\ ~WasSet(r) THEN {"none-without-cancel"} ELSE {})
  \cup (IF r.result = "some" /\ r.digest # r.ref THEN {"differs-from-sequential"} ELSE {})
  \cup (IF r.cancel_after = -1 /\ r.result # "some" THEN {"never-set-but-no-result"} ELSE {})
  \cup (IF r.cancel_after = 0 /\ r.result # "none" THEN {"set-before-but-result"} ELSE {})
Fails(r) == CASE r.ev = "run" -> RunFails(r)
              [] r.ev = "shared" -> (IF \A k \in 1..Len(r.same) : r.same[k] THEN {} ELSE {"thread-result-differs"})
              [] OTHER -> {"unknown-event"}

Drift(r) == r.ev = "run" /\ r.result # "panic" /\ r.kind # "mesh" /\ (r.result = "none") # SawFlag(r)
Init == l = 1
Next == /\ l <= Len(Rec)
        /\ l' = l + 1
        /\ LET f == Fails(Rec[l]) IN f = {} \/ PrintT(<<"REJECT", Rec[l].id, f>>)
        /\ (~Drift(Rec[l]) \/ PrintT(<<"DRIFT", Rec[l].id>>))
Spec == Init /\ [][Next]_vars
Consumed == TLCGet("stats").diameter - 1 = Len(Rec) \/ PrintT(<<"UNCONSUMED", TLCGet("stats").diameter, Len(Rec)>>)
==============================================================================
