SPECIFICATION Spec
CONSTANTS N = 4  MaxSteps = 7
INVARIANT Refines
INVARIANT PopRefines
INVARIANT Ring
CHECK_DEADLOCK FALSE
