SPECIFICATION Spec
CONSTANTS TS <- TS21 W = 2 H = 1 D = 2 Clamp = "ge-d1"
INVARIANT AssertsOk
INVARIANT Correct
INVARIANT ClampedAbove
INVARIANT NormalAtHit
CHECK_DEADLOCK FALSE
