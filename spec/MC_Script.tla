------------------------------ MODULE MC_Script ------------------------------
(***************************************************************************)
(* Enumerates scripts for C17 and checks design-level laws of Script.tla.  *)
(* One initial state per shape (from the reflected table) and per operator *)
(* so that TLC's workers share the work; every successor is one script,    *)
(* printed with its denotation for the replay harness.                     *)
(***************************************************************************)
EXTENDS Script
CONSTANT Full          \* FALSE: literal variants vary one field at a time; TRUE: full products
VARIABLE c
vars == <<c>>

Ix(n) == [i \in 1..n |-> i]
TreeLit(i) == AVar(<<"x", "y", "z">>[(i % 3) + 1])
Lits(ty, i) ==
  CASE ty = "Float" -> <<AInt(2 * i + 1), AFlt(4 * i + 1, 2)>>
    [] ty = "Vec2" -> <<AArr(<<AInt(i), AInt(i + 1)>>), ACall("vec2", <<AInt(i), AFlt(2 * i + 3, 2)>>)>>
    [] ty = "Vec3" -> <<AArr(<<AInt(i), AInt(i + 1), AInt(i + 2)>>),
                        ACall("vec3", <<AInt(i), AFlt(2 * i + 1, 2), AInt(i + 2)>>),
                        AArr(<<AInt(i), AInt(i + 1)>>),
                        ACall("vec2", <<AInt(i), AInt(i + 1)>>)>>
    [] ty = "Tree" -> <<TreeLit(i), AInt(i + 5), AArr(<<AVar("x"), AVar("y")>>), AInfix("+", AVar("z"), AInt(i)),
                        AArr(<<AVar("y"), AVar("x"), AInt(1), AVar("z")>>)>>
    [] ty = "VecTree" -> <<AArr(<<AVar("x"), AVar("y")>>), AArr(<<AVar("z")>>),
                           AArr(<<AVar("x"), AInt(2), AArr(<<AVar("y"), AVar("z")>>)>>)>>
    [] ty = "Axis" -> <<AStr("y"), AChr("z"), AArr(<<AInt(0), AInt(1), AInt(0)>>), ACall("axis", <<AStr("x")>>),
                        AVar("y"), AArr(<<AInt(1), AInt(0)>>)>>
    [] ty = "Plane" -> <<AStr("zx"), AStr("y"), ACall("plane", <<AStr("x")>>), ACall("plane", <<AStr("z"), AFlt(1, 2)>>),
                         AArr(<<AInt(0), AInt(0), AInt(1)>>)>>
    [] OTHER -> <<>>
Lit(S, i, k) == Lits(S.fields[i].ty, i)[k]
NLits(S, i) == Len(Lits(S.fields[i].ty, i))

(* a choice gives every field a literal variant, or 0 = left out *)
Choices(S) == {ch \in [1..NF(S) -> 0..6] :
                 /\ \A i \in 1..NF(S) : ch[i] <= NLits(S, i)
                 /\ Full \/ Cardinality({i \in 1..NF(S) : ch[i] > 1}) <= 1}
Present(S, ch) == SelectSeq(Ix(NF(S)), LAMBDA i : ch[i] > 0)
Rest(S, ch) == SelectSeq(Ix(NF(S)), LAMBDA i : ch[i] > 0 /\ i > 1)
KV(S, ch, idx) == [j \in 1..Len(idx) |-> [k |-> S.fields[idx[j]].name, v |-> Lit(S, idx[j], ch[idx[j]])]]
MapCase(S, ch) == ACall(S.fname, <<AMap(KV(S, ch, Present(S, ch)))>>)
Receiver(a) == a.a \in {"var", "arr", "infix", "call"}
WithMeth(S, args) == {ACall(S.fname, args)} \cup (IF Len(args) > 0 /\ Receiver(args[1]) THEN {AMeth(S.fname, args)} ELSE {})
TransformCases(S, ch) == IF ch[1] > 0 THEN WithMeth(S, <<Lit(S, 1, ch[1]), AMap(KV(S, ch, Rest(S, ch)))>>) ELSE {}
PosArgs(S, ch, p) == LET P == Present(S, ch) IN [j \in 1..Len(P) |-> Lit(S, P[p[j]], ch[P[p[j]]])]
PermsOf(n) == IF n = 0 THEN {<<>>} ELSE Permutations(1..n)
Swap12(n) == [j \in 1..n |-> IF j = 1 THEN 2 ELSE IF j = 2 THEN 1 ELSE j]
Orders(S, n) == IF AllUnique(S) THEN PermsOf(n) ELSE {Ix(n)} \cup (IF n >= 2 THEN {Swap12(n)} ELSE {})
PosCases(S, ch) == UNION {WithMeth(S, PosArgs(S, ch, p)) : p \in Orders(S, Len(Present(S, ch)))}

TreeArgs == <<AVar("x"), AVar("y"), AVar("z"), AInt(4), AArr(<<AVar("x"), AVar("z")>>), AInfix("*", AVar("y"), AInt(2)),
              AFlt(3, 2), AVar("x")>>
ReduceCases(S) == UNION {WithMeth(S, SubSeq(TreeArgs, 1, n)) : n \in 1..8}
                  \cup UNION {WithMeth(S, <<TreeArgs[k]>> \o SubSeq(TreeArgs, 1, n)) : n \in 1..3, k \in 4..7}
                  \cup {ACall(S.fname, <<AArr(SubSeq(TreeArgs, 1, n))>>) : n \in 1..6}
                  \cup {ACall(S.fname, SubSeq(TreeArgs, 1, 8) \o <<AVar("y")>>)}
BinaryCases(S) == UNION {WithMeth(S, <<Lit(S, 1, j), Lit(S, 2, k)>>) : j, k \in 1..4}
OddCases(S) == {ACall(S.fname, <<AMap(<<[k |-> "bogus", v |-> AInt(1)]>>)>>),
                ACall(S.fname, <<AStr("what")>>),
                ACall(S.fname, <<AVar("x"), AVar("y"), AVar("z"), AInt(1), AInt(2), AInt(3), AInt(4), AInt(5), AInt(6)>>)}
ShapeCases(S) ==
  UNION {{MapCase(S, ch)} \cup (IF IsTransform(S) THEN TransformCases(S, ch) ELSE {})
         \cup (IF S.name # "Plane" THEN PosCases(S, ch) ELSE {}) : ch \in Choices(S)}
  \cup (IF IsReduce(S) THEN ReduceCases(S) ELSE {})
  \cup (IF IsBinary(S) THEN BinaryCases(S) ELSE {})
  \cup OddCases(S)

(* expressions *)
Leaves == <<AVar("x"), AVar("y"), AInt(2), AInt(-3), AFlt(1, 2), AArr(<<AVar("x"), AVar("z")>>),
            \* arrays of three and four trees in operand position (an implicit union of more than two members)
            AArr(<<AVar("x"), AVar("y"), AVar("z")>>), AArr(<<AVar("z"), AInt(2), AVar("x"), AVar("y")>>)>>
Small == <<AVar("x"), AInt(2), AArr(<<AVar("y"), AVar("z")>>), AFlt(5, 2)>>
AllOps == InfixOps \cup BinaryFns \cup CmpOps \cup UnaryFns \cup {"neg"}
Apply2(op, l, r) == IF op \in InfixOps THEN {AInfix(op, l, r)}
                    ELSE IF op \in CmpOps THEN {ACmp(op, l, r)}
                    ELSE {ACall(op, <<l, r>>)} \cup (IF Receiver(l) THEN {AMeth(op, <<l, r>>)} ELSE {})
Apply1(op, e) == IF op = "neg" THEN {ANeg(e)} ELSE {ACall(op, <<e>>)} \cup (IF Receiver(e) THEN {AMeth(op, <<e>>)} ELSE {})
InModel(a) == Eval(a).k \in {"tree", "err", "int", "flt"}
E1(op) == {a \in (IF op \in UnaryFns \cup {"neg"}
                  THEN UNION {Apply1(op, Leaves[i]) : i \in 1..Len(Leaves)}
                  ELSE UNION {Apply2(op, Leaves[i], Leaves[j]) : i, j \in 1..Len(Leaves)}) : InModel(a)}
Inner == UNION {Apply2(o, Small[i], Small[j]) : o \in (IF Full THEN InfixOps \cup BinaryFns ELSE {"-", "/", "min", "atan2"}), i, j \in 1..Len(Small)}
         \cup UNION {Apply1(o, Small[i]) : o \in (IF Full THEN UnaryFns \cup {"neg"} ELSE {"neg", "sqrt"}), i \in 1..Len(Small)}
E2(op) == {a \in (IF op \in UnaryFns \cup {"neg"}
                  THEN UNION {Apply1(op, e) : e \in Inner}
                  ELSE UNION {Apply2(op, e, Leaves[i]) \cup Apply2(op, Leaves[i], e) : e \in Inner, i \in 1..Len(Leaves)})
             : InModel(a) /\ Eval(a).k \in {"tree", "err"}}
(* top-level `let` (re-use of a bound tree, shadowing of the axes) and remap *)
LetCases(op) == IF op \in UnaryFns \cup {"neg"}
                THEN {ALet("t", AInfix("+", AVar("x"), AInt(1)), a) : a \in Apply1(op, AVar("t"))}
                     \cup {ALet("y", AArr(<<AVar("x"), AVar("z")>>), a) : a \in Apply1(op, AVar("y"))}
                ELSE UNION {{ALet("t", AInfix("*", AVar("y"), AFlt(1, 2)), a) : a \in Apply2(op, AVar("t"), AVar("t"))},
                            {ALet("x", AInt(2), a) : a \in Apply2(op, AVar("x"), AVar("y"))},
                            {ALet("x", AVar("y"), ALet("y", AVar("z"), a)) : a \in Apply2(op, AVar("x"), AVar("y"))},
                            \* the script's own variables win over the built-in mathematical constants of the same name
                            {ALet("E", AInt(2), a) : a \in Apply2(op, AVar("x"), AVar("E"))},
                            {ALet("PI", AVar("y"), ALet("TAU", AFlt(1, 2), a)) : a \in Apply2(op, AVar("PI"), AVar("TAU"))}}
RemapCases == UNION {{ACall("remap", <<t, AVar("y"), AInfix("+", AVar("x"), AInt(1)), AVar("z")>>),
                      ACall("remap", <<t, AVar("y"), AVar("x")>>),
                      ACall("remap", <<t, AInt(1), AVar("x"), AVar("z")>>)}
                     : t \in {AVar("x"), AInfix("-", AVar("x"), AVar("z")), AInt(3), AArr(<<AVar("x"), AVar("y")>>)}}
               \cup {AMeth("remap", <<AInfix("*", AVar("x"), AVar("y")), AVar("z"), AVar("x")>>)}
ExprCases(op) == {a \in E1(op) \cup LetCases(op) : Eval(a).k \in {"tree", "err"}} \cup E2(op)
                 \cup (IF op = "+" THEN RemapCases ELSE {})

Init == \/ \E i \in 1..Len(Meta) : c = <<"start", i>>
        \/ \E op \in AllOps : c = <<"op", op>>
Next == \/ c[1] = "start" /\ \E a \in ShapeCases(Meta[c[2]]) : c' = <<"case", a>>
        \/ c[1] = "start" /\ c' = <<"shape", c[2]>>          \* the state on which the laws are evaluated
        \/ c[1] = "op" /\ \E a \in ExprCases(c[2]) : c' = <<"case", a>>
Spec == Init /\ [][Next]_vars

Emit == c[1] = "case" => PrintT(<<"GEN", ToJson([ast |-> c[2], want |-> Eval(c[2])])>>)
(* every generated script has a denotation in the model *)
Denoted == c[1] = "case" => Eval(c[2]).k \in {"tree", "err"}

---------------------------------------------------------------------------
(* laws of the matching algorithm, checked per shape over every choice     *)
IsTree(a) == Eval(a).k = "tree"
(* positional arguments of distinct types: the order is irrelevant *)
DistinctTypes(S, ch) == LET args == PosArgs(S, ch, Ix(Len(Present(S, ch)))) IN
     \A i, j \in 1..Len(args) : i # j => Classify(Eval(args[i])).ty # Classify(Eval(args[j])).ty
OrderIrrelevant(S) == AllUnique(S) /\ S.name # "Plane" =>    \* plane(axis, number) is also the plane value constructor
  \A ch \in Choices(S) : DistinctTypes(S, ch) => \A p, q \in PermsOf(Len(Present(S, ch))) :
     Eval(ACall(S.fname, PosArgs(S, ch, p))) = Eval(ACall(S.fname, PosArgs(S, ch, q)))
(* chained and function forms are the same call *)
ChainSame(S) == \A ch \in Choices(S) : LET args == PosArgs(S, ch, Ix(Len(Present(S, ch)))) IN
     Len(args) > 0 => Eval(AMeth(S.fname, args)) = Eval(ACall(S.fname, args))
(* leaving a defaulted field out is the same as writing its default value *)
DefaultLit(f) ==
  CASE f.ty = "Float" -> AFlt(f.c[1].n, f.c[1].d)
    [] f.ty = "Vec2" -> AArr(<<AFlt(f.c[1].n, f.c[1].d), AFlt(f.c[2].n, f.c[2].d)>>)
    [] f.ty = "Vec3" -> AArr(<<AFlt(f.c[1].n, f.c[1].d), AFlt(f.c[2].n, f.c[2].d), AFlt(f.c[3].n, f.c[3].d)>>)
    [] f.ty = "Axis" -> AStr(f.s)
    [] f.ty = "Plane" -> ACall("plane", <<AStr(f.s), AFlt(f.c[1].n, f.c[1].d)>>)
    [] OTHER -> AInt(0)
Filled(S, ch) == [j \in 1..NF(S) |-> [k |-> S.fields[j].name,
                                       v |-> IF ch[j] > 0 THEN Lit(S, j, ch[j]) ELSE DefaultLit(S.fields[j])]]
DefaultsExplicit(S) == \A ch \in Choices(S) :
     (\A i \in 1..NF(S) : ch[i] = 0 => S.fields[i].hasdef)
       => Eval(MapCase(S, ch)) = Eval(ACall(S.fname, <<AMap(Filled(S, ch))>>))
(* the (tree, map) form is the map form with the tree under the first field's name *)
TransformIsMap(S) == IsTransform(S) => \A ch \in Choices(S) : ch[1] > 0 =>
     Eval(ACall(S.fname, <<Lit(S, 1, ch[1]), AMap(KV(S, ch, Rest(S, ch)))>>)) = Eval(MapCase(S, ch))
(* positional and map forms agree whenever the positional form is accepted with plain literals *)
PositionalIsMap(S) == AllUnique(S) /\ S.name # "Plane" => \A ch \in Choices(S) :
     (\A i \in 1..NF(S) : ch[i] <= 1) /\ IsTree(ACall(S.fname, PosArgs(S, ch, Ix(Len(Present(S, ch))))))
       => Eval(ACall(S.fname, PosArgs(S, ch, Ix(Len(Present(S, ch)))))) = Eval(MapCase(S, ch))
Law1 == c[1] = "shape" => OrderIrrelevant(Meta[c[2]])
Law2 == c[1] = "shape" => ChainSame(Meta[c[2]])
Law3 == c[1] = "shape" => DefaultsExplicit(Meta[c[2]])
Law4 == c[1] = "shape" => TransformIsMap(Meta[c[2]])
Law5 == c[1] = "shape" => PositionalIsMap(Meta[c[2]])
==============================================================================
