SPECIFICATION Spec
CONSTANTS MaxLen = 7
INVARIANT Independent
VIEW View
CHECK_DEADLOCK FALSE
