------------------------------ MODULE HashSeed ------------------------------
(***************************************************************************)
(* Why interval `mix` / `rand` may only hash a seed whose bit pattern the   *)
(* interval can vouch for (C03; the defect repaired by 0d6d067).            *)
(*                                                                         *)
(* Floats here are the six values -2, -1, -0, +0, 1, 2 written <<n, neg>>; *)
(* -0 and +0 are equal as numbers and differ as bit patterns.  An interval  *)
(* is a pair of floats ordered as numbers (or NaNI).  A point is inside a  *)
(* box when it is between the bounds *as a number*: -0 is inside [+0, +0]. *)
(* The point operators follow IEEE for the sign of a zero result; the      *)
(* interval operators return bounds that are right as numbers, with the    *)
(* zero sign of whichever corner their min / max happened to pick - the    *)
(* model lets them pick any (ZeroSigns).                                   *)
(*                                                                         *)
(* `hash` is injective on bit patterns.  Its interval version returns the   *)
(* single value hash(bits) when both bounds have the same bits, and NaNI    *)
(* ("anything") otherwise.  With Guarded = FALSE (the code before the      *)
(* repair) a zero seed is hashed like any other and HashEnclosure fails:    *)
(* [-1, 1] * 0 = [+0, +0], the point value at -1 is -0.  With Guarded =     *)
(* TRUE a zero seed gives NaNI and the invariant holds for every box,      *)
(* every point of it and every chain of MaxDepth operators.                *)
(***************************************************************************)
EXTENDS Integers, Sequences, FiniteSets, TLC
CONSTANTS Guarded, MaxDepth

Float == {<<-2, TRUE>>, <<-1, TRUE>>, <<0, TRUE>>, <<0, FALSE>>, <<1, FALSE>>, <<2, FALSE>>}
Num(f) == f[1]
IsZero(f) == f[1] = 0
Mk(n, neg) == IF n = 0 THEN <<0, neg>> ELSE <<n, n < 0>>
Clamp(n) == IF n < -2 THEN -2 ELSE IF n > 2 THEN 2 ELSE n
NaNI == <<"nan">>
Intervals == {<<a, b>> : a \in Float, b \in Float} \cap {i \in Float \X Float : Num(i[1]) <= Num(i[2])}
Inside(x, i) == Num(i[1]) <= Num(x) /\ Num(x) <= Num(i[2])

\* point operators (IEEE sign rules for zero results)
Ops == {"mulpz", "mulnz", "neg", "and1", "min0", "inc", "id"}
PointOp(op, x) ==
  CASE op = "mulpz" -> <<0, x[2]>>                       \* x * +0
    [] op = "mulnz" -> <<0, ~x[2]>>                      \* x * -0
    [] op = "neg" -> Mk(-Num(x), ~x[2])
    [] op = "and1" -> IF IsZero(x) THEN x ELSE <<1, FALSE>>   \* and(x, 1): x if x == 0 else 1
    [] op = "min0" -> IF Num(x) < 0 THEN x ELSE IF Num(x) > 0 THEN <<0, FALSE>> ELSE x   \* min(x, +0), f32::min keeps x on a tie
    [] op = "inc" -> Mk(Clamp(Num(x) + 1), FALSE)        \* x + 1 (saturating on this line); -1 + 1 = +0
    [] op = "id" -> x

\* the numeric hull the interval operator must return
Hull(op, i) ==
  LET vals == {Num(PointOp(op, x)) : x \in {f \in Float : Inside(f, i)}} IN
  <<CHOOSE v \in vals : \A w \in vals : v <= w, CHOOSE v \in vals : \A w \in vals : v >= w>>
\* ... with any sign on a zero bound
ZeroSigns(h) == {<<Mk(h[1], s), Mk(h[2], t)>> : s \in BOOLEAN, t \in BOOLEAN}

Hash(f) == <<"h", f>>                                    \* injective on bits
HashI(i) ==
  IF i = NaNI THEN NaNI
  ELSE IF i[1] # i[2] THEN NaNI                          \* bits differ
  ELSE IF Guarded /\ IsZero(i[1]) THEN NaNI              \* the repair
  ELSE <<Hash(i[1]), Hash(i[1])>>

VARIABLES box, pt, ival, val, depth
vars == <<box, pt, ival, val, depth>>

Init == /\ box \in Intervals
        /\ pt \in {f \in Float : Inside(f, box)}
        /\ ival = box /\ val = pt /\ depth = 0
Next == /\ depth < MaxDepth
        /\ \E op \in Ops : /\ val' = PointOp(op, val)
                           /\ ival' \in ZeroSigns(Hull(op, ival))
        /\ depth' = depth + 1
        /\ UNCHANGED <<box, pt>>
Spec == Init /\ [][Next]_vars

\* the operators themselves are sound as numbers (sanity of the model)
NumericEnclosure == Inside(val, ival)
\* C03 for a hash applied to the current value
HashEnclosure == LET h == HashI(ival) IN h = NaNI \/ h[1] = Hash(val)
==============================================================================
