------------------------------- MODULE Bytecode -------------------------------
(***************************************************************************)
(* The serialized bytecode of fidget-bytecode, read per its documentation. *)
(*                                                                         *)
(* Abs (this is what C15 is judged by): a decoder written only from the    *)
(* module documentation.  Words come in pairs; byte 0 of the first word is *)
(* the opcode (numbering taken from the public iterator iter_ops() at      *)
(* record time, passed in as `ops`), bytes 1..3 are output, first and      *)
(* second input register; an input byte 0xFF means "use the second word,   *)
(* bitcast to f32"; Mem with 0xFF in the input byte is a load (register <- *)
(* memory slot), with 0xFF in the output byte a store; the stream starts   *)
(* with 0xFFFFFFFF 0x00000000 and ends with 0xFFFFFFFF 0xFFFFFFFF.         *)
(* Decodes(ssa, words, ...) executes the decoded stream symbolically over  *)
(* the hash-consed term table of Tapes and requires the SSA tape's output  *)
(* terms, every register below reg_count, every memory slot below          *)
(* mem_count, and no use of the reserved register 0xFF as a register.      *)
(* Register numbering is free: any valid packing is accepted.              *)
(*                                                                         *)
(* Impl: Encode transcribes Bytecode::new (register repacking map, memory  *)
(* slots rebased by N, 0xFF flags, Mem direction); MC_Bytecode checks      *)
(* DecodeStep(Encode(op)) against the meaning of the RegOp for every op    *)
(* form x every register / memory assignment within the bound.             *)
(***************************************************************************)
EXTENDS Integers, Sequences, FiniteSets, Tapes

Byte(w, k) == (w \div (256 ^ k)) % 256          \* w is the word as a signed 32-bit value
AllOnes == -1                                    \* 0xFFFF_FFFF

UnaryNames == {"Neg", "Abs", "Recip", "Sqrt", "Square", "Floor", "Ceil", "Round", "Not", "Rand",
               "Sin", "Cos", "Tan", "Asin", "Acos", "Atan", "Exp", "Ln"}
OpName(ops, code) == IF \E i \in 1..Len(ops) : ops[i][2] = code
                     THEN ops[CHOOSE i \in 1..Len(ops) : ops[i][2] = code][1] ELSE "?"
MemKey(m) == 1000 + m

\* st = <<tab, env, outs, ok>> ; registers are env keys 0..254, memory slots MemKey(m)
BStep(ops, regs, mems, st, w, imm) ==
  LET tab == st[1] env == st[2] outs == st[3] ok == st[4]
      name == OpName(ops, Byte(w, 0))  o == Byte(w, 1)  a == Byte(w, 2)  b == Byte(w, 3)
      regOK(x) == x < regs /\ x # 255
      val(t, x) == IF x = 255 THEN Intern(t, <<"Imm", -1, -1, imm>>) ELSE <<t, Get(env, x)>>
  IN CASE name = "Output" -> <<tab, env, Put(outs, imm, Get(env, o)), ok /\ regOK(o) /\ Get(env, o) # 0>>
       [] name = "Input" -> LET q == Intern(tab, <<"Input", imm, -1, 0>>)
                            IN <<q[1], Put(env, o, q[2]), outs, ok /\ regOK(o)>>
       [] name = "Mem" ->
            IF a = 255 /\ o # 255
            THEN <<tab, Put(env, o, Get(env, MemKey(imm))), outs,
                   ok /\ regOK(o) /\ imm >= 0 /\ imm < mems /\ Get(env, MemKey(imm)) # 0>>
            ELSE IF o = 255 /\ a # 255
            THEN <<tab, Put(env, MemKey(imm), Get(env, a)), outs,
                   ok /\ regOK(a) /\ imm >= 0 /\ imm < mems /\ Get(env, a) # 0>>
            ELSE <<tab, env, outs, FALSE>>
       [] name = "Copy" -> LET v == val(tab, a) IN <<v[1], Put(env, o, v[2]), outs, ok /\ regOK(o) /\ v[2] # 0>>
       [] name \in UnaryNames -> LET q == Intern(tab, <<name, Get(env, a), -1, 0>>)
                                 IN <<q[1], Put(env, o, q[2]), outs, ok /\ regOK(o) /\ regOK(a) /\ Get(env, a) # 0>>
       [] name = "?" -> <<tab, env, outs, FALSE>>
       [] OTHER -> LET x == val(tab, a)  y == val(x[1], b)
                       nm == IF name = "Atan2" THEN "Atan" ELSE name
                       q == Intern(y[1], <<nm, x[2], y[2], 0>>)
                   IN <<q[1], Put(env, o, q[2]), outs,
                        ok /\ regOK(o) /\ (a = 255 \/ regOK(a)) /\ (b = 255 \/ regOK(b))
                           /\ ~(a = 255 /\ b = 255) /\ x[2] # 0 /\ y[2] # 0>>
RECURSIVE BExec(_, _, _, _, _, _)
BExec(ops, regs, mems, words, st, i) ==
  IF i + 1 > Len(words) - 2 THEN st
  ELSE BExec(ops, regs, mems, words, BStep(ops, regs, mems, st, words[i], words[i + 1]), i + 2)

Markers(words) == LET n == Len(words) IN
  /\ n >= 4 /\ n % 2 = 0
  /\ words[1] = AllOnes /\ words[2] = 0 /\ words[n - 1] = AllOnes /\ words[n] = AllOnes
Decodes(ssa, words, ops, regs, mems, nout) ==
  LET s == SymExec(<< <<>>, EmptyEnv, EmptyEnv, TRUE>>, ssa, Len(ssa))
      b == BExec(ops, regs, mems, words, <<s[1], EmptyEnv, EmptyEnv, TRUE>>, 3)
  IN /\ Markers(words) /\ regs <= 255
     /\ s[4] /\ b[4]
     /\ DOMAIN s[3] = 0..(nout - 1) /\ DOMAIN b[3] = DOMAIN s[3]
     /\ \A k \in DOMAIN s[3] : b[3][k] = s[3][k]

(***************************************************************************)
(* Impl: the packer.  A RegOp is the Tapes tuple <<class, name, out, a, b, *)
(* imm>>; `map` renames registers; N is the register budget.  The result   *)
(* is the pair <<first word as 4 bytes, second word>>.                     *)
(***************************************************************************)
BcName(nm) == CASE nm = "Copy" -> "Copy" [] nm = "CopyImm" -> "Copy" [] nm = "Atan" -> "Atan2" [] OTHER -> nm
NoImm == -16777216                                \* 0xFF000000
Encode(op, map, N, code(_)) ==
  LET c == op[1] nm == op[2] o == op[3] a == op[4] b == op[5] imm == op[6] IN
  CASE c = 0 -> << <<code("Output"), map[a], 255, 255>>, b>>
    [] c = 1 -> << <<code("Input"), map[o], 255, 255>>, a>>
    [] c = 2 -> << <<code("Copy"), map[o], 255, 255>>, imm>>
    [] c = 3 -> << <<code(IF nm = "Atan" THEN "Atan" ELSE BcName(nm)), map[o], map[a], 255>>, NoImm>>
    [] c = 4 -> << <<code(BcName(nm)), map[o], map[a], 255>>, imm>>
    [] c = 5 -> << <<code(BcName(nm)), map[o], 255, map[a]>>, imm>>
    [] c = 6 -> << <<code(BcName(nm)), map[o], map[a], map[b]>>, NoImm>>
    [] c = 7 -> << <<code("Mem"), map[o], 255, 255>>, a - N>>       \* load reg o <- mem a
    [] c = 8 -> << <<code("Mem"), 255, map[a], 255>>, o - N>>       \* store mem o <- reg a
=============================================================================
