SPECIFICATION Spec
INVARIANT Tables
INVARIANT CollapseSound
CHECK_DEADLOCK FALSE
