---- MODULE MC_Render2D ----
EXTENDS Render2D
TS21 == <<2, 1>>
TS2 == <<2>>
TS3 == <<3>>
TS31 == <<3, 1>>
\* tile lists of the recorded tile-decision traces (Trace_Tiles2.tla)
TS_2_1 == <<2, 1>>
TS_2 == <<2>>
TS_4 == <<4>>
TS_8 == <<8>>
TS_4_2 == <<4, 2>>
TS_4_2_1 == <<4, 2, 1>>
TS_8_4 == <<8, 4>>
TS_8_2 == <<8, 2>>
TS_8_4_2 == <<8, 4, 2>>
TS_16_4 == <<16, 4>>
TS_6_3 == <<6, 3>>
TS_8_4_2_1 == <<8, 4, 2, 1>>
====
