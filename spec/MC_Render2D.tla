---- MODULE MC_Render2D ----
EXTENDS Render2D
TS21 == <<2, 1>>
TS2 == <<2>>
TS3 == <<3>>
TS31 == <<3, 1>>
====
