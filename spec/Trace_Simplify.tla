---------------------------- MODULE Trace_Simplify ----------------------------
(***************************************************************************)
(* Step-by-step trace validation of the real VmData::simplify against the  *)
(* implementation-shaped model Simplify.tla (C04).                         *)
(*                                                                         *)
(* Every recorded simplify call (parent SSA tape, trace, child SSA tape)   *)
(* is replayed as events: {e: "reset", trace}, one {e: "op", op} per op of *)
(* the parent tape in the order the reverse walk visits them (root first), *)
(* and {e: "end", child}.  An op event takes the action of Simplify.tla    *)
(* for that op kind (DoOutput / Step), with the choice the walk consumes   *)
(* from the back of the trace; at the end the child tape the model has     *)
(* built must be, op for op and slot for slot, the child tape the real     *)
(* code produced, and every trace entry must have been consumed.  A        *)
(* difference is SPEC-DRIFT (the model no longer describes the code); any  *)
(* correct simplifier is acceptable to C04, whose verdict is Trace_C04's.  *)
(* While model and code agree, the model's property-level invariants       *)
(* (WellFormed, Preserves for short tapes, the corrected bookkeeping       *)
(* equation) are                                                          *)
(* evaluated on the final state of the real run, i.e. far beyond the bound *)
(* TLC exhausts for the model itself; a failure there is rejected.         *)
(***************************************************************************)
EXTENDS Simplify, Json, IOUtils

Rec == ndJsonDeserialize(IOEnv.TRACE)
VARIABLES l, left, tr, drift
tvars == <<vars, l, left, tr, drift>>

ChoiceNames == {"Min", "Max", "And", "Or"}
\* kind of a recorded SSA op <<class, name, out, a, b, imm>> in the model's vocabulary
Kind(g) == CASE g[1] = 0 -> "out"
             [] g[1] \in {1, 2} -> "def"
             [] g[1] = 3 -> (IF g[2] = "Copy" THEN "copy" ELSE "un")
             [] g[1] = 4 -> (IF g[2] \in ChoiceNames THEN "chri" ELSE "un")
             [] g[1] = 5 -> "un"
             [] g[1] = 6 -> (IF g[2] \in ChoiceNames THEN "chrr" ELSE "bin")
ArgsOf(g) == IF g[1] \in {1, 2} THEN <<>> ELSE IF g[1] = 6 THEN <<g[4], g[5]>> ELSE <<g[4]>>
ChName(e) == CASE e = 1 -> "L" [] e = 2 -> "R" [] OTHER -> "B"

\* the child op the real code emitted, in the model's tuple form <<kind, out, a, b>>
\* (the model labels leaves and clause immediates with the parent slot; the real op carries the payload instead)
COp(g) == CASE g[1] = 0 -> <<"out", U, g[4], U>>
            [] g[1] = 1 -> <<"def", g[3], U, U>>
            [] g[1] = 2 -> <<"def-or-imm", g[3], U, U>>
            [] g[1] = 3 -> <<Kind(g), g[3], g[4], U>>
            [] g[1] \in {4, 5} -> <<Kind(g), g[3], g[4], U>>
            [] g[1] = 6 -> <<Kind(g), g[3], g[4], g[5]>>
Norm(m) == CASE m[1] = "def" -> <<"def", m[2], U, U>>
             [] m[1] = "imm" -> <<"imm", m[2], U, U>>
             [] m[1] = "chri" -> <<"chri", m[2], m[3], U>>
             [] OTHER -> m
SameOp(m, c) == LET n == Norm(m) IN
                IF c[1] = "def-or-imm" THEN n[1] \in {"def", "imm"} /\ n[2] = c[2]
                ELSE n = c
SameTape(mt, ct) == Len(mt) = Len(ct) /\ \A i \in 1..Len(mt) : SameOp(mt[i], COp(ct[i]))

Reset(r) == /\ ptape' = <<>> /\ ctape' = <<>> /\ bind' = [s \in Slots |-> U]
            /\ count' = 0 /\ pending' = {} /\ nslots' = 0 /\ nouts' = 0
            /\ left' = Len(r.trace) /\ tr' = r.trace /\ drift' = FALSE

\* DoOutput of Simplify.tla for a given argument
OutputEvent(a) ==
  LET g == Goi(bind, count, <<a>>) IN
  /\ bind' = g[1] /\ count' = g[2]
  /\ ctape' = Append(ctape, <<"out", U, g[1][a], U>>)
  /\ ptape' = Append(ptape, <<"out", U, a, U, "-">>)
  /\ pending' = pending \cup {a}
  /\ nslots' = nslots /\ nouts' = nouts + 1

OpEvent(r) ==
  LET g == r.op  k == Kind(g) IN
  IF drift THEN UNCHANGED <<vars, left, tr, drift>>
  ELSE IF k = "out" THEN OutputEvent(g[4]) /\ UNCHANGED <<left, tr, drift>>
  ELSE IF k \in {"chrr", "chri"}
       THEN IF left = 0 THEN drift' = TRUE /\ UNCHANGED <<vars, left, tr>> /\ PrintT(<<"DRIFT", r.id, "trace exhausted">>)
            ELSE Step(k, g[3], ArgsOf(g), ChName(tr[left])) /\ left' = left - 1 /\ UNCHANGED <<tr, drift>>
       ELSE Step(k, g[3], ArgsOf(g), "-") /\ UNCHANGED <<left, tr, drift>>

\* Preserves compares term trees and is exponential in the depth of sharing: it is evaluated for tapes of at most 16 ops
\* (Trace_C04 decides the same statement for every tape through the hash-consed Tapes!Resolves and by evaluation)
Holds == WellFormed /\ (Len(ptape) > 16 \/ Preserves) /\ (Terminal => count + nouts = Len(ctape))
EndEvent(r) ==
  /\ UNCHANGED <<vars, left, tr>>
  /\ drift' = (drift \/ left # 0 \/ ~SameTape(ctape, r.child))
  /\ (~drift' \/ PrintT(<<"DRIFT", r.id>>))
  /\ (drift' \/ Holds \/ PrintT(<<"REJECT", r.id, {"simplify-invariant"}>>))

TInit == Init /\ l = 1 /\ left = 0 /\ tr = <<>> /\ drift = FALSE
TNext == /\ l <= Len(Rec)
         /\ l' = l + 1
         /\ LET r == Rec[l] IN
            CASE r.e = "reset" -> Reset(r) [] r.e = "op" -> OpEvent(r) [] r.e = "end" -> EndEvent(r)
TSpec == TInit /\ [][TNext]_tvars
Consumed == TLCGet("stats").diameter - 1 = Len(Rec) \/ PrintT(<<"UNCONSUMED", TLCGet("stats").diameter, Len(Rec)>>)
==============================================================================
