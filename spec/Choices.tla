------------------------------- MODULE Choices -------------------------------
(***************************************************************************)
(* What the operands of a choice clause (min / max / and / or) imply for   *)
(* the recorded trace entry.  Entries: 0 unknown, 1 left, 2 right, 3 both. *)
(* Point operands are bit patterns; interval operands are pairs <<lo,hi>>. *)
(* These are the documented semantics of fidget_core::types::FloatExt and  *)
(* Interval::{min,max,and,or}_choice, restated over Floats.                 *)
(***************************************************************************)
EXTENDS Integers, Floats

PointImplied(nm, l, r) ==
  CASE nm = "Min" -> (IF Lt(l, r) THEN 1 ELSE IF Lt(r, l) THEN 2 ELSE 3)
    [] nm = "Max" -> (IF Lt(r, l) THEN 1 ELSE IF Lt(l, r) THEN 2 ELSE 3)
    [] nm = "And" -> (IF IsZero(l) THEN 1 ELSE 2)
    [] nm = "Or"  -> (IF ~IsZero(l) THEN 1 ELSE 2)

HasNaN(i) == IsNaN(i[1]) \/ IsNaN(i[2])
Contains0(i) == Key(i[1]) <= 0 /\ 0 <= Key(i[2])
IsZeroI(i) == IsZero(i[1]) /\ IsZero(i[2])
IntervalImplied(nm, l, r) ==
  IF HasNaN(l) \/ HasNaN(r) THEN 3 ELSE
  CASE nm = "Min" -> (IF Lt(l[2], r[1]) THEN 1 ELSE IF Lt(r[2], l[1]) THEN 2 ELSE 3)
    [] nm = "Max" -> (IF Lt(r[2], l[1]) THEN 1 ELSE IF Lt(l[2], r[1]) THEN 2 ELSE 3)
    [] nm = "And" -> (IF IsZeroI(l) THEN 1 ELSE IF ~Contains0(l) THEN 2 ELSE 3)
    [] nm = "Or"  -> (IF ~Contains0(l) THEN 1 ELSE IF IsZeroI(l) THEN 2 ELSE 3)

\* the value a point clause must produce, given its entry (used by C04)
PointValue(nm, l, r) ==
  LET e == PointImplied(nm, l, r) IN IF e = 1 THEN l ELSE r
==============================================================================
