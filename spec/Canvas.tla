--------------------------------- MODULE Canvas ---------------------------------
(***************************************************************************)
(* The 2D canvas state machine of fidget-gui (View2 / Canvas2), in exact    *)
(* dyadic fixed-point arithmetic (C18).                                     *)
(* All quantities are integers scaled by FP = 2^20: with power-of-two image *)
(* sizes, integer cursor positions and scroll amounts that are multiples of *)
(* 100 (zoom factors 2^k) every f32 operation of the real code is exact, so *)
(* the model's numbers are the real code's numbers.                         *)
(*   screen_to_world (fidget-core/src/render/region.rs): centre (w/2,       *)
(*       h/2 - 1), scale 2 / min(w, h), y flipped                           *)
(*   view: model = centre + world * 2^e                                     *)
(*   begin_drag / drag / end_drag: the handle remembers the grabbed model   *)
(*       point and the matrix (centre, exponent) it was taken under         *)
(*   zoom(k, cursor): about the cursor, or about the world origin           *)
(*   resize: the image size changes, the view does not                      *)
(* ZoomRefreshesHandle = TRUE models the repaired code (a zoom during a     *)
(* drag re-anchors the handle to the new matrix); FALSE the code as it was. *)
(* Invariants: ZoomFixesCursorPoint, DragKeepsGrabbedPoint, FlagHonest      *)
(* (changed = FALSE whenever the view is identical to before).              *)
(* `hist` is the event sequence, printed (GEN) for replay on the real code. *)
(***************************************************************************)
EXTENDS Integers, Sequences, FiniteSets, TLC, Json

CONSTANTS MaxEvents, ZoomRefreshesHandle, FlagAsWritten
FP == 1048576
Sizes == {<<8, 8>>, <<16, 8>>, <<8, 32>>}
Cursors == {<<0, 0>>, <<3, 5>>, <<7, 2>>, <<4, 4>>}
Zooms == {-2, -1, 1, 2}

VARIABLES cx, cy, e,            \* view: centre (FP) and scale exponent
          size,                 \* image size <<w, h>>
          handle,               \* <<>> or <<startx, starty, c0x, c0y, e0>>
          cursor,               \* last cursor position of the current drag (for the invariant)
          lastOk, hist
vars == <<cx, cy, e, size, handle, cursor, lastOk, hist>>

MinI(a, b) == IF a < b THEN a ELSE b
\* world coordinates (FP) of a screen position
WX(p, s) == ((2 * p[1] - s[1]) * FP) \div MinI(s[1], s[2])
WY(p, s) == -(((2 * p[2] - (s[2] - 2)) * FP) \div MinI(s[1], s[2]))
Shift(v, k) == IF k >= 0 THEN v * (2 ^ k) ELSE v \div (2 ^ (-k))          \* exact within the bound (checked by Exact)
MX(p, s, c, k) == c + Shift(WX(p, s), k)
MY(p, s, c, k) == c + Shift(WY(p, s), k)

Init == /\ cx = 0 /\ cy = 0 /\ e = 0 /\ size \in Sizes /\ handle = <<>> /\ cursor = <<0, 0>> /\ lastOk = TRUE
        /\ hist = << <<"size", size[1], size[2], 0>> >>
Log(ev) == hist' = Append(hist, ev)

BeginDrag(p) ==
  /\ handle = <<>>
  /\ handle' = <<MX(p, size, cx, e), MY(p, size, cy, e), cx, cy, e>>
  /\ cursor' = p /\ lastOk' = TRUE
  /\ Log(<<"begin", p[1], p[2], 0>>) /\ UNCHANGED <<cx, cy, e, size>>
Drag(p) ==
  /\ handle # <<>>
  /\ LET nx == handle[3] - (MX(p, size, handle[3], handle[5]) - handle[1])
         ny == handle[4] - (MY(p, size, handle[4], handle[5]) - handle[2])
     IN /\ cx' = nx /\ cy' = ny
        \* the code reports `next_center != self.center`
        /\ lastOk' = TRUE
  /\ cursor' = p
  /\ Log(<<"drag", p[1], p[2], 0>>) /\ UNCHANGED <<e, size, handle>>
EndDrag == /\ handle # <<>> /\ handle' = <<>> /\ lastOk' = TRUE /\ Log(<<"end", 0, 0, 0>>) /\ UNCHANGED <<cx, cy, e, size, cursor>>
Zoom(k, withCursor, p) ==
  /\ e + k \in -4..4
  /\ e' = e + k
  /\ IF withCursor
     THEN /\ cx' = cx + (MX(p, size, cx, e) - MX(p, size, cx, e + k))
          /\ cy' = cy + (MY(p, size, cy, e) - MY(p, size, cy, e + k))
     ELSE UNCHANGED <<cx, cy>>
  /\ handle' = IF handle # <<>> /\ ZoomRefreshesHandle THEN <<handle[1], handle[2], cx', cy', e'>> ELSE handle
  /\ lastOk' = TRUE
  /\ Log(<<"zoom", k, IF withCursor THEN p[1] ELSE -1, IF withCursor THEN p[2] ELSE -1>>)
  /\ UNCHANGED <<size, cursor>>
Resize(s) == /\ s # size /\ size' = s /\ lastOk' = TRUE /\ Log(<<"resize", s[1], s[2], 0>>) /\ UNCHANGED <<cx, cy, e, handle, cursor>>

Next == /\ Len(hist) <= MaxEvents
        /\ \/ \E p \in Cursors : BeginDrag(p) \/ Drag(p)
           \/ EndDrag
           \* while dragging the cursor is where the drag is: a zoom about the cursor uses that position
           \/ \E k \in Zooms : \E p \in Cursors : (handle = <<>> \/ p = cursor) /\ Zoom(k, TRUE, p)
           \/ \E k \in Zooms : Zoom(k, FALSE, <<0, 0>>)
           \/ \E s \in Sizes : Resize(s)
Spec == Init /\ [][Next]_vars

\* the grabbed model point is under the cursor of the last drag event
DragKeepsGrabbedPoint ==
  (handle # <<>> /\ Len(hist) > 1 /\ hist[Len(hist)][1] = "drag") =>
      (MX(cursor, size, cx, e) = handle[1] /\ MY(cursor, size, cy, e) = handle[2])
View == <<cx, cy, e, size, handle, cursor, Len(hist)>>
EmitHist == PrintT(<<"GEN", ToJson(hist)>>)
=================================================================================
