SPECIFICATION Spec
CONSTANTS TS <- TS31 W = 3 H = 3 FillMode = TRUE
INVARIANT Correct
INVARIANT WrittenOnce
INVARIANT InBuffer
INVARIANT StepsAgree
CHECK_DEADLOCK FALSE
