SPECIFICATION GenSpec
CONSTANTS TS <- TS21 W = 4 H = 2 FillMode = TRUE
INVARIANT EmitBitmap
CHECK_DEADLOCK FALSE
