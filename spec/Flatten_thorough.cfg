SPECIFICATION Spec
CONSTANT K = 5
INVARIANT Correct
CHECK_DEADLOCK FALSE
