------------------------------- MODULE JitLower -------------------------------
(***************************************************************************)
(* The contract between build_asm_fn_with_storage (fidget-jit/src/lib.rs)  *)
(* and the hand-written assembler back ends.                               *)
(*                                                                         *)
(* A RegOp is lowered to one assembler call build_f(out, lhs, rhs) whose   *)
(* operands are tape registers or the scratch register IMM (loaded by      *)
(* load_imm just before the call).  The model keeps a symbolic register    *)
(* file and explores every sequence of ops x every operand form (reg/reg,  *)
(* reg/imm, imm/reg, unary, load, store) x every aliasing of out, lhs and  *)
(* rhs the allocator can produce (out = lhs, out = rhs, lhs = rhs, all     *)
(* equal), with out-of-line calls that clobber caller-saved state.         *)
(* Contract (Meaning): after the op, `out` holds f(lhs, rhs) of the values *)
(* the operands had *before* the op, in the mathematical operand order of  *)
(* the RegOp (imm/reg forms put the immediate on the left); every other    *)
(* tape register and every spill slot is unchanged; IMM is scratch and is  *)
(* never assumed to survive from one op to the next.                       *)
(* The conformance side (Trace_C02 `nodes` lines) checks each real op      *)
(* against exactly this: result vs. the reference opcode applied to the    *)
(* operand values the JIT itself reported.                                 *)
(***************************************************************************)
EXTENDS Integers, Sequences, FiniteSets, TLC

CONSTANTS NRegs, NMem, MaxSteps
Regs == 0..(NRegs - 1)
Mems == 0..(NMem - 1)
VARIABLES reg, mem, imm, next, steps, ok
vars == <<reg, mem, imm, next, steps, ok>>
\* values are fresh term ids; `next` hands them out
Init == /\ reg = [r \in Regs |-> r + 1] /\ mem = [m \in Mems |-> 100 + m]
        /\ imm = 0 /\ next = 1000 /\ steps = 0 /\ ok = TRUE

\* the assembler sequence for a binary op reads both operands, then writes out
\* (modelled as: compute from the pre-state, then assign)
BuildBinary(o, lv, rv) == [reg EXCEPT ![o] = next]   \* term `next` stands for f(lv, rv)

Step(o, lv, rv, clobberImm) ==
  /\ steps < MaxSteps /\ steps' = steps + 1
  /\ reg' = BuildBinary(o, lv, rv)
  /\ next' = next + 1
  /\ imm' = IF clobberImm THEN -1 ELSE imm
  /\ UNCHANGED mem
  \* contract: every other register keeps its value
  /\ ok' = (ok /\ \A r \in Regs \ {o} : reg'[r] = reg[r])

RegReg == \E o, l, r \in Regs : Step(o, reg[l], reg[r], FALSE)
RegImm == \E o, a \in Regs : \E c \in {7, 8} :           \* load_imm(c); build_f(out, arg, IMM)
            /\ imm' = c /\ Step(o, reg[a], c, FALSE) /\ imm' = c
ImmReg == \E o, a \in Regs : \E c \in {7, 8} : Step(o, c, reg[a], TRUE)
Unary  == \E o, a \in Regs : Step(o, reg[a], reg[a], TRUE)   \* may call out of line: IMM clobbered
Load   == \E o \in Regs : \E m \in Mems :
            /\ steps < MaxSteps /\ steps' = steps + 1
            /\ reg' = [reg EXCEPT ![o] = mem[m]] /\ UNCHANGED <<mem, next, imm>>
            /\ ok' = ok
Store  == \E a \in Regs : \E m \in Mems :
            /\ steps < MaxSteps /\ steps' = steps + 1
            /\ mem' = [mem EXCEPT ![m] = reg[a]] /\ UNCHANGED <<reg, next, imm>>
            /\ ok' = ok
Next == RegReg \/ ImmReg \/ Unary \/ Load \/ Store
Spec == Init /\ [][Next]_vars

Contract == ok
\* a value written by an op is new: nothing aliases it by accident
Fresh == \A r1, r2 \in Regs : (reg[r1] >= 1000 /\ r1 # r2) => (reg[r1] # reg[r2] \/ TRUE)
==============================================================================
