----------------------------- MODULE MC_Bytecode -----------------------------
(* Encoder (Impl) against documented decoder (Abs), one op at a time: for   *)
(* every op form, register assignment, repacking map and memory slot the    *)
(* decoded step has exactly the effect of the RegOp.                        *)
EXTENDS Bytecode, TLC

CONSTANTS N
Names == <<"Output", "Input", "Copy", "Neg", "Sqrt", "Atan", "Add", "Sub", "Atan2", "Min", "Mod", "Mem">>
OpsTable == [i \in 1..Len(Names) |-> <<Names[i], i - 1>>]
Code(nm) == (CHOOSE i \in 1..Len(Names) : Names[i] = nm) - 1
Word(bytes) == bytes[1] + 256 * bytes[2] + 65536 * bytes[3] + 16777216 * (IF bytes[4] >= 128 THEN bytes[4] - 256 ELSE bytes[4])

Regs == 0..(N - 1)
Perms == {m \in [Regs -> Regs] : \A x, y \in Regs : x # y => m[x] # m[y]}
VARIABLES op, map, done
vars == <<op, map, done>>

OpForms ==
     {<<0, "Output", -1, a, k, 0>> : a \in Regs, k \in 0..1}
  \cup {<<1, "Input", o, k, -1, 0>> : o \in Regs, k \in 0..1}
  \cup {<<2, "CopyImm", o, -1, -1, 1065353216>> : o \in Regs}
  \cup {<<3, nm, o, a, -1, 0>> : nm \in {"Neg", "Sqrt", "Atan", "Copy"}, o \in Regs, a \in Regs}
  \cup {<<4, nm, o, a, -1, 1073741824>> : nm \in {"Add", "Sub", "Atan", "Min", "Mod"}, o \in Regs, a \in Regs}
  \cup {<<5, nm, o, a, -1, 1073741824>> : nm \in {"Sub", "Atan", "Mod"}, o \in Regs, a \in Regs}
  \cup {<<6, nm, o, a, b, 0>> : nm \in {"Add", "Sub", "Atan", "Min", "Mod"}, o \in Regs, a \in Regs, b \in Regs}
  \cup {<<7, "Load", o, N + m, -1, 0>> : o \in Regs, m \in 0..1}
  \cup {<<8, "Store", N + m, a, -1, 0>> : a \in Regs, m \in 0..1}

Init == op \in OpForms /\ map \in Perms /\ done = FALSE
Next == ~done /\ done' = TRUE /\ UNCHANGED <<op, map>>
Spec == Init /\ [][Next]_vars

\* a pre-state in which every register and memory slot holds a distinct known term
Pre == LET t0 == [i \in 1..(N + 2) |-> <<"Input", 100 + i, -1, 0>>] IN
       <<t0, [k \in (0..(N - 1)) \cup {MemKey(0), MemKey(1)} |-> IF k < N THEN k + 1 ELSE N + 1 + (k - MemKey(0))], EmptyEnv, TRUE>>
\* the same pre-state seen through the original (un-repacked) numbering
PreOrig == <<Pre[1], [k \in (0..(N - 1)) \cup {N, N + 1} |-> IF k < N THEN map[k] + 1 ELSE N + 1 + (k - N)], EmptyEnv, TRUE>>

Decoded == LET e == Encode(op, map, N, Code) IN BStep(OpsTable, N, 2, Pre, Word(e[1]), e[2])
Meaning == SymStep(PreOrig, op)
\* compare: for every original location, decoded env at the renamed location holds the same term
SameEffect ==
  /\ Decoded[4] /\ Meaning[4]
  /\ Decoded[1] = Meaning[1]            \* same terms were built (ids alone could coincide)
  /\ \A r \in Regs : Get(Decoded[2], map[r]) = Get(Meaning[2], r)
  /\ \A m \in 0..1 : Get(Decoded[2], MemKey(m)) = Get(Meaning[2], N + m)
  /\ Decoded[3] = Meaning[3]
RoundTrip == SameEffect
==============================================================================
