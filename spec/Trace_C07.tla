------------------------------ MODULE Trace_C07 ------------------------------
(***************************************************************************)
(* Trace specification for C07.  Each line is one heightmap rendered by    *)
(* the real voxel renderer together with the brute-force heightmap of the  *)
(* unsimplified shape over the whole grid and one root tile beyond its     *)
(* top.  For every column that has no voxel within the rounding band at or *)
(* above its surface:                                                      *)
(*   depth = 1 + index of the highest negative voxel (0 if none), clamped  *)
(*   to the grid depth when that voxel lies above the grid, inside the     *)
(*   overhang of the last root tile,                                       *)
(* and for a surface column the reported normal is the gradient of the     *)
(* shape at that voxel (same backend's gradient evaluator on the           *)
(* unsimplified shape; bit for bit, NaN~NaN, zero sign free).              *)
(***************************************************************************)
EXTENDS Integers, Sequences, FiniteSets, TLC, Json, IOUtils, Floats

Rec == ndJsonDeserialize(IOEnv.TRACE)
VARIABLE l
vars == <<l>>

Judged(r, k) == ~r.excluded[k] /\ ~r.ambiguous[k]
DepthOk(r, k) == ~Judged(r, k) \/ r.depth[k] = r.ref_depth[k]
\* a column whose hit lies above the grid (between the grid depth and the top of its last root tile) reports the grid
\* depth (ref_depth = d, the clamp); what normal it carries is not stated by the property
NormalOk(r, k) == ~Judged(r, k) \/ r.ref_depth[k] = 0 \/ r.depth[k] # r.ref_depth[k] \/ r.clamped[k]
                  \/ \A c \in 1..3 : SameZ(r.normal[k][c], r.ref_normal[k][c])

(* heightmaps of the voxel sets emitted by the Render3D.tla generator: the expected depth of every column is     *)
(* recomputed here from the voxel set itself (vbits in VoxSeq order: x fastest, then y, then z, vt0 x vt0 per layer) *)
VoxBit(r, x, y, z) == LET i == 1 + x + y * r.vt0 + z * r.vt0 * r.vt0 IN i <= Len(r.vbits) /\ r.vbits[i] = 1
RECURSIVE TopOf(_, _, _, _)
TopOf(r, x, y, z) == IF z < 0 THEN 0 ELSE IF VoxBit(r, x, y, z) THEN z + 1 ELSE TopOf(r, x, y, z - 1)
ExactOk(r) == "vbits" \notin DOMAIN r \/
              \A k \in 1..(r.w * r.h) : r.depth[k] = TopOf(r, (k - 1) % r.w, (k - 1) \div r.w, r.d - 1)

(* the screen-to-world matrix of the image size is the documented mapping (centre to the origin, y flipped, the shortest   *)
(* axis of the region spans -1 .. +1), computed by the recorder from the documentation alone                             *)
S2W(r) == IF r.s2w_ok THEN {} ELSE {"screen-to-world"}

Fails(r) ==
  IF ~r.ok THEN {"no-image"} \cup S2W(r) ELSE S2W(r) \cup
  IF Len(r.depth) # r.w * r.h THEN {"size"} ELSE
     (IF \A k \in 1..Len(r.depth) : DepthOk(r, k) THEN {} ELSE {"depth"})
  \cup (IF \A k \in 1..Len(r.depth) : NormalOk(r, k) THEN {} ELSE {"normal"})
  \cup (IF ExactOk(r) THEN {} ELSE {"model-height"})

Init == l = 1
Next == /\ l <= Len(Rec)
        /\ l' = l + 1
        /\ LET f == Fails(Rec[l]) IN f = {} \/ PrintT(<<"REJECT", Rec[l].id, f>>)
Spec == Init /\ [][Next]_vars
Consumed == TLCGet("stats").diameter - 1 = Len(Rec) \/ PrintT(<<"UNCONSUMED", TLCGet("stats").diameter, Len(Rec)>>)
==============================================================================
