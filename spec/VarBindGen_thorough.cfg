SPECIFICATION Spec
CONSTANTS NFree = 3  MaxEncounters = 5
INVARIANT EmitCase
CHECK_DEADLOCK FALSE
