------------------------------ MODULE Simplify ------------------------------
(***************************************************************************)
(* Impl-level model of VmData::simplify (fidget-core/src/vm/data.rs): the  *)
(* reverse walk over the parent SSA tape that consumes the choice array,   *)
(* renumbers live slots (bind / count), aliases CopyReg and decided        *)
(* clauses, and emits the child tape.  The embedded register allocator is  *)
(* modelled separately (Alloc.tla); the child it is fed is an SSA tape.    *)
(* Parent tapes are generated root first in step with the walk, and a      *)
(* choice in {L, R, B} is drawn for every choice clause, so every tape     *)
(* shape x every trace within the bound is explored.                       *)
(* Invariants: the child is a well-formed SSA tape (WellFormed), its root  *)
(* terms equal the parent's root terms after resolving each decided clause *)
(* to the chosen operand (Preserves), and the bookkeeping equation the     *)
(* code asserts (CodeAssert; AssertAsWritten = TRUE reproduces the         *)
(* multi-output defect that was repaired, see known_findings.json).        *)
(***************************************************************************)
EXTENDS Integers, Sequences, FiniteSets, TLC

CONSTANTS MaxLive, MaxOps, AssertAsWritten

U == -1
VARIABLES ptape,    \* parent tape, root first: <<kind, out, a, b, choice>>
          ctape,    \* child tape, root first
          bind,     \* parent slot -> child slot or U
          count,    \* number of child slots handed out
          pending,  \* parent slots used but not yet defined
          nslots, nouts
vars == <<ptape, ctape, bind, count, pending, nslots, nouts>>
Slots == 0..(2*MaxOps+2)

Init == /\ ptape = <<>> /\ ctape = <<>> /\ bind = [s \in Slots |-> U]
        /\ count = 0 /\ pending = {} /\ nslots = 0 /\ nouts = 0

\* get_or_insert_active on a list of slots, threading (bind, count)
RECURSIVE Goi(_, _, _)
Goi(b, c, ss) == IF ss = <<>> THEN <<b, c>>
                 ELSE IF b[Head(ss)] = U THEN Goi([b EXCEPT ![Head(ss)] = c], c + 1, Tail(ss))
                 ELSE Goi(b, c, Tail(ss))

Fresh(args) == Cardinality({a \in args : a \notin pending})

\* kinds: "out" (Output a), "def" (Input / CopyImm), "un", "bin", "copy" (CopyReg),
\*        "chrr" (choice reg reg), "chri" (choice reg imm)
DoOutput ==
  /\ Len(ptape) < MaxOps
  /\ \E a \in pending \cup {nslots} :
       /\ (a = nslots => Cardinality(pending) < MaxLive)
       /\ LET g == Goi(bind, count, <<a>>) IN
          /\ bind' = g[1] /\ count' = g[2]
          /\ ctape' = Append(ctape, <<"out", U, g[1][a], U>>)
       /\ ptape' = Append(ptape, <<"out", U, a, U, "-">>)
       /\ pending' = pending \cup {a}
       /\ nslots' = IF a = nslots THEN nslots + 1 ELSE nslots
       /\ nouts' = nouts + 1

\* generic step for an op with output o, args as, kind k, choice ch
Step(k, o, as, ch) ==
  /\ ptape' = Append(ptape, <<k, o, IF Len(as) > 0 THEN as[1] ELSE U, IF Len(as) > 1 THEN as[2] ELSE U, ch>>)
  /\ pending' = (pending \ {o}) \cup {as[i] : i \in 1..Len(as)}
  /\ nslots' = nslots + Fresh({as[i] : i \in 1..Len(as)})
  /\ UNCHANGED nouts
  /\ IF bind[o] = U
     THEN \* inactive: skipped (a choice, if any, is consumed: modelled by ch being recorded)
          UNCHANGED <<ctape, bind, count>>
     ELSE LET n == bind[o] IN
          CASE k = "def" -> /\ ctape' = Append(ctape, <<"def", n, o, U>>)   \* leaf label = parent slot
                            /\ UNCHANGED <<bind, count>>
            [] k \in {"un", "bin"} \/ (k \in {"chrr", "chri"} /\ ch = "B") ->
                 LET g == Goi(bind, count, as) IN
                 /\ bind' = g[1] /\ count' = g[2]
                 /\ ctape' = Append(ctape, <<k, n, g[1][as[1]], IF Len(as) > 1 THEN g[1][as[2]] ELSE IF k = "chri" THEN o ELSE U>>)
            [] k = "copy" ->
                 IF bind[as[1]] # U
                 THEN /\ ctape' = Append(ctape, <<"copy", n, bind[as[1]], U>>) /\ UNCHANGED <<bind, count>>
                 ELSE /\ bind' = [bind EXCEPT ![as[1]] = n] /\ UNCHANGED <<ctape, count>>
            [] k \in {"chrr", "chri"} /\ ch = "L" ->
                 IF bind[as[1]] # U
                 THEN /\ ctape' = Append(ctape, <<"copy", n, bind[as[1]], U>>) /\ UNCHANGED <<bind, count>>
                 ELSE /\ bind' = [bind EXCEPT ![as[1]] = n] /\ UNCHANGED <<ctape, count>>
            [] k = "chrr" /\ ch = "R" ->
                 IF bind[as[2]] # U
                 THEN /\ ctape' = Append(ctape, <<"copy", n, bind[as[2]], U>>) /\ UNCHANGED <<bind, count>>
                 ELSE /\ bind' = [bind EXCEPT ![as[2]] = n] /\ UNCHANGED <<ctape, count>>
            [] k = "chri" /\ ch = "R" ->
                 /\ ctape' = Append(ctape, <<"imm", n, o, U>>) /\ UNCHANGED <<bind, count>>  \* CopyImm of this clause's immediate

ArgOK(o, as) == Cardinality(pending) - 1 + Fresh(as) <= MaxLive

DoOp ==
  /\ Len(ptape) < MaxOps
  /\ \E o \in pending :
       \/ Step("def", o, <<>>, "-")
       \/ \E a \in (pending \ {o}) \cup {nslots} : ArgOK(o, {a}) /\
            (\/ Step("un", o, <<a>>, "-") \/ Step("copy", o, <<a>>, "-")
             \/ \E ch \in {"L", "R", "B"} : Step("chri", o, <<a>>, ch))
       \/ \E l \in (pending \ {o}) \cup {nslots} : \E r \in (pending \ {o}) \cup {nslots, nslots + 1} :
            /\ (r = nslots + 1 => l = nslots) /\ l # r /\ ArgOK(o, {l, r})
            /\ (\/ Step("bin", o, <<l, r>>, "-") \/ \E ch \in {"L", "R", "B"} : Step("chrr", o, <<l, r>>, ch))
\* leaves can always be closed so that every program can terminate
DoClose == /\ Len(ptape) >= MaxOps /\ \E o \in pending : Step("def", o, <<>>, "-")

Next == DoOutput \/ DoOp \/ DoClose
Spec == Init /\ [][Next]_vars

\* ---------------- semantics ----------------
PDef(s) == CHOOSE i \in 1..Len(ptape) : ptape[i][1] # "out" /\ ptape[i][2] = s
RECURSIVE PTerm(_)
PTerm(s) == LET op == ptape[PDef(s)] IN
  CASE op[1] = "def" -> <<"leaf", s>>
    [] op[1] = "un" -> <<"un", PTerm(op[3])>>
    [] op[1] = "bin" -> <<"bin", PTerm(op[3]), PTerm(op[4])>>
    [] op[1] = "copy" -> PTerm(op[3])
    [] op[1] = "chrr" -> IF op[5] = "L" THEN PTerm(op[3]) ELSE IF op[5] = "R" THEN PTerm(op[4])
                         ELSE <<"chrr", PTerm(op[3]), PTerm(op[4])>>
    [] op[1] = "chri" -> IF op[5] = "L" THEN PTerm(op[3]) ELSE IF op[5] = "R" THEN <<"imm", s>>
                         ELSE <<"chri", PTerm(op[3]), s>>
CDefs(s) == {i \in 1..Len(ctape) : ctape[i][1] # "out" /\ ctape[i][2] = s}
RECURSIVE CTerm(_)
CTerm(s) == LET op == ctape[CHOOSE i \in CDefs(s) : TRUE] IN
  CASE op[1] = "def" -> <<"leaf", op[3]>>
    [] op[1] = "imm" -> <<"imm", op[3]>>
    [] op[1] = "un" -> <<"un", CTerm(op[3])>>
    [] op[1] = "bin" -> <<"bin", CTerm(op[3]), CTerm(op[4])>>
    [] op[1] = "copy" -> CTerm(op[3])
    [] op[1] = "chrr" -> <<"chrr", CTerm(op[3]), CTerm(op[4])>>
    [] op[1] = "chri" -> <<"chri", CTerm(op[3]), op[4]>>
Terminal == pending = {} /\ nouts > 0
POuts == SelectSeq(ptape, LAMBDA op : op[1] = "out")
COuts == SelectSeq(ctape, LAMBDA op : op[1] = "out")
\* every child slot that is used is defined exactly once
WellFormed == Terminal => \A i \in 1..Len(ctape) :
     /\ (ctape[i][1] # "out" => Cardinality(CDefs(ctape[i][2])) = 1)
     /\ (ctape[i][1] \in {"out", "un", "bin", "copy", "chrr", "chri"} => Cardinality(CDefs(ctape[i][3])) = 1)
     /\ (ctape[i][1] \in {"bin", "chrr"} => Cardinality(CDefs(ctape[i][4])) = 1)
Preserves == Terminal /\ WellFormed => 
     /\ Len(POuts) = Len(COuts)
     /\ \A i \in 1..Len(POuts) : CTerm(COuts[i][3]) = PTerm(POuts[i][3])
CodeAssert == Terminal => count + (IF AssertAsWritten THEN 1 ELSE nouts) = Len(ctape)
==========================================================================
