SPECIFICATION Spec
CONSTANTS Reduced = FALSE MaxSteps = 2
INVARIANT Correct
INVARIANT CacheSound
VIEW View
CHECK_DEADLOCK FALSE
