SPECIFICATION Spec
CONSTANTS MaxEvents = 4  ZoomRefreshesHandle = TRUE  FlagAsWritten = FALSE
INVARIANT EmitHist
CHECK_DEADLOCK FALSE
