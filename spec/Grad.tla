--------------------------------- MODULE Grad ---------------------------------
(***************************************************************************)
(* Forward-mode dual arithmetic on the exact sub-language (C05).           *)
(* A dual is <<v, dx, dy, dz>> of integers; the chain rule is the          *)
(* definition.  Seeds are arbitrary integers (not only unit axes).         *)
(* ZDRun(ssa, zin) evaluates an SSA tape (Tapes encoding) and returns      *)
(* <<env, outs, ok>>; ok = FALSE means the program left the sub-language   *)
(* or hit a non-differentiable point (tie of min/max, zero of abs), where  *)
(* the property makes no claim.                                            *)
(***************************************************************************)
EXTENDS Integers, Sequences, FiniteSets, Tapes

DAdd(a, b) == <<a[1] + b[1], a[2] + b[2], a[3] + b[3], a[4] + b[4]>>
DSub(a, b) == <<a[1] - b[1], a[2] - b[2], a[3] - b[3], a[4] - b[4]>>
DNeg(a) == <<-a[1], -a[2], -a[3], -a[4]>>
DScale(k, a) == <<k * a[1], k * a[2], k * a[3], k * a[4]>>
DMul(a, b) == <<a[1] * b[1], a[1] * b[2] + b[1] * a[2], a[1] * b[3] + b[1] * a[3], a[1] * b[4] + b[1] * a[4]>>
DConst(c) == <<c, 0, 0, 0>>
DSmall(a) == \A k \in 1..4 : Small(a[k])

DUnOk(nm, a) == nm \in {"Neg", "Square", "Copy"} \/ (nm = "Abs" /\ a[1] # 0)
DUn(nm, a) == CASE nm = "Neg" -> DNeg(a) [] nm = "Square" -> DMul(a, a) [] nm = "Copy" -> a
                [] nm = "Abs" -> (IF a[1] < 0 THEN DNeg(a) ELSE a) [] OTHER -> a
DBinOk(nm, a, b) == nm \in {"Add", "Sub", "Mul"} \/ (nm \in {"Min", "Max"} /\ a[1] # b[1])
DBin(nm, a, b) == CASE nm = "Add" -> DAdd(a, b) [] nm = "Sub" -> DSub(a, b) [] nm = "Mul" -> DMul(a, b)
                    [] nm = "Min" -> (IF a[1] < b[1] THEN a ELSE b)
                    [] nm = "Max" -> (IF a[1] > b[1] THEN a ELSE b) [] OTHER -> a

DGet(env, k) == IF k \in DOMAIN env THEN env[k] ELSE <<0, 0, 0, 0>>
ZDStep(st, op, zin) ==
  LET env == st[1] outs == st[2] ok == st[3]
      c == op[1] nm == op[2] o == op[3] a == op[4] b == op[5] imm == op[6]
  IN IF ~ok THEN st ELSE
     CASE c = 0 -> <<env, Put(outs, b, DGet(env, a)), a \in DOMAIN env>>
       [] c = 1 -> <<Put(env, o, IF a + 1 \in DOMAIN zin THEN zin[a + 1] ELSE <<0, 0, 0, 0>>), outs, a + 1 \in DOMAIN zin>>
       [] c = 2 -> <<Put(env, o, DConst(IntOf(imm))), outs, IsSmallInt(imm)>>
       [] c = 3 -> <<Put(env, o, DUn(nm, DGet(env, a))), outs,
                     a \in DOMAIN env /\ DUnOk(nm, DGet(env, a)) /\ DSmall(DGet(env, a))>>
       [] c = 4 -> <<Put(env, o, DBin(nm, DGet(env, a), DConst(IntOf(imm)))), outs,
                     IsSmallInt(imm) /\ a \in DOMAIN env /\ DBinOk(nm, DGet(env, a), DConst(IntOf(imm))) /\ DSmall(DGet(env, a))>>
       [] c = 5 -> <<Put(env, o, DBin(nm, DConst(IntOf(imm)), DGet(env, a))), outs,
                     IsSmallInt(imm) /\ a \in DOMAIN env /\ DBinOk(nm, DConst(IntOf(imm)), DGet(env, a)) /\ DSmall(DGet(env, a))>>
       [] c = 6 -> <<Put(env, o, DBin(nm, DGet(env, a), DGet(env, b))), outs,
                     a \in DOMAIN env /\ b \in DOMAIN env /\ DBinOk(nm, DGet(env, a), DGet(env, b))
                     /\ DSmall(DGet(env, a)) /\ DSmall(DGet(env, b))>>
       [] OTHER -> <<env, outs, FALSE>>
RECURSIVE ZDExec(_, _, _, _)
ZDExec(st, tape, i, zin) == IF i < 1 THEN st ELSE ZDExec(ZDStep(st, tape[i], zin), tape, i - 1, zin)
ZDRun(ssa, zin) == ZDExec(<<EmptyEnv, EmptyEnv, TRUE>>, ssa, Len(ssa), zin)
===============================================================================
