SPECIFICATION Spec
CONSTANTS NRegs = 3  NMem = 2  MaxSteps = 3
INVARIANT Contract
CHECK_DEADLOCK FALSE
