------------------------------- MODULE MC_Shapes -------------------------------
(* Enumerates shape terms for replay and checks algebraic laws of Side on the    *)
(* lattice: complement is an involution, De Morgan, move by o then by -o is the  *)
(* identity, four quarter turns are the identity, a reflection is an involution. *)
EXTENDS Shapes, TLC, Json, SequencesExt
CONSTANTS Deep
Prims == { <<"sphere", <<0, 0, 0>>, 2>>, <<"sphere", <<1, -1, 0>>, 1>>, <<"circle", <<0, 1>>, 2>>,
           <<"box", <<-1, 0, -2>>, <<2, 1, 1>>>>, <<"rect", <<-2, -1>>, <<1, 2>>>>,
           <<"box", <<-2, -1, 0>>, <<2, 1, 3>>>>,          \* all six bounds in general position (no two equal along different axes)
           <<"plane", "X", 1>>, <<"plane", "Y", 0>>, <<"plane", "Z", -1>>, <<"plane", "XY", 1>>, <<"plane", "YZ", 0>>, <<"plane", "ZX", -1>> }
Offsets == {<<1, 0, 0>>, <<0, -2, 1>>, <<-1, 1, 2>>}
Scales == {<<2, 1, 1>>, <<1, -1, 2>>, <<-2, 2, 1>>}
Transforms(s) ==
     {<<"move", s, o>> : o \in Offsets}
  \cup {<<"scale", s, k>> : k \in Scales} \cup {<<"scaleu", s, k>> : k \in {2, -1}}
  \cup {<<"reflect", s, a, o>> : a \in {"X", "Y", "Z"}, o \in {0, 1}} \cup {<<"reflectxy", s>>}
  \cup {<<"rot", s, a, q, c>> : a \in {"X", "Y", "Z"}, q \in 1..3, c \in {<<0, 0, 0>>, <<1, 0, -1>>}}
  \cup {<<"repeatx", s, r, o>> : r \in {1, 2}, o \in {0, 1}} \cup {<<"repeatx", s, 1, 3>>, <<"repeatx", s, 1, -4>>}   \* windows beyond one period from the origin
  \cup {<<"extrudez", s, -1, 2>>}
Revolved == {<<"revolvey", <<"circle", <<2, 0>>, 1>>, 0>>, <<"revolvey", <<"rect", <<1, -1>>, <<3, 1>>>>, 0>>,
             <<"revolvey", <<"circle", <<3, 1>>, 2>>, 0>>, <<"revolvey", <<"move", <<"rect", <<0, 0>>, <<2, 2>>>>, <<1, -1, 0>>>>, 0>>,
             \* about a line other than the Y axis (offset 1, -1, 2)
             <<"revolvey", <<"circle", <<3, 0>>, 1>>, 1>>, <<"revolvey", <<"rect", <<1, -1>>, <<2, 1>>>>, -1>>,
             <<"revolvey", <<"rect", <<3, 0>>, <<4, 2>>>>, 2>>, <<"revolvey", <<"circle", <<0, 1>>, 1>>, -1>>}
Level1 == UNION {Transforms(s) : s \in Prims} \cup Revolved
Level2 == UNION {Transforms(s) : s \in (IF Deep THEN Level1 ELSE {t \in Level1 : t[1] \in {"move", "rot", "scale", "revolvey"}})}
Csg == LET a == <<"sphere", <<0, 0, 0>>, 2>>  b == <<"box", <<-1, 0, -2>>, <<2, 1, 1>>>>
           c == <<"plane", "Z", 0>>  d == <<"sphere", <<1, 1, 1>>, 2>>  e == <<"move", <<"box", <<0, 0, 0>>, <<1, 1, 1>>>>, <<1, 0, 0>>>> IN
       { <<"union", <<a, b>>>>, <<"union", <<a, b, c>>>>, <<"union", <<a, b, c, d, e>>>>, <<"union", <<e, d, c, b, a, e, d>>>>,
         <<"inter", <<a, b>>>>, <<"inter", <<a, b, c>>>>, <<"inter", <<a, b, c, d, e>>>>, <<"inter", <<d, c, b, a, e, c>>>>, <<"inter", <<a, c, d, b, e, a, d>>>>,
         <<"diff", a, b>>, <<"diff", b, d>>, <<"inv", a>>, <<"inv", <<"union", <<a, c>>>>>>, <<"union", <<a>>>>, <<"inter", <<d>>>>,
         \* no input at all: the union of nothing is empty, the intersection of nothing is everything, also as inputs
         <<"union", <<>>>>, <<"inter", <<>>>>, <<"inv", <<"union", <<>>>>>>,
         <<"union", << <<"inter", <<>>>>, a>>>>, <<"union", <<a, <<"union", <<>>>>>>>>, <<"union", << <<"inter", <<>>>> >>>>,
         <<"inter", << <<"union", <<>>>>, b>>>>, <<"inter", <<b, <<"inter", <<>>>>>>>>, <<"diff", a, <<"inter", <<>>>>>>, <<"diff", <<"inter", <<>>>>, b>> }
AllShapes == Prims \cup Level1 \cup Level2 \cup Csg

Lattice == {<<x, y, z>> : x \in -1..2, y \in -1..1, z \in -2..1}
\* one successor per shape, spread over Parts initial states so that the search parallelises
\* (TLC computes initial states and their invariants on a single thread)
Parts == 16
ShapeSeq == SetToSeq(AllShapes)
VARIABLES cur, part
Init == cur = <<"none">> /\ part \in 0..(Parts - 1)
Next == /\ cur = <<"none">>
        /\ \E i \in 1..Len(ShapeSeq) : i % Parts = part /\ cur' = ShapeSeq[i]
        /\ UNCHANGED part
Spec == Init /\ [][Next]_<<cur, part>>
Emit == cur = <<"none">> \/ PrintT(<<"GEN", ToJson(cur)>>)

Decided(s, p) == Side(s, I3(p)) # Undef
Involution == cur = <<"none">> \/ \A p \in Lattice : Side(<<"inv", <<"inv", cur>>>>, I3(p)) = Side(cur, I3(p))
DeMorgan == cur = <<"none">> \/ \A p \in Lattice : LET b == <<"box", <<-1, 0, -2>>, <<2, 1, 1>>>> IN
              Side(<<"inv", <<"union", <<cur, b>>>>>>, I3(p)) = Side(<<"inter", << <<"inv", cur>>, <<"inv", b>> >>>>, I3(p))
MoveBack == cur = <<"none">> \/ \A p \in Lattice : \A o \in Offsets :
              Side(<<"move", <<"move", cur, o>>, <<-o[1], -o[2], -o[3]>>>>, I3(p)) = Side(cur, I3(p))
FourQuarters == cur = <<"none">> \/ \A p \in Lattice : \A a \in {"X", "Y", "Z"} :
              Side(<<"rot", <<"rot", cur, a, 1, <<1, 0, -1>>>>, a, 3, <<1, 0, -1>>>>, I3(p)) = Side(cur, I3(p))
ReflectTwice == cur = <<"none">> \/ \A p \in Lattice : \A a \in {"X", "Y", "Z"} :
              Side(<<"reflect", <<"reflect", cur, a, 1>>, a, 1>>, I3(p)) = Side(cur, I3(p))
================================================================================
