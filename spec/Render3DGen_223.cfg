SPECIFICATION GenSpec
CONSTANTS TS <- TS21 W = 2 H = 2 D = 3 Clamp = "gt-d"
INVARIANT EmitVoxels
CHECK_DEADLOCK FALSE
