SPECIFICATION Spec
CONSTANTS Guarded = TRUE  MaxDepth = 3
INVARIANT NumericEnclosure
INVARIANT HashEnclosure
CHECK_DEADLOCK FALSE
