SPECIFICATION Spec
CONSTANTS N = 3  MaxLive = 5  MaxOps = 7
INVARIANT Valid
INVARIANT Consistent
INVARIANT RegsInverse
INVARIANT Done
INVARIANT NoPanic
INVARIANT SlotBound
VIEW View
CHECK_DEADLOCK FALSE
