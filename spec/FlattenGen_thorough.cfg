SPECIFICATION Spec
CONSTANT K = 4
INVARIANT Correct
INVARIANT Emit
CHECK_DEADLOCK FALSE
