-------------------------------- MODULE Context --------------------------------
(***************************************************************************)
(* The expression arena of fidget-core/src/context/mod.rs (C12).           *)
(*                                                                         *)
(* Arena: `insert` returns the index of the first equal op, so node ids    *)
(* are insertion order and building the same expression twice yields the   *)
(* same node.  Constructors rewrite before inserting; the rewrite table is *)
(* transcribed here over operand classes:                                  *)
(*   op_unary / op_binary   constant folding                               *)
(*   add   a = b -> a * 2 ; 0 + b -> b ; a + 0 -> a ; operands sorted      *)
(*   mul   a = b -> square(a) ; 1 * b -> b ; a * 1 -> a ; 0 * b -> 0 ;     *)
(*         a * 0 -> 0 ; operands sorted                                    *)
(*   min / max   a = b -> a ; operands sorted                              *)
(*   and   constant lhs: 0 -> lhs, otherwise rhs                           *)
(*   or    constant lhs: non-zero -> lhs, 0 -> rhs ; rhs constant 0 -> lhs *)
(*   sub   0 - b -> neg(b) ; a - 0 -> a                                    *)
(*   div   0 / b -> 0 ; a / 1 -> a                                         *)
(* The model builds every expression of up to MaxCalls constructor calls   *)
(* over two variables and the constants -1, 0, 1, 2 and checks:            *)
(*   Meaning  - the node evaluates, at every integer assignment, to what   *)
(*              the unrewritten expression evaluates to operation by       *)
(*              operation (division only where exact);                     *)
(*   NoDup    - the arena never holds two equal ops;                       *)
(*   Stable   - repeating a call returns the same node and does not grow   *)
(*              the arena;                                                 *)
(*   NoImmImm - no unary / binary op whose operands are all constants is   *)
(*              ever inserted (flattening would panic on f(imm, imm)).     *)
(* It also enumerates the operand-class cases (GEN lines) that the harness *)
(* turns into one implementation test each.                                *)
(***************************************************************************)
EXTENDS Integers, Sequences, FiniteSets, TLC, Json

CONSTANTS MaxCalls
Consts == {-1, 0, 1, 2}
VarNames == {"x", "y"}
UnOps == {"Neg", "Abs", "Square", "Not"}
BinOps == {"Add", "Sub", "Mul", "Div", "Min", "Max", "And", "Or"}

\* an op in the arena: <<"var", name>> | <<"const", c>> | <<"un", op, node>> | <<"bin", op, node, node>>
\* `direct[n]` remembers the unrewritten expression the node was asked to mean (a term tree)
VARIABLES arena, direct, calls, lastcall, lastnode, ok
vars == <<arena, direct, calls, lastcall, lastnode, ok>>

Find(ar, op) == IF \E i \in 1..Len(ar) : ar[i] = op THEN CHOOSE i \in 1..Len(ar) : ar[i] = op ELSE 0
Insert(ar, op) == LET i == Find(ar, op) IN IF i > 0 THEN <<ar, i>> ELSE <<Append(ar, op), Len(ar) + 1>>
IsConst(ar, n) == ar[n][1] = "const"
CVal(ar, n) == ar[n][2]
AbsI(v) == IF v < 0 THEN -v ELSE v

ZUnary(op, a) == CASE op = "Neg" -> -a [] op = "Abs" -> AbsI(a) [] op = "Square" -> a * a [] op = "Not" -> (IF a = 0 THEN 1 ELSE 0)
\* division is only defined here where exact
DivOk(a, b) == b # 0 /\ a % AbsI(b) = 0
ZBinary(op, a, b) ==
  CASE op = "Add" -> a + b [] op = "Sub" -> a - b [] op = "Mul" -> a * b
    [] op = "Div" -> (IF b > 0 THEN a \div b ELSE IF b < 0 THEN (-a) \div (-b) ELSE 0)
    [] op = "Min" -> (IF a < b THEN a ELSE b) [] op = "Max" -> (IF a > b THEN a ELSE b)
    [] op = "And" -> (IF a = 0 THEN a ELSE b) [] op = "Or" -> (IF a # 0 THEN a ELSE b)

\* ---- constructors (return <<arena', node>>) ----
Constant(ar, c) == Insert(ar, <<"const", c>>)
OpUnary(ar, op, a) == IF IsConst(ar, a) THEN Constant(ar, ZUnary(op, CVal(ar, a))) ELSE Insert(ar, <<"un", op, a>>)
OpBinary(ar, op, a, b) ==
  IF IsConst(ar, a) /\ IsConst(ar, b)
  THEN (IF op = "Div" /\ ~DivOk(CVal(ar, a), CVal(ar, b)) THEN Insert(ar, <<"bin", op, a, b>>)   \* outside Z: left unfolded
        ELSE Constant(ar, ZBinary(op, CVal(ar, a), CVal(ar, b))))
  ELSE Insert(ar, <<"bin", op, a, b>>)
MinN(a, b) == IF a < b THEN a ELSE b
MaxN(a, b) == IF a > b THEN a ELSE b
Commutative(ar, op, a, b) == OpBinary(ar, op, MinN(a, b), MaxN(a, b))
IsC(ar, n, c) == IsConst(ar, n) /\ CVal(ar, n) = c

RECURSIVE Build(_, _, _, _)
Build(ar, op, a, b) ==
  CASE op = "Add" ->
         (IF a = b THEN LET two == Constant(ar, 2) IN Build(two[1], "Mul", a, two[2])
          ELSE IF IsC(ar, a, 0) THEN <<ar, b>> ELSE IF IsC(ar, b, 0) THEN <<ar, a>>
          ELSE Commutative(ar, "Add", a, b))
    [] op = "Mul" ->
         (IF a = b THEN OpUnary(ar, "Square", a)
          ELSE IF IsC(ar, a, 1) THEN <<ar, b>> ELSE IF IsC(ar, b, 1) THEN <<ar, a>>
          ELSE IF IsC(ar, a, 0) THEN <<ar, a>> ELSE IF IsC(ar, b, 0) THEN <<ar, b>>
          ELSE Commutative(ar, "Mul", a, b))
    [] op \in {"Min", "Max"} -> (IF a = b THEN <<ar, a>> ELSE Commutative(ar, op, a, b))
    [] op = "And" -> (IF IsConst(ar, a) THEN (IF CVal(ar, a) = 0 THEN <<ar, a>> ELSE <<ar, b>>) ELSE OpBinary(ar, "And", a, b))
    [] op = "Or" -> (IF IsConst(ar, a) THEN (IF CVal(ar, a) # 0 THEN <<ar, a>> ELSE <<ar, b>>)
                     ELSE IF IsC(ar, b, 0) THEN <<ar, a>> ELSE OpBinary(ar, "Or", a, b))
    [] op = "Sub" -> (IF IsC(ar, a, 0) THEN OpUnary(ar, "Neg", b) ELSE IF IsC(ar, b, 0) THEN <<ar, a>> ELSE OpBinary(ar, "Sub", a, b))
    [] op = "Div" -> (IF IsC(ar, a, 0) THEN <<ar, a>> ELSE IF IsC(ar, b, 1) THEN <<ar, a>> ELSE OpBinary(ar, "Div", a, b))

\* ---- meaning ----
RECURSIVE EvalNode(_, _, _)
EvalNode(ar, n, env) ==
  LET op == ar[n] IN
  CASE op[1] = "var" -> env[op[2]]
    [] op[1] = "const" -> op[2]
    [] op[1] = "un" -> ZUnary(op[2], EvalNode(ar, op[3], env))
    [] op[1] = "bin" -> ZBinary(op[2], EvalNode(ar, op[3], env), EvalNode(ar, op[4], env))
\* exactness of every division met while evaluating
RECURSIVE Defined(_, _, _)
Defined(ar, n, env) ==
  LET op == ar[n] IN
  CASE op[1] \in {"var", "const"} -> TRUE
    [] op[1] = "un" -> Defined(ar, op[3], env)
    [] op[1] = "bin" -> Defined(ar, op[3], env) /\ Defined(ar, op[4], env)
                        /\ (op[2] = "Div" => DivOk(EvalNode(ar, op[3], env), EvalNode(ar, op[4], env)))
\* a direct (unrewritten) expression is a term over node-free leaves
RECURSIVE EvalTerm(_, _)
EvalTerm(t, env) == CASE t[1] = "var" -> env[t[2]] [] t[1] = "const" -> t[2]
                      [] t[1] = "un" -> ZUnary(t[2], EvalTerm(t[3], env))
                      [] t[1] = "bin" -> ZBinary(t[2], EvalTerm(t[3], env), EvalTerm(t[4], env))
RECURSIVE TermDefined(_, _)
TermDefined(t, env) == CASE t[1] \in {"var", "const"} -> TRUE
                         [] t[1] = "un" -> TermDefined(t[3], env)
                         [] t[1] = "bin" -> TermDefined(t[3], env) /\ TermDefined(t[4], env)
                                            /\ (t[2] = "Div" => DivOk(EvalTerm(t[3], env), EvalTerm(t[4], env)))
Envs == [VarNames -> -2..2]

Init == /\ arena = << <<"var", "x">>, <<"var", "y">> >> /\ direct = << <<"var", "x">>, <<"var", "y">> >>
        /\ calls = 0 /\ lastcall = <<>> /\ lastnode = 0 /\ ok = TRUE
RECURSIVE TermOfNode(_, _)
TermOfNode(ar, n) == LET op == ar[n] IN
  CASE op[1] \in {"var", "const"} -> op
    [] op[1] = "un" -> <<"un", op[2], TermOfNode(ar, op[3])>>
    [] op[1] = "bin" -> <<"bin", op[2], TermOfNode(ar, op[3]), TermOfNode(ar, op[4])>>
Record(r, term, call) ==
  /\ arena' = r[1]
  \* new nodes: the returned node means `term`; helper nodes a rewrite inserted on the way
  \* (the 2 of a + a) mean themselves; an existing node keeps its recorded meaning
  /\ direct' = [i \in 1..Len(r[1]) |-> IF i <= Len(direct) THEN direct[i]
                                       ELSE IF i = r[2] THEN term ELSE TermOfNode(r[1], i)]
  /\ ok' = (ok /\ \A env \in Envs : TermDefined(term, env) =>
                    (Defined(r[1], r[2], env) /\ EvalNode(r[1], r[2], env) = EvalTerm(term, env)))
  /\ lastcall' = call /\ lastnode' = r[2] /\ calls' = calls + 1
CallConst == \E c \in Consts : Record(Constant(arena, c), <<"const", c>>, <<"const", c>>)
CallUnary == \E op \in UnOps, a \in 1..Len(arena) : a <= Len(direct) /\
               Record(OpUnary(arena, op, a), <<"un", op, direct[a]>>, <<"un", op, a>>)
CallBinary == \E op \in BinOps, a \in 1..Len(arena), b \in 1..Len(arena) : a <= Len(direct) /\ b <= Len(direct) /\
               Record(Build(arena, op, a, b), <<"bin", op, direct[a], direct[b]>>, <<"bin", op, a, b>>)
\* repeat the last call: same node, arena unchanged
Repeat == /\ lastcall # <<>> /\ lastcall[1] = "bin"
          /\ LET r == Build(arena, lastcall[2], lastcall[3], lastcall[4]) IN
             /\ ok' = (ok /\ r[2] = lastnode /\ r[1] = arena)
             /\ UNCHANGED <<arena, direct, lastcall, lastnode>> /\ calls' = calls + 1
\* variables are nodes like any other: asking for one inserts it (or finds it)
CallVar == \E v \in VarNames : Record(Insert(arena, <<"var", v>>), <<"var", v>>, <<"var", v>>)
\* Context::clear: the arena is emptied; every node handed out before is invalid, and what is built afterwards must
\* not depend on what was there before (Meaning and NoDup keep holding for the new arena)
Clear == /\ arena' = <<>> /\ direct' = <<>> /\ lastcall' = <<>> /\ lastnode' = 0
         /\ calls' = calls + 1 /\ UNCHANGED ok
Next == calls < MaxCalls /\ (CallConst \/ CallUnary \/ CallBinary \/ Repeat \/ CallVar \/ Clear)
Spec == Init /\ [][Next]_vars

\* helper nodes (a constant inserted by a rewrite, e.g. the 2 of a + a) have no recorded term
Meaning == ok
NoDup == \A i, j \in 1..Len(arena) : i # j => arena[i] # arena[j]
NoImmImm == \A i \in 1..Len(arena) :
   /\ (arena[i][1] = "un" => ~IsConst(arena, arena[i][3]))
   /\ (arena[i][1] = "bin" /\ arena[i][2] # "Div" => ~(IsConst(arena, arena[i][3]) /\ IsConst(arena, arena[i][4])))
================================================================================
