SPECIFICATION SpecNoCollapse
CONSTANT NoCollapseRun = TRUE
CONSTANT Depth = 2
CONSTANT NFree = 9
INVARIANT ManifoldIffNoSharedAmbiguous
INVARIANT EmitField
CHECK_DEADLOCK FALSE
