--------------------------- MODULE IntervalClasses ---------------------------
(***************************************************************************)
(* The case classes that the interval operators of                         *)
(* fidget-core/src/types/interval.rs (and the JIT interval assembler)      *)
(* distinguish, enumerated so that generation provably visits each one.    *)
(* TLC does not compute sin or exp; it enumerates *which case* an operand  *)
(* box falls in.  One GEN line per class; the harness draws several        *)
(* concrete boxes for each and the trace specification judges enclosure.   *)
(*   periodic (sin, cos, tan): quadrant of the lower bound, number of      *)
(*       quarter periods spanned (0 = same quadrant .. 4 = a full period   *)
(*       or more, 5 = same quadrant but wider than a half period), period  *)
(*       offset (negative angles, near zero, far out)                      *)
(*   bounded domain (asin, acos): each bound below / at / inside / at /    *)
(*       above the ends of [-1, 1]                                         *)
(*   half-line domain (sqrt, ln, recip): sign class of the box             *)
(*   rounding (floor, ceil, round): each bound just below / at / just      *)
(*       above an integer or a half-integer, small and beyond 2^23         *)
(*   sign-sensitive unary (neg, abs, square, not, exp, atan)               *)
(*   binary (all twelve): sign class of each operand x operand form        *)
(***************************************************************************)
EXTENDS Integers, Sequences, FiniteSets, TLC, Json

SignClass == {"neg", "pos", "straddle", "zero", "touch-lo", "touch-hi", "huge", "tiny"}
Periodic == {"Sin", "Cos", "Tan"}
Bounded == {"Asin", "Acos"}
HalfLine == {"Sqrt", "Ln", "Recip"}
Rounding == {"Floor", "Ceil", "Round"}
SignUnary == {"Neg", "Abs", "Square", "Not", "Exp", "Atan"}
Binary == {"Add", "Sub", "Mul", "Div", "Atan", "Min", "Max", "Compare", "Mod", "And", "Or", "Mix"}
Forms == {"rr", "ri", "ir"}
EndKind == {"int-below", "int", "int-above", "half-below", "half", "half-above"}
Mag == {"small", "mid", "beyond23"}
DomPos == {"below", "at-lo", "inside", "at-hi", "above"}

Classes ==
     {[op |-> o, kind |-> "periodic", q |-> q, span |-> s, off |-> k] : o \in Periodic, q \in 0..3, s \in 0..5, k \in {-3, 0, 7}}
  \cup {[op |-> o, kind |-> "bounded", lo |-> a, hi |-> b] : o \in Bounded, a \in DomPos, b \in DomPos}
  \cup {[op |-> o, kind |-> "sign", a |-> c] : o \in HalfLine \cup SignUnary, c \in SignClass}
  \cup {[op |-> o, kind |-> "rounding", lo |-> a, hi |-> b, mag |-> m, negative |-> n] :
            o \in Rounding, a \in EndKind, b \in EndKind, m \in Mag, n \in BOOLEAN}
  \cup {[op |-> o, kind |-> "binary", a |-> c, b |-> d, form |-> f] : o \in Binary, c \in SignClass, d \in SignClass, f \in Forms}

VARIABLE cur
vars == <<cur>>
Init == cur \in Classes          \* every class is an initial state: the enumeration is linear
Next == UNCHANGED cur
Spec == Init /\ [][Next]_vars
Emit == PrintT(<<"GEN", ToJson(cur)>>)
==============================================================================
