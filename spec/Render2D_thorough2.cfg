SPECIFICATION Spec
CONSTANTS TS <- TS3 W = 3 H = 3 FillMode = FALSE
INVARIANT Correct
INVARIANT WrittenOnce
INVARIANT InBuffer
INVARIANT StepsAgree
CHECK_DEADLOCK FALSE
