-------------------------------- MODULE Reuse --------------------------------
(***************************************************************************)
(* Histories over recycled objects (C10).                                  *)
(*                                                                         *)
(* Three functions of different shapes (slots, choice clauses, outputs)    *)
(* share one tracing evaluator, one bulk evaluator, one simplification     *)
(* workspace and a pool of recycled function storage.  Vectors keep their  *)
(* old contents when they are recycled: an element is "clean" (reset to    *)
(* the neutral value the next use relies on) or "dirty" (left over from    *)
(* whatever used the object before).  The reset code is transcribed:       *)
(*   TracingVmEval::resize_slots / JitTracingEval::eval :                  *)
(*        choices.resize(k, Unknown); choices.fill(Unknown)                *)
(*        (choices are OR-ed into, so every entry must be Unknown first)   *)
(*   BulkVmEval / JitBulkEval::eval : out.resize_with(output_count)        *)
(*        (the reported number of rows is the length of that vector)       *)
(*   VmWorkspace::reset : bind.fill(MAX); bind.resize(len, MAX);           *)
(*        allocations.fill(U); allocations.resize(len, U)                  *)
(*   VmData::simplify : tape.ssa.reset() before pushing ops                *)
(* Invariant Independent: whatever the history, each use starts from clean *)
(* contents of exactly the size the current function needs, i.e. a result  *)
(* depends only on the function and the inputs.                            *)
(* The model also emits every history (GEN lines) for replay on the real   *)
(* objects, where each result is compared with fresh objects.              *)
(***************************************************************************)
EXTENDS Integers, Sequences, FiniteSets, TLC, Json

CONSTANTS MaxLen
Funs == 1..3
NCh   == <<0, 2, 1>>     \* choice clauses
NOut  == <<1, 2, 3>>     \* outputs
NSsa  == <<3, 7, 5>>     \* SSA tape length

VARIABLES choices,   \* tracing evaluator's choice vector: seq of "clean" / "dirty"
          rows,      \* bulk evaluator's output rows vector (its length is what is reported)
          bind,      \* workspace binding vector
          pool,      \* recycled function storage: seq of SSA-tape vectors (dirty contents)
          simplified,\* which functions currently have a simplified child alive
          ok, hist
vars == <<choices, rows, bind, pool, simplified, ok, hist>>

Fill(v, x) == [i \in 1..Len(v) |-> x]
Resize(v, k, x) == [i \in 1..k |-> IF i <= Len(v) THEN v[i] ELSE x]
AllClean(v, k) == Len(v) = k /\ \A i \in 1..k : v[i] = "clean"
Dirty(k) == [i \in 1..k |-> "dirty"]

Init == /\ choices = <<>> /\ rows = <<>> /\ bind = <<>> /\ pool = <<>>
        /\ simplified = {} /\ ok = TRUE /\ hist = <<>>

\* a tracing evaluation (point or interval) of function f with the shared evaluator
Trace(kind, f) ==
  LET c1 == Fill(Resize(choices, NCh[f], "clean"), "clean") IN   \* resize, then fill(Unknown)
  /\ ok' = (ok /\ AllClean(c1, NCh[f]))
  /\ choices' = Dirty(NCh[f])                                     \* entries OR-ed by the evaluation
  /\ hist' = Append(hist, <<kind, f, 0>>)
  /\ UNCHANGED <<rows, bind, pool, simplified>>

\* a bulk evaluation (float or grad) of function f on n samples
Bulk(kind, f, n) ==
  LET r1 == Resize(rows, NOut[f], "clean") IN                     \* out.resize_with(output_count, Vec::new)
  /\ ok' = (ok /\ Len(r1) = NOut[f])
  /\ rows' = Dirty(NOut[f])
  /\ hist' = Append(hist, <<kind, f, n>>)
  /\ UNCHANGED <<choices, bind, pool, simplified>>

\* simplify f with a trace, reusing the workspace and (if any) recycled storage
Simplify(f) ==
  /\ f \notin simplified /\ NCh[f] > 0
  /\ LET b1 == Resize(Fill(bind, "clean"), NSsa[f], "clean")      \* bind.fill(MAX); bind.resize(len, MAX)
         st == IF Len(pool) > 0 THEN pool[Len(pool)] ELSE <<>>
         st1 == <<>>                                               \* tape.ssa.reset(): the old ops are cleared
     IN /\ ok' = (ok /\ AllClean(b1, NSsa[f]) /\ st1 = <<>>)
        /\ bind' = Dirty(NSsa[f])
        /\ pool' = IF Len(pool) > 0 THEN SubSeq(pool, 1, Len(pool) - 1) ELSE pool
  /\ simplified' = simplified \cup {f}
  /\ hist' = Append(hist, <<"simplify", f, 0>>)
  /\ UNCHANGED <<choices, rows>>

\* drop the simplified child of f and hand its storage back to the pool
Recycle(f) ==
  /\ f \in simplified
  /\ simplified' = simplified \ {f}
  /\ pool' = Append(pool, Dirty(NSsa[f]))
  /\ hist' = Append(hist, <<"recycle", f, 0>>)
  /\ UNCHANGED <<choices, rows, bind, ok>>

Next == /\ Len(hist) < MaxLen
        /\ \E f \in Funs :
             \/ Trace("point", f) \/ Trace("interval", f)
             \/ \E n \in {1, 9} : Bulk("float", f, n) \/ Bulk("grad", f, n)
             \/ Simplify(f) \/ Recycle(f)
Spec == Init /\ [][Next]_vars

Independent == ok
View == <<choices, rows, bind, pool, simplified, ok, Len(hist)>>
EmitHist == (Len(hist) = MaxLen) => PrintT(<<"GEN", ToJson(hist)>>)
==============================================================================
