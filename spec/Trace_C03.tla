------------------------------ MODULE Trace_C03 ------------------------------
(***************************************************************************)
(* Trace specification for C03 (interval enclosure).                       *)
(*  `e2e`   : the property as stated.  An expression (interpreter or JIT   *)
(*     interval evaluator, plain tape or shape with a transform matrix) is *)
(*     evaluated on a box and, with the point evaluator, at corners, edge  *)
(*     midpoints, centre and interior points of that box: every point      *)
(*     value lies within the returned interval up to Ulps, unless the      *)
(*     interval is the NaN interval or the point value is NaN.  Excluded:  *)
(*     expressions with a four-quadrant arctangent (both arguments may be  *)
(*     zero).                                                              *)
(*  `nodes` : local obligations.  Every slot of the tape is exported; an   *)
(*     op is judged against its own operands: whenever the operand point   *)
(*     values lie inside the operand intervals the evaluator reported, the *)
(*     result point value lies inside the result interval (same slack).    *)
(*     This localises a wrong bound formula to the op and sign / quadrant  *)
(*     case, and does not let errors compound.                             *)
(* Reported intervals are well formed (lo <= hi) or NaN.                   *)
(***************************************************************************)
EXTENDS Integers, Sequences, FiniteSets, TLC, Json, IOUtils, Floats

Rec == ndJsonDeserialize(IOEnv.TRACE)
VARIABLE l
vars == <<l>>

Ulps == 4
NaNIv(i) == IsNaN(i[1]) \/ IsNaN(i[2])
Formed(i) == NaNIv(i) \/ Key(i[1]) <= Key(i[2])
Encloses(i, v) == NaNIv(i) \/ IsNaN(v) \/ Within(i[1], v, i[2], Ulps)
Inside(i, v) == ~NaNIv(i) /\ ~IsNaN(v) /\ Key(i[1]) <= Key(v) /\ Key(v) <= Key(i[2])
Has0(i) == ~NaNIv(i) /\ Key(i[1]) <= 0 /\ 0 <= Key(i[2])

E2EFails(r) ==
  IF r.panic THEN {"crash"} ELSE IF r.err # "" THEN {"err"} ELSE
  IF Len(r.out) # r.nout THEN {"count"} ELSE
     (IF \A o \in 1..r.nout : Formed(r.out[o]) THEN {} ELSE {"ill-formed"})
  \cup (IF r.excluded \/ \A s \in 1..Len(r.samples) : Len(r.samples[s]) # r.nout \/
              \A o \in 1..r.nout : Encloses(r.out[o], r.samples[s][o])
        THEN {} ELSE {"not-enclosed"})

\* op = <<name, class, A, B, R, samples>> ; sample = <<a, b, r>>
OpOk(op) ==
  LET nm == op[1] c == op[2] A == op[3] B == op[4] R == op[5] IN
  /\ Formed(R)
  /\ IF c = 1 THEN R = A /\ \A s \in 1..Len(op[6]) : op[6][s][3] = op[6][s][1]
     ELSE IF nm = "Atan" /\ c >= 4 /\ Has0(A) /\ Has0(B) THEN TRUE
     ELSE \A s \in 1..Len(op[6]) : LET x == op[6][s] IN
            (Inside(A, x[1]) /\ (c = 3 \/ Inside(B, x[2]))) => Encloses(R, x[3])
NodeFails(r) == {("op-" \o r.ops[k][1]) : k \in {j \in 1..Len(r.ops) : ~OpOk(r.ops[j])}}

Fails(r) == CASE r.ev = "e2e" -> E2EFails(r)
              [] r.ev = "nodes" -> NodeFails(r)
              [] r.ev = "evalfail" -> (IF r.panic THEN {"crash"} ELSE {"err"})
              [] OTHER -> {"unknown-event"}

Init == l = 1
Next == /\ l <= Len(Rec)
        /\ l' = l + 1
        /\ LET f == Fails(Rec[l]) IN f = {} \/ PrintT(<<"REJECT", Rec[l].id, f>>)
Spec == Init /\ [][Next]_vars
Consumed == TLCGet("stats").diameter - 1 = Len(Rec) \/ PrintT(<<"UNCONSUMED", TLCGet("stats").diameter, Len(Rec)>>)
==============================================================================
