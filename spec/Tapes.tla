-------------------------------- MODULE Tapes --------------------------------
(***************************************************************************)
(* Tapes as recorded from the implementation, and their abstract meaning.  *)
(*                                                                         *)
(* An op is the tuple <<class, name, out, a, b, imm>>:                     *)
(*   0 output(a = source location, b = output index)                       *)
(*   1 input(out, a = variable slot)       2 copyimm(out, imm bits)        *)
(*   3 unary(out, a)  (name "Copy" = CopyReg)                              *)
(*   4 reg-imm(out, a, imm)   5 imm-reg(out, a, imm)   6 reg-reg(out,a,b)  *)
(*   7 load(out = register, a = memory)    8 store(out = memory, a = reg)  *)
(* Tapes are stored root first (as SsaTape / RegTape store them) and are   *)
(* executed from the end.                                                  *)
(*                                                                         *)
(* Implements(ssa, asm): property-level statement of C01's structural      *)
(* half.  Both tapes are executed symbolically over one hash-consed term   *)
(* table; the register tape must give every output the term the SSA tape   *)
(* gives it, must never read a location that was not written before, and   *)
(* must keep registers below N, memory at or above N, everything below     *)
(* the advertised slot count.  Register numbers, eviction policy and the   *)
(* number of loads/stores are free: any correct allocator is accepted.     *)
(***************************************************************************)
EXTENDS Integers, Sequences, FiniteSets, Floats

Find(tab, node) == IF \E i \in 1..Len(tab) : tab[i] = node
                   THEN CHOOSE i \in 1..Len(tab) : tab[i] = node ELSE 0
Intern(tab, node) == LET i == Find(tab, node) IN
                     IF i > 0 THEN <<tab, i>> ELSE <<Append(tab, node), Len(tab) + 1>>

Get(env, k) == IF k \in DOMAIN env THEN env[k] ELSE 0
Put(env, k, v) == [x \in DOMAIN env \cup {k} |-> IF x = k THEN v ELSE env[x]]
EmptyEnv == [x \in {} |-> 0]

\* st = <<term table, env : location -> term id, outs : index -> term id, ok>>
SymStep(st, op) ==
  LET tab == st[1] env == st[2] outs == st[3] ok == st[4]
      c == op[1] nm == op[2] o == op[3] a == op[4] b == op[5] imm == op[6]
  IN CASE c = 0 -> <<tab, env, Put(outs, b, Get(env, a)), ok /\ Get(env, a) # 0>>
       [] c = 1 -> LET r == Intern(tab, <<"Input", a, -1, 0>>) IN <<r[1], Put(env, o, r[2]), outs, ok>>
       [] c = 2 -> LET r == Intern(tab, <<"Imm", -1, -1, imm>>) IN <<r[1], Put(env, o, r[2]), outs, ok>>
       [] c = 3 -> IF nm = "Copy" THEN <<tab, Put(env, o, Get(env, a)), outs, ok /\ Get(env, a) # 0>>
                   ELSE LET r == Intern(tab, <<nm, Get(env, a), -1, 0>>)
                        IN <<r[1], Put(env, o, r[2]), outs, ok /\ Get(env, a) # 0>>
       [] c = 4 -> LET i == Intern(tab, <<"Imm", -1, -1, imm>>)
                       r == Intern(i[1], <<nm, Get(env, a), i[2], 0>>)
                   IN <<r[1], Put(env, o, r[2]), outs, ok /\ Get(env, a) # 0>>
       [] c = 5 -> LET i == Intern(tab, <<"Imm", -1, -1, imm>>)
                       r == Intern(i[1], <<nm, i[2], Get(env, a), 0>>)
                   IN <<r[1], Put(env, o, r[2]), outs, ok /\ Get(env, a) # 0>>
       [] c = 6 -> LET r == Intern(tab, <<nm, Get(env, a), Get(env, b), 0>>)
                   IN <<r[1], Put(env, o, r[2]), outs, ok /\ Get(env, a) # 0 /\ Get(env, b) # 0>>
       [] c = 7 -> <<tab, Put(env, o, Get(env, a)), outs, ok /\ Get(env, a) # 0>>
       [] c = 8 -> <<tab, Put(env, o, Get(env, a)), outs, ok /\ Get(env, a) # 0>>

RECURSIVE SymExec(_, _, _)
SymExec(st, tape, i) == IF i < 1 THEN st ELSE SymExec(SymStep(st, tape[i]), tape, i - 1)

\* index discipline of a register tape for budget n with advertised slot count
RegOk(x, n, slots) == x >= 0 /\ x < n /\ x < slots
MemOk(x, n, slots) == x >= n /\ x < slots
Bounds(asm, n, slots) == \A i \in 1..Len(asm) : LET op == asm[i] IN
   CASE op[1] = 0 -> RegOk(op[4], n, slots)
     [] op[1] \in {1, 2} -> RegOk(op[3], n, slots)
     [] op[1] \in {3, 4, 5} -> RegOk(op[3], n, slots) /\ RegOk(op[4], n, slots)
     [] op[1] = 6 -> RegOk(op[3], n, slots) /\ RegOk(op[4], n, slots) /\ RegOk(op[5], n, slots)
     [] op[1] = 7 -> RegOk(op[3], n, slots) /\ MemOk(op[4], n, slots)
     [] op[1] = 8 -> RegOk(op[4], n, slots) /\ MemOk(op[3], n, slots)
     [] OTHER -> FALSE

\* an SSA tape is well formed: classes 0..6 only, no slot defined twice,
\* nothing read before it is defined
SsaWellFormed(ssa) ==
  /\ \A i \in 1..Len(ssa) : ssa[i][1] \in 0..6
  /\ \A i, j \in 1..Len(ssa) : (i # j /\ ssa[i][1] # 0 /\ ssa[j][1] # 0) => ssa[i][3] # ssa[j][3]
  /\ SymExec(<< <<>>, EmptyEnv, EmptyEnv, TRUE>>, ssa, Len(ssa))[4]

Implements(ssa, asm, nout) ==
  LET s == SymExec(<< <<>>, EmptyEnv, EmptyEnv, TRUE>>, ssa, Len(ssa))
      a == SymExec(<<s[1], EmptyEnv, EmptyEnv, TRUE>>, asm, Len(asm))
  IN /\ s[4] /\ a[4]
     /\ DOMAIN s[3] = 0..(nout - 1) /\ DOMAIN a[3] = DOMAIN s[3]
     /\ \A k \in DOMAIN s[3] : a[3][k] = s[3][k]

(***************************************************************************)
(* Resolves(parent, trace, child): the child's root terms equal the        *)
(* parent's root terms after every decided clause (entry 1 = left,         *)
(* 2 = right) is replaced by the chosen operand.  trace[k] belongs to the  *)
(* k-th choice clause in evaluation order.  A future simplifier may fold   *)
(* more than this, so a failure here with agreeing values is reported as   *)
(* SPEC-DRIFT, never as a violation.                                       *)
(***************************************************************************)
IsChoiceOp(op) == op[1] \in {4, 6} /\ op[2] \in {"Min", "Max", "And", "Or"}
\* st = <<tab, env, outs, ok, k>> ; k = number of choice clauses executed so far
ResStep(st, op, trace) ==
  IF ~IsChoiceOp(op) THEN LET r == SymStep(<<st[1], st[2], st[3], st[4]>>, op) IN <<r[1], r[2], r[3], r[4], st[5]>>
  ELSE LET k == st[5] + 1
           e == IF k <= Len(trace) THEN trace[k] ELSE 3
       IN CASE e = 1 -> <<st[1], Put(st[2], op[3], Get(st[2], op[4])), st[3], st[4] /\ Get(st[2], op[4]) # 0, k>>
            [] e = 2 /\ op[1] = 6 -> <<st[1], Put(st[2], op[3], Get(st[2], op[5])), st[3], st[4] /\ Get(st[2], op[5]) # 0, k>>
            [] e = 2 /\ op[1] = 4 -> LET i == Intern(st[1], <<"Imm", -1, -1, op[6]>>)
                                     IN <<i[1], Put(st[2], op[3], i[2]), st[3], st[4], k>>
            [] OTHER -> LET r == SymStep(<<st[1], st[2], st[3], st[4]>>, op) IN <<r[1], r[2], r[3], r[4], k>>
RECURSIVE ResExec(_, _, _, _)
ResExec(st, tape, i, trace) == IF i < 1 THEN st ELSE ResExec(ResStep(st, tape[i], trace), tape, i - 1, trace)
Resolves(parent, trace, child, nout) ==
  LET p == ResExec(<< <<>>, EmptyEnv, EmptyEnv, TRUE, 0>>, parent, Len(parent), trace)
      c == SymExec(<<p[1], EmptyEnv, EmptyEnv, TRUE>>, child, Len(child))
  IN /\ c[4]
     /\ DOMAIN p[3] = 0..(nout - 1) /\ DOMAIN c[3] = DOMAIN p[3]
     /\ \A k \in DOMAIN p[3] : c[3][k] = p[3][k]

\* number of choice clauses of a tape
IsChoice(op) == op[1] \in {4, 6} /\ op[2] \in {"Min", "Max", "And", "Or"}
CountChoices(tape) == Cardinality({i \in 1..Len(tape) : IsChoice(tape[i])})
CountClass(tape, c) == Cardinality({i \in 1..Len(tape) : tape[i][1] = c})

(***************************************************************************)
(* The exact sub-language Z: integer semantics of the opcodes on which f32 *)
(* arithmetic is exact for small integers.  ZExec returns <<env, outs, ok>>*)
(* where ok = FALSE means "outside Z" (the case is then not judged).       *)
(***************************************************************************)
ZAbs(x) == IF x < 0 THEN -x ELSE x
ZUn(nm, a) == CASE nm = "Neg" -> -a [] nm = "Abs" -> ZAbs(a) [] nm = "Square" -> a * a
                [] nm \in {"Floor", "Ceil", "Round", "Copy"} -> a
                [] nm = "Not" -> (IF a = 0 THEN 1 ELSE 0)
                [] OTHER -> 0
ZUnOk(nm) == nm \in {"Neg", "Abs", "Square", "Floor", "Ceil", "Round", "Copy", "Not"}
ZBin(nm, l, r) == CASE nm = "Add" -> l + r [] nm = "Sub" -> l - r [] nm = "Mul" -> l * r
                    [] nm = "Min" -> (IF l < r THEN l ELSE r)
                    [] nm = "Max" -> (IF l > r THEN l ELSE r)
                    [] nm = "Compare" -> (IF l < r THEN -1 ELSE IF l > r THEN 1 ELSE 0)
                    [] nm = "And" -> (IF l = 0 THEN l ELSE r)
                    [] nm = "Or" -> (IF l # 0 THEN l ELSE r)
                    [] nm = "Mod" -> (IF r > 0 THEN l % r ELSE 0)
                    [] OTHER -> 0
ZBinOk(nm, r) == nm \in {"Add", "Sub", "Mul", "Min", "Max", "Compare", "And", "Or"} \/ (nm = "Mod" /\ r > 0)
Small(x) == x > -1000000 /\ x < 1000000

ZStep(st, op, zin) ==
  LET env == st[1] outs == st[2] ok == st[3]
      c == op[1] nm == op[2] o == op[3] a == op[4] b == op[5] imm == op[6]
  IN IF ~ok THEN st ELSE
     CASE c = 0 -> <<env, Put(outs, b, Get(env, a)), a \in DOMAIN env>>
       [] c = 1 -> <<Put(env, o, zin[a + 1]), outs, a + 1 \in DOMAIN zin>>
       [] c = 2 -> <<Put(env, o, IntOf(imm)), outs, IsSmallInt(imm)>>
       [] c = 3 -> <<Put(env, o, ZUn(nm, Get(env, a))), outs, ZUnOk(nm) /\ a \in DOMAIN env /\ Small(Get(env, a))>>
       [] c = 4 -> <<Put(env, o, ZBin(nm, Get(env, a), IntOf(imm))), outs,
                     IsSmallInt(imm) /\ ZBinOk(nm, IntOf(imm)) /\ a \in DOMAIN env /\ Small(Get(env, a))>>
       [] c = 5 -> <<Put(env, o, ZBin(nm, IntOf(imm), Get(env, a))), outs,
                     IsSmallInt(imm) /\ ZBinOk(nm, Get(env, a)) /\ a \in DOMAIN env /\ Small(Get(env, a))>>
       [] c = 6 -> <<Put(env, o, ZBin(nm, Get(env, a), Get(env, b))), outs,
                     ZBinOk(nm, Get(env, b)) /\ a \in DOMAIN env /\ b \in DOMAIN env
                     /\ Small(Get(env, a)) /\ Small(Get(env, b))>>
       [] OTHER -> <<env, outs, FALSE>>
RECURSIVE ZExec(_, _, _, _)
ZExec(st, tape, i, zin) == IF i < 1 THEN st ELSE ZExec(ZStep(st, tape[i], zin), tape, i - 1, zin)
ZRun(ssa, zin) == ZExec(<<EmptyEnv, EmptyEnv, TRUE>>, ssa, Len(ssa), zin)
=============================================================================
