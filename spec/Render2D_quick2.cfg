SPECIFICATION Spec
CONSTANTS TS <- TS2 W = 2 H = 3 FillMode = FALSE
INVARIANT Correct
INVARIANT WrittenOnce
INVARIANT InBuffer
INVARIANT StepsAgree
CHECK_DEADLOCK FALSE
