SPECIFICATION Spec
CONSTANTS N = 3  MaxLive = 5  MaxOps = 5
INVARIANT EmitProg
CHECK_DEADLOCK FALSE
