---------------------------- MODULE DualRingProof ----------------------------
(***************************************************************************)
(* The algebra behind Grad.tla (C05), proved with TLAPS over the integers: *)
(* a dual number <<v, d>> carries a value and one partial derivative; the  *)
(* rules for +, -, * and square used by the gradient evaluators make the   *)
(* duals a commutative ring in which  Const(c) = <<c, 0>>  are the scalars *)
(* and  X = <<x, 1>>  the seeded variable, so that evaluating a polynomial *)
(* in duals yields its value and its derivative (Leibniz rule by           *)
(* construction, chain rule for powers).  MC_Grad checks the same rules    *)
(* against explicitly differentiated polynomials on small integers.        *)
(***************************************************************************)
EXTENDS Integers, TLAPS

Add(a, b) == <<a[1] + b[1], a[2] + b[2]>>
Sub(a, b) == <<a[1] - b[1], a[2] - b[2]>>
Neg(a) == <<0 - a[1], 0 - a[2]>>
Mul(a, b) == <<a[1] * b[1], a[2] * b[1] + a[1] * b[2]>>
Square(a) == <<a[1] * a[1], 2 * (a[1] * a[2])>>
Const(c) == <<c, 0>>
Dual == Int \X Int

THEOREM MulCommutes == \A a, b \in Dual : Mul(a, b) = Mul(b, a)
BY DEF Mul, Dual

THEOREM MulAssociates == \A a, b, c \in Dual : Mul(Mul(a, b), c) = Mul(a, Mul(b, c))
<1> SUFFICES ASSUME NEW a \in Dual, NEW b \in Dual, NEW c \in Dual PROVE Mul(Mul(a, b), c) = Mul(a, Mul(b, c))
    OBVIOUS
<1> DEFINE a1 == a[1]  a2 == a[2]  b1 == b[1]  b2 == b[2]  c1 == c[1]  c2 == c[2]
<1>0. a1 \in Int /\ a2 \in Int /\ b1 \in Int /\ b2 \in Int /\ c1 \in Int /\ c2 \in Int BY DEF Dual
<1>1. (a1 * b1) * c1 = a1 * (b1 * c1) BY <1>0
<1>2. (a2 * b1 + a1 * b2) * c1 + (a1 * b1) * c2 = a2 * (b1 * c1) + a1 * (b2 * c1 + b1 * c2) BY <1>0
<1> QED BY <1>1, <1>2 DEF Mul

THEOREM Distributes == \A a, b, c \in Dual : Mul(a, Add(b, c)) = Add(Mul(a, b), Mul(a, c))
<1> SUFFICES ASSUME NEW a \in Dual, NEW b \in Dual, NEW c \in Dual PROVE Mul(a, Add(b, c)) = Add(Mul(a, b), Mul(a, c))
    OBVIOUS
<1> DEFINE a1 == a[1]  a2 == a[2]  b1 == b[1]  b2 == b[2]  c1 == c[1]  c2 == c[2]
<1>0. a1 \in Int /\ a2 \in Int /\ b1 \in Int /\ b2 \in Int /\ c1 \in Int /\ c2 \in Int BY DEF Dual
<1>1. a1 * (b1 + c1) = a1 * b1 + a1 * c1 BY <1>0
<1>2. a2 * (b1 + c1) + a1 * (b2 + c2) = (a2 * b1 + a1 * b2) + (a2 * c1 + a1 * c2) BY <1>0
<1> QED BY <1>1, <1>2 DEF Mul, Add

THEOREM SquareIsMul == \A a \in Dual : Square(a) = Mul(a, a)
<1> SUFFICES ASSUME NEW a \in Dual PROVE Square(a) = Mul(a, a)
    OBVIOUS
<1>0. a[1] \in Int /\ a[2] \in Int BY DEF Dual
<1>1. 2 * (a[1] * a[2]) = a[2] * a[1] + a[1] * a[2] BY <1>0
<1> QED BY <1>1 DEF Square, Mul

THEOREM SubIsAddNeg == \A a, b \in Dual : Sub(a, b) = Add(a, Neg(b))
BY DEF Sub, Add, Neg, Dual

(* scalars: a constant has derivative 0, and multiplying by it scales value and derivative *)
THEOREM Scalars == \A c \in Int : \A a \in Dual : Mul(Const(c), a) = <<c * a[1], c * a[2]>>
BY DEF Mul, Const, Dual

(* the seeded variable: X * X = <<x^2, 2x>>, the derivative of x^2 *)
THEOREM SquareOfVariable == \A x \in Int : Mul(<<x, 1>>, <<x, 1>>) = <<x * x, 2 * x>>
BY DEF Mul
=============================================================================
