--------------------------- MODULE IntervalMulProof ---------------------------
(***************************************************************************)
(* The enclosure lemma behind interval multiplication (C03), proved with   *)
(* TLAPS over the integers (TLC checks the same statement, together with   *)
(* the NaN and infinity cases, on the bounded number line of Interval.tla): *)
(* for a in [al, ah] and b in [bl, bh] the product lies between the        *)
(* smallest and the largest of the four corner products.                   *)
(***************************************************************************)
EXTENDS Integers, TLAPS

Min2(x, y) == IF x <= y THEN x ELSE y
Max2(x, y) == IF x >= y THEN x ELSE y
Lo(al, ah, bl, bh) == Min2(Min2(al * bl, al * bh), Min2(ah * bl, ah * bh))
Hi(al, ah, bl, bh) == Max2(Max2(al * bl, al * bh), Max2(ah * bl, ah * bh))

(* a product is monotone in each factor, in the direction given by the sign of the other *)
LEMMA MonoPos == \A x, y, k \in Int : (x <= y /\ k >= 0) => x * k <= y * k
<1> SUFFICES ASSUME NEW x \in Int, NEW y \in Int, NEW k \in Int, x <= y, k >= 0 PROVE x * k <= y * k
    OBVIOUS
<1> DEFINE d == y - x
<1>1. d \in Nat /\ k \in Nat /\ y = x + d OBVIOUS
<1>2. y * k = x * k + d * k BY <1>1
<1>3. d * k \in Nat BY <1>1
<1>4. x * k \in Int OBVIOUS
<1> QED BY <1>2, <1>3, <1>4
LEMMA MonoNeg == \A x, y, k \in Int : (x <= y /\ k <= 0) => y * k <= x * k
<1> SUFFICES ASSUME NEW x \in Int, NEW y \in Int, NEW k \in Int, x <= y, k <= 0 PROVE y * k <= x * k
    OBVIOUS
<1> DEFINE m == 0 - k
<1>1. m \in Int /\ m >= 0 OBVIOUS
<1>2. x * m <= y * m BY <1>1, MonoPos
<1>3. x * k = 0 - x * m /\ y * k = 0 - y * m OBVIOUS
<1>4. x * m \in Int /\ y * m \in Int OBVIOUS
<1> QED BY <1>2, <1>3, <1>4

(* for fixed b the product a * b lies between the two products at the ends of a's range *)
LEMMA EndsA == \A al, ah, a, b \in Int : (al <= a /\ a <= ah) =>
                 /\ Min2(al * b, ah * b) <= a * b
                 /\ a * b <= Max2(al * b, ah * b)
<1> SUFFICES ASSUME NEW al \in Int, NEW ah \in Int, NEW a \in Int, NEW b \in Int, al <= a, a <= ah
             PROVE Min2(al * b, ah * b) <= a * b /\ a * b <= Max2(al * b, ah * b)
    OBVIOUS
<1>0. al * b \in Int /\ ah * b \in Int /\ a * b \in Int OBVIOUS
<1>1. CASE b >= 0
  <2>1. al * b <= a * b /\ a * b <= ah * b BY <1>1, MonoPos
  <2> QED BY <2>1, <1>0 DEF Min2, Max2
<1>2. CASE b <= 0
  <2>1. a * b <= al * b /\ ah * b <= a * b BY <1>2, MonoNeg
  <2> QED BY <2>1, <1>0 DEF Min2, Max2
<1> QED BY <1>1, <1>2

THEOREM MulEnclosure == \A al, ah, bl, bh, a, b \in Int :
                          (al <= a /\ a <= ah /\ bl <= b /\ b <= bh) =>
                             Lo(al, ah, bl, bh) <= a * b /\ a * b <= Hi(al, ah, bl, bh)
<1> SUFFICES ASSUME NEW al \in Int, NEW ah \in Int, NEW bl \in Int, NEW bh \in Int, NEW a \in Int, NEW b \in Int,
                    al <= a, a <= ah, bl <= b, b <= bh
             PROVE Lo(al, ah, bl, bh) <= a * b /\ a * b <= Hi(al, ah, bl, bh)
    OBVIOUS
<1>1. Min2(al * b, ah * b) <= a * b /\ a * b <= Max2(al * b, ah * b) BY EndsA
(* each end product, as a function of b, lies between its values at bl and bh (commute the factors) *)
<1>2. Min2(bl * al, bh * al) <= b * al /\ b * al <= Max2(bl * al, bh * al) BY EndsA
<1>3. Min2(bl * ah, bh * ah) <= b * ah /\ b * ah <= Max2(bl * ah, bh * ah) BY EndsA
<1>4. /\ bl * al = al * bl /\ bh * al = al * bh /\ b * al = al * b
      /\ bl * ah = ah * bl /\ bh * ah = ah * bh /\ b * ah = ah * b
      OBVIOUS
<1>5. /\ al * bl \in Int /\ al * bh \in Int /\ ah * bl \in Int /\ ah * bh \in Int
      /\ al * b \in Int /\ ah * b \in Int /\ a * b \in Int
      OBVIOUS
<1> QED BY <1>1, <1>2, <1>3, <1>4, <1>5 DEF Lo, Hi, Min2, Max2
=============================================================================
