--------------------------- MODULE TileCoverProof ---------------------------
(***************************************************************************)
(* Unbounded arithmetic core of the tile decomposition used by Render2D /  *)
(* Render3D (C06, C07), proved with TLAPS for every image extent E >= 1    *)
(* and every tile size T >= 1 along one axis (the axes are independent):   *)
(* the renderer covers 0..E-1 with ceil(E / T) root tiles [k T, (k+1) T),  *)
(* the last of which may overhang the image.                               *)
(*   - every pixel lies in the tile numbered x \div T, which exists;       *)
(*   - it lies in no other tile;                                           *)
(*   - only the last tile can overhang, by less than T.                    *)
(* Splitting a tile of size T = c * S into c sub-tiles of size S is the    *)
(* same statement with E = T.                                              *)
(***************************************************************************)
EXTENDS Integers, TLAPS

Tiles(E, T) == (E + T - 1) \div T

LEMMA DivMod == \A x \in Nat : \A T \in Nat \ {0} :
                  /\ x \div T \in Nat
                  /\ (x \div T) * T <= x
                  /\ x < (x \div T) * T + T
OBVIOUS

LEMMA MulMono == \A a \in Nat : \A b \in Nat : \A T \in Nat : a <= b => a * T <= b * T
<1> SUFFICES ASSUME NEW a \in Nat, NEW b \in Nat, NEW T \in Nat, a <= b PROVE a * T <= b * T
    OBVIOUS
<1> DEFINE d == b - a
<1>1. d \in Nat /\ b = a + d OBVIOUS
<1>2. b * T = a * T + d * T BY <1>1
<1>3. d * T \in Nat OBVIOUS
<1>4. a * T \in Nat OBVIOUS
<1> QED BY <1>2, <1>3, <1>4

LEMMA Succ == \A k \in Nat : \A T \in Nat : (k + 1) * T = k * T + T
OBVIOUS

THEOREM PixelHasTile == \A E \in Nat \ {0} : \A T \in Nat \ {0} : \A x \in 0..(E - 1) :
                          /\ x \div T \in 0..(Tiles(E, T) - 1)
                          /\ (x \div T) * T <= x /\ x < (x \div T) * T + T
<1> SUFFICES ASSUME NEW E \in Nat \ {0}, NEW T \in Nat \ {0}, NEW x \in 0..(E - 1)
             PROVE /\ x \div T \in 0..(Tiles(E, T) - 1)
                   /\ (x \div T) * T <= x /\ x < (x \div T) * T + T
    OBVIOUS
<1>1. x \in Nat OBVIOUS
<1>2. x \div T \in Nat /\ (x \div T) * T <= x /\ x < (x \div T) * T + T BY <1>1, DivMod
<1>3. (E + T - 1) \in Nat OBVIOUS
<1>4. /\ Tiles(E, T) \in Nat /\ Tiles(E, T) * T <= E + T - 1 /\ E + T - 1 < Tiles(E, T) * T + T
      BY <1>3, DivMod DEF Tiles
<1>5. x \div T < Tiles(E, T)
  <2>1. SUFFICES ASSUME x \div T >= Tiles(E, T) PROVE FALSE
        BY <1>2, <1>4
  <2>0. T \in Nat /\ x \div T \in Nat /\ Tiles(E, T) \in Nat BY <1>2, <1>4
  <2>2. Tiles(E, T) * T <= (x \div T) * T BY <2>0, <2>1, MulMono
  <2> DEFINE p == Tiles(E, T) * T
  <2> DEFINE q == (x \div T) * T
  <2>5. p \in Nat /\ q \in Nat BY <2>0
  <2>3. p <= x BY <2>2, <2>5, <1>2
  <2>4. E + T - 1 < p + T BY <1>4
  <2>6. E <= p BY <2>4, <2>5
  <2>7. x <= E - 1 /\ E \in Nat OBVIOUS
  <2> QED BY <2>3, <2>6, <2>7, <2>5
<1>6. Tiles(E, T) \in Nat BY <1>4
<1>7. x \div T \in Nat BY <1>2
<1>8. x \div T \in 0..(Tiles(E, T) - 1) BY <1>5, <1>6, <1>7
<1> QED BY <1>2, <1>8

THEOREM TileUnique == \A T \in Nat \ {0} : \A x \in Nat : \A k \in Nat :
                        (k * T <= x /\ x < k * T + T) => k = x \div T
<1> SUFFICES ASSUME NEW T \in Nat \ {0}, NEW x \in Nat, NEW k \in Nat, k * T <= x, x < k * T + T
             PROVE k = x \div T
    OBVIOUS
<1>1. x \div T \in Nat /\ (x \div T) * T <= x /\ x < (x \div T) * T + T BY DivMod
<1>2. CASE k < x \div T
  <2>1. k + 1 <= x \div T BY <1>2, <1>1
  <2>2. (k + 1) * T <= (x \div T) * T BY <2>1, <1>1, MulMono
  <2>3. (k + 1) * T = k * T + T BY Succ
  <2> QED BY <2>2, <2>3, <1>1
<1>3. CASE k > x \div T
  <2>1. (x \div T) + 1 <= k BY <1>3, <1>1
  <2>2. ((x \div T) + 1) * T <= k * T BY <2>1, <1>1, MulMono
  <2>3. ((x \div T) + 1) * T = (x \div T) * T + T BY <1>1, Succ
  <2> QED BY <2>2, <2>3, <1>1
<1> QED BY <1>2, <1>3, <1>1

THEOREM OnlyLastOverhangs == \A E \in Nat \ {0} : \A T \in Nat \ {0} :
                               /\ (Tiles(E, T) - 1) * T < E
                               /\ Tiles(E, T) * T < E + T
<1> SUFFICES ASSUME NEW E \in Nat \ {0}, NEW T \in Nat \ {0}
             PROVE (Tiles(E, T) - 1) * T < E /\ Tiles(E, T) * T < E + T
    OBVIOUS
<1>1. (E + T - 1) \in Nat OBVIOUS
<1>2. Tiles(E, T) \in Nat /\ Tiles(E, T) * T <= E + T - 1 /\ E + T - 1 < Tiles(E, T) * T + T
      BY <1>1, DivMod DEF Tiles
<1> QED BY <1>2
=============================================================================
