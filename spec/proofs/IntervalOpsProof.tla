--------------------------- MODULE IntervalOpsProof ---------------------------
(***************************************************************************)
(* Enclosure lemmas for the piecewise-linear interval operators (C03),     *)
(* proved with TLAPS over the integers; the finite, NaN-free core of the   *)
(* rules that Interval.tla checks with TLC on its bounded number line and  *)
(* Trace_C03 checks on the real evaluators op by op.                       *)
(***************************************************************************)
EXTENDS Integers, TLAPS

Min2(x, y) == IF x <= y THEN x ELSE y
Max2(x, y) == IF x >= y THEN x ELSE y
Abs(x) == IF x >= 0 THEN x ELSE 0 - x
In(v, lo, hi) == lo <= v /\ v <= hi

THEOREM Add == \A al, ah, bl, bh, a, b \in Int : (In(a, al, ah) /\ In(b, bl, bh)) => In(a + b, al + bl, ah + bh)
BY DEF In
THEOREM Sub == \A al, ah, bl, bh, a, b \in Int : (In(a, al, ah) /\ In(b, bl, bh)) => In(a - b, al - bh, ah - bl)
BY DEF In
THEOREM Neg == \A al, ah, a \in Int : In(a, al, ah) => In(0 - a, 0 - ah, 0 - al)
BY DEF In
THEOREM MinOp == \A al, ah, bl, bh, a, b \in Int : (In(a, al, ah) /\ In(b, bl, bh)) => In(Min2(a, b), Min2(al, bl), Min2(ah, bh))
BY DEF In, Min2
THEOREM MaxOp == \A al, ah, bl, bh, a, b \in Int : (In(a, al, ah) /\ In(b, bl, bh)) => In(Max2(a, b), Max2(al, bl), Max2(ah, bh))
BY DEF In, Max2
(* min / max choices: when the ranges do not overlap the result is one operand everywhere (what a trace records) *)
THEOREM MinChoice == \A al, ah, bl, bh, a, b \in Int : (In(a, al, ah) /\ In(b, bl, bh) /\ ah < bl) => Min2(a, b) = a /\ Max2(a, b) = b
BY DEF In, Min2, Max2
THEOREM AbsOp == \A al, ah, a \in Int : In(a, al, ah) =>
                   In(Abs(a), IF al >= 0 THEN al ELSE IF ah <= 0 THEN 0 - ah ELSE 0,
                              IF al >= 0 THEN ah ELSE IF ah <= 0 THEN 0 - al ELSE Max2(0 - al, ah))
BY DEF In, Abs, Max2

LEMMA SquareMono == \A x, y \in Int : (0 <= x /\ x <= y) => x * x <= y * y
<1> SUFFICES ASSUME NEW x \in Int, NEW y \in Int, 0 <= x, x <= y PROVE x * x <= y * y
    OBVIOUS
<1> DEFINE d == y - x
<1>1. d \in Nat /\ x \in Nat /\ y = x + d OBVIOUS
<1>2. y * y = x * x + 2 * (x * d) + d * d BY <1>1
<1>3. x * d \in Nat /\ d * d \in Nat /\ x * x \in Nat BY <1>1
<1> QED BY <1>2, <1>3
THEOREM SquareOp == \A al, ah, a \in Int : In(a, al, ah) =>
                      In(a * a, IF al >= 0 THEN al * al ELSE IF ah <= 0 THEN ah * ah ELSE 0,
                                IF al >= 0 THEN ah * ah ELSE IF ah <= 0 THEN al * al ELSE Max2(al * al, ah * ah))
<1> SUFFICES ASSUME NEW al \in Int, NEW ah \in Int, NEW a \in Int, al <= a, a <= ah
             PROVE In(a * a, IF al >= 0 THEN al * al ELSE IF ah <= 0 THEN ah * ah ELSE 0,
                             IF al >= 0 THEN ah * ah ELSE IF ah <= 0 THEN al * al ELSE Max2(al * al, ah * ah))
    BY DEF In
<1> DEFINE na == 0 - a
<1> DEFINE nl == 0 - al
<1> DEFINE nh == 0 - ah
<1>0. a * a \in Int /\ al * al \in Int /\ ah * ah \in Int /\ na * na = a * a /\ nl * nl = al * al /\ nh * nh = ah * ah OBVIOUS
<1>1. CASE al >= 0
  <2>1. al * al <= a * a /\ a * a <= ah * ah BY <1>1, SquareMono
  <2> QED BY <2>1, <1>1 DEF In
<1>2. CASE al < 0 /\ ah <= 0
  <2>1. 0 <= nh /\ nh <= na /\ na <= nl BY <1>2
  <2>2. nh * nh <= na * na /\ na * na <= nl * nl BY <2>1, SquareMono
  <2> QED BY <2>2, <1>0, <1>2 DEF In
<1>3. CASE al < 0 /\ ah > 0
  <2>1. CASE a >= 0
    <3>1. a * a <= ah * ah BY <2>1, SquareMono
    <3>2. 0 * 0 <= a * a BY <2>1, SquareMono
    <3> QED BY <3>1, <3>2, <1>0, <1>3 DEF In, Max2
  <2>2. CASE a < 0
    <3>1. 0 <= na /\ na <= nl BY <2>2
    <3>2. na * na <= nl * nl /\ 0 * 0 <= na * na BY <3>1, SquareMono
    <3> QED BY <3>2, <1>0, <1>3 DEF In, Max2
  <2> QED BY <2>1, <2>2
<1> QED BY <1>1, <1>2, <1>3
=============================================================================
