-------------------------- MODULE BulkDriverProof --------------------------
(***************************************************************************)
(* Unbounded arithmetic core of BulkDriver.tla, proved with TLAPS for      *)
(* every request length and every SIMD width 1..8 (TLC checks the same     *)
(* statements on 0..40 through BulkDriver.tla, and Trace_C02 applies them  *)
(* to the calls recorded from the real JitBulkEval::eval).                 *)
(* A call is (offset, count); Driver(len) issues                           *)
(*    len < W :  (0, W) on the scratch rows                                *)
(*    len >= W:  (0, m) with m = (len \div W) * W, and when m # len also   *)
(*               (len - W, W)                                              *)
(***************************************************************************)
EXTENDS Integers, TLAPS
CONSTANT W
ASSUME WRange == W \in 1..8

M(len) == (len \div W) * W

THEOREM DivFacts == \A len \in Nat : M(len) \in Nat /\ M(len) <= len /\ len < M(len) + W /\ M(len) % W = 0
<1> SUFFICES ASSUME NEW len \in Nat PROVE M(len) \in Nat /\ M(len) <= len /\ len < M(len) + W /\ M(len) % W = 0
    OBVIOUS
<1>1. W \in Nat /\ W >= 1 BY WRange
<1>2. CASE W = 1 BY <1>2 DEF M
<1>3. CASE W = 2 BY <1>3 DEF M
<1>4. CASE W = 3 BY <1>4 DEF M
<1>5. CASE W = 4 BY <1>5 DEF M
<1>6. CASE W = 5 BY <1>6 DEF M
<1>7. CASE W = 6 BY <1>7 DEF M
<1>8. CASE W = 7 BY <1>8 DEF M
<1>9. CASE W = 8 BY <1>9 DEF M
<1> QED BY <1>2, <1>3, <1>4, <1>5, <1>6, <1>7, <1>8, <1>9, WRange

(* the scratch call stays inside the W-wide (at most 8-wide) scratch rows and covers every requested sample *)
THEOREM Small == \A len \in Nat : len < W => /\ 0 + W <= 8
                                            /\ \A i \in 0..(len - 1) : 0 <= i /\ i < 0 + W
BY WRange

(* the calls on the caller's slices stay inside 0..len-1, have counts that are multiples of W, and cover 0..len-1 *)
THEOREM Large == \A len \in Nat : len >= W =>
      /\ M(len) % W = 0 /\ 0 + M(len) <= len
      /\ len - W >= 0 /\ (len - W) + W <= len
      /\ \A i \in 0..(len - 1) : (0 <= i /\ i < 0 + M(len)) \/ (M(len) # len /\ len - W <= i /\ i < (len - W) + W)
<1> SUFFICES ASSUME NEW len \in Nat, len >= W
             PROVE /\ M(len) % W = 0 /\ 0 + M(len) <= len
                   /\ len - W >= 0 /\ (len - W) + W <= len
                   /\ \A i \in 0..(len - 1) : (0 <= i /\ i < 0 + M(len)) \/ (M(len) # len /\ len - W <= i /\ i < (len - W) + W)
    OBVIOUS
<1>1. M(len) \in Nat /\ M(len) <= len /\ len < M(len) + W /\ M(len) % W = 0 BY DivFacts
<1>2. W \in Nat /\ W >= 1 BY WRange
<1> QED BY <1>1, <1>2
=============================================================================
