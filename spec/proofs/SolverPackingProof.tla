------------------------- MODULE SolverPackingProof -------------------------
(***************************************************************************)
(* Unbounded arithmetic core of Solver.tla (C19), proved with TLAPS for any *)
(* number F of free parameters: the solver evaluates ceil(F / 3) gradient  *)
(* samples; the parameter with gradient index gi is seeded in sample       *)
(* gi \div 3, lane gi % 3, and its derivative is read back from there.     *)
(*   - the sample exists, the lane is one of the three;                    *)
(*   - (sample, lane) determines gi: no two parameters share a lane;       *)
(*   - the seeding test of the code, "j * 3 + lane = gi", selects exactly  *)
(*     that sample and lane.                                               *)
(***************************************************************************)
EXTENDS Integers, TLAPS

Samples(F) == (F + 2) \div 3

THEOREM SlotExists == \A F \in Nat : \A gi \in 0..(F - 1) :
                         /\ gi \div 3 \in 0..(Samples(F) - 1)
                         /\ gi % 3 \in 0..2
BY DEF Samples

THEOREM SlotsDistinct == \A a, b \in Nat : (a \div 3 = b \div 3 /\ a % 3 = b % 3) => a = b
OBVIOUS

THEOREM SeedTest == \A gi \in Nat : \A j \in Nat : \A lane \in 0..2 :
                       (j * 3 + lane = gi) <=> (j = gi \div 3 /\ lane = gi % 3)
OBVIOUS

(* with nothing free there is no sample at all: reading sample 0 is out of bounds (the defect repaired by b5080d8) *)
THEOREM NoSampleWhenNothingFree == Samples(0) = 0
BY DEF Samples
=============================================================================
