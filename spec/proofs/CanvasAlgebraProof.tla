-------------------------- MODULE CanvasAlgebraProof --------------------------
(***************************************************************************)
(* The algebra behind Canvas.tla (C18), proved with TLAPS for all integer  *)
(* (fixed-point) values: a view maps the world position w of a screen      *)
(* point to the model position  c + s * w  (c centre, s scale).            *)
(*   ZoomKeepsCursorPoint   zoom about the cursor: the new centre is the   *)
(*       old one plus (old image - new image) of the cursor, and the       *)
(*       cursor's model point does not move;                               *)
(*   DragKeepsGrabbedPoint  a drag handle remembers the grabbed model      *)
(*       point g and the view (c0, s0) it was taken under; dragging to w1  *)
(*       sets the centre to c0 - ((c0 + s0 * w1) - g), which puts g under  *)
(*       the cursor as long as the view's scale is still s0;               *)
(*   ZoomDuringDrag         after a zoom to scale s1 a drag computed from  *)
(*       a handle that was re-anchored to the new view keeps g under the   *)
(*       cursor, while a stale handle misses it by (s1 - s0) * w1 (the     *)
(*       defect repaired by 4aca9be).                                      *)
(***************************************************************************)
EXTENDS Integers, TLAPS

Image(c, s, w) == c + s * w

THEOREM ZoomKeepsCursorPoint ==
  \A c, s0, s1, w \in Int :
     LET c1 == c + (Image(c, s0, w) - Image(c, s1, w)) IN Image(c1, s1, w) = Image(c, s0, w)
BY DEF Image

THEOREM DragKeepsGrabbedPoint ==
  \A c0, s0, w0, w1 \in Int :
     LET g == Image(c0, s0, w0)
         c1 == c0 - (Image(c0, s0, w1) - g)
     IN Image(c1, s0, w1) = g
BY DEF Image

THEOREM ZoomDuringDrag ==
  \A c0, s0, s1, g, w1, cz \in Int :          \* cz: the centre after the zoom, whatever it is
     LET refreshed == cz - (Image(cz, s1, w1) - g)       \* handle re-anchored to (cz, s1)
         stale == c0 - (Image(c0, s0, w1) - g)           \* handle still holds (c0, s0)
     IN /\ Image(refreshed, s1, w1) = g
        /\ Image(stale, s1, w1) = g + (s1 - s0) * w1
<1> SUFFICES ASSUME NEW c0 \in Int, NEW s0 \in Int, NEW s1 \in Int, NEW g \in Int, NEW w1 \in Int, NEW cz \in Int
             PROVE LET refreshed == cz - (Image(cz, s1, w1) - g)
                       stale == c0 - (Image(c0, s0, w1) - g)
                   IN /\ Image(refreshed, s1, w1) = g
                      /\ Image(stale, s1, w1) = g + (s1 - s0) * w1
    OBVIOUS
<1>1. s1 * w1 \in Int /\ s0 * w1 \in Int OBVIOUS
<1>2. (s1 - s0) * w1 = s1 * w1 - s0 * w1 OBVIOUS
<1> QED BY <1>1, <1>2 DEF Image
=============================================================================
