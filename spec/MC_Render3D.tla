---- MODULE MC_Render3D ----
EXTENDS Render3D
TS21 == <<2, 1>>
TS2 == <<2>>
TS1 == <<1>>
\* tile lists of the recorded tile-decision traces (Trace_Tiles3.tla)
TS_2_1 == <<2, 1>>
TS_2 == <<2>>
TS_4 == <<4>>
TS_8 == <<8>>
TS_4_2 == <<4, 2>>
TS_4_2_1 == <<4, 2, 1>>
TS_8_4 == <<8, 4>>
TS_8_2 == <<8, 2>>
TS_8_4_2 == <<8, 4, 2>>
====
