---- MODULE MC_Render3D ----
EXTENDS Render3D
TS21 == <<2, 1>>
TS2 == <<2>>
TS1 == <<1>>
====
