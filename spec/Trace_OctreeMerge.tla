------------------------- MODULE Trace_OctreeMerge -------------------------
(***************************************************************************)
(* Trace validation of the real multi-threaded octree build against        *)
(* OctreeMerge.tla (C09, mesh half).                                       *)
(*                                                                         *)
(* With the mt_* hooks on, Octree::build_inner_mt dumps, per build: every  *)
(* task's position <<group, j>> in the root octree and its LOCAL octree    *)
(* (root cell, every cell of every group, number of vertices), the list of *)
(* splits that the fix-up walks in reverse, and the MERGED octree after    *)
(* the fix-up.  The recorder turns one build into one line:                *)
(*   {id, tasks: [{pos, root, groups, nverts}], fix: [[pg, pj, g]],        *)
(*    root, groups, nverts}                                                *)
(* with cells as <<kind, index, mask>>, kind "E" | "F" | "I" | "B" | "L"   *)
(* (a leaf's third component is its corner mask, not a vertex count: the   *)
(* leaves' vertex blocks are compared through their first index).          *)
(*                                                                         *)
(* Checked on every recorded build, with the operators of OctreeMerge.tla  *)
(* (A = 8) wherever they apply to recorded data:                           *)
(*   merge-is-the-model's  Merge of OctreeMerge.tla applied to the         *)
(*                 recorded local octrees, in task order, starting from    *)
(*                 the placeholder groups of the pre-split, gives the      *)
(*                 recorded merged octree group for group, except for the  *)
(*                 cells the fix-up rewrote (DRIFT if not: implementation  *)
(*                 shaped)                                                 *)
(*   InBounds / NoInvalid  of the merged octree (rejected if not: the dual *)
(*                 walk would index out of bounds or meet a placeholder)   *)
(*   Isomorphic    under every task's position whose ancestors the fix-up  *)
(*                 left as branches, the merged octree denotes what that   *)
(*                 worker's local octree denotes, leaf for leaf, with the  *)
(*                 vertex blocks shifted by the number of vertices that    *)
(*                 precede (rejected if not)                               *)
(*   offsets       the merged vertex array holds at least the vertices of  *)
(*                 all tasks (a collapse in the fix-up appends its own)    *)
(***************************************************************************)
EXTENDS Integers, Sequences, FiniteSets, TLC, Json, IOUtils

Rec == ndJsonDeserialize(IOEnv.TRACE)
VARIABLE l
vars == <<l>>

\* OctreeMerge with arity 8; Target and the state variable are not used by the operators applied here
OM == INSTANCE OctreeMerge WITH A <- 8, Target <- 1, c <- <<"none", <<>> >>

Cell(x) == IF x[1] = "L" THEN <<"L", x[2], x[3]>> ELSE IF x[1] = "B" THEN <<"B", x[2]>> ELSE <<x[1]>>
Groups(gs) == [g \in 1..Len(gs) |-> [j \in 1..8 |-> Cell(gs[g][j])]]
\* vertices are anonymous here: a local octree's vertex array is represented by its length only
Local(t) == [root |-> Cell(t.root), groups |-> Groups(t.groups), verts |-> [k \in 1..t.nverts |-> 0]]
Merged(r) == [root |-> Cell(r.root), groups |-> Groups(r.groups), verts |-> [k \in 1..r.nverts |-> 0]]

NSplit(r) == Len(r.fix)
\* the octree before the merge: one placeholder group per split
Start(r) == [root |-> OM!I, groups |-> [g \in 1..NSplit(r) |-> [j \in 1..8 |-> OM!I]], verts |-> <<>>]
Queue(r) == [i \in 1..Len(r.tasks) |-> <<r.tasks[i].pos[1], r.tasks[i].pos[2]>>]
Locals(r) == [i \in 1..Len(r.tasks) |-> Local(r.tasks[i])]
ModelMerge(r) == OM!Merge(Start(r), Queue(r), Locals(r), 1)

\* cells the fix-up may have rewritten: the split cells themselves
FixPos(r) == {<<r.fix[k][1], r.fix[k][2]>> : k \in 1..NSplit(r)}
\* A group reserved by a split is *alive* in the merged octree if the split cell is still a Branch to it and the split
\* cell's own group is alive, up to the root.  When the fix-up turns a split cell into Empty / Full / a collapsed Leaf,
\* check_done drops the children group (at the tail of the array) or overwrites it with placeholders (in the middle):
\* such groups, and everything below them, are dead and never looked at again.
RECURSIVE GroupAlive(_, _, _, _)
GroupAlive(r, m, g, fuel) ==
  /\ fuel > 0 /\ g >= 0 /\ g < Len(m.groups)
  /\ \E k \in 1..NSplit(r) : /\ r.fix[k][3] = g
                              /\ (r.fix[k][1] = -1 \/ GroupAlive(r, m, r.fix[k][1], fuel - 1))
                              /\ OM!Get(m, <<r.fix[k][1], r.fix[k][2]>>) = OM!Branch(g)
PosAlive(r, m, pos) == pos[1] = -1 \/ GroupAlive(r, m, pos[1], 12)
\* groups appended by the merge (not reserved by a split) hang below a task position
SameButFixed(r, a, b) ==
  \* (a collapse performed by the fix-up appends its vertex to the merged array and may drop groups from its tail)
  /\ Len(b.groups) <= Len(a.groups) /\ Len(a.verts) <= Len(b.verts)
  /\ \A g \in 1..Len(b.groups) : \A j \in 1..8 :
        \/ a.groups[g][j] = b.groups[g][j]
        \/ <<g - 1, j>> \in FixPos(r)
        \/ (g <= NSplit(r) /\ ~GroupAlive(r, b, g - 1, 12))       \* a dead split group: placeholders

\* leaves compared with their vertex blocks shifted back by the vertices that precede the task
RECURSIVE Shape(_, _, _)
Shape(o, cell, voff) ==
  CASE cell[1] = "L" -> <<"leaf", cell[2] - voff, cell[3]>>
    [] cell[1] = "B" -> <<"branch", [j \in 1..8 |-> Shape(o, o.groups[cell[2] + 1][j], voff)]>>
    [] OTHER -> <<cell[1]>>
RECURSIVE VOff(_, _)
VOff(r, i) == IF i = 1 THEN 0 ELSE VOff(r, i - 1) + r.tasks[i - 1].nverts
\* (the third component of a recorded leaf is its corner mask, so only the first vertex index can be bounded here)
\* the cells reachable from the root, not descending through a Branch whose index is out of range
RECURSIVE SafeCells(_, _, _)
SafeCells(o, cell, fuel) ==
  IF cell[1] = "B" /\ cell[2] >= 0 /\ cell[2] < Len(o.groups) /\ fuel > 0
  THEN {cell} \cup UNION {SafeCells(o, o.groups[cell[2] + 1][j], fuel - 1) : j \in 1..8} ELSE {cell}
InBounds(o) == \A cell \in SafeCells(o, o.root, 12) :
                 /\ (cell[1] = "B" => cell[2] >= 0 /\ cell[2] < Len(o.groups))
                 /\ (cell[1] = "L" => cell[2] >= 0 /\ cell[2] < Len(o.verts))

Fails(r) ==
  IF r.status = "panic" THEN {"crash"} ELSE IF r.status # "ok" THEN {"no-octree"} ELSE
  LET m == Merged(r) IN
     (IF InBounds(m) THEN {} ELSE {"index-out-of-bounds"})
  \cup (IF \A cell \in SafeCells(m, m.root, 12) : cell # OM!I THEN {} ELSE {"placeholder-left"})
  \cup (IF ~InBounds(m) \/ \A i \in 1..Len(r.tasks) :
            LET pos == Queue(r)[i] IN
            ~PosAlive(r, m, pos) \/ Shape(m, OM!Get(m, pos), VOff(r, i)) = Shape(Local(r.tasks[i]), Local(r.tasks[i]).root, 0)
        THEN {} ELSE {"task-subtree-differs"})
  \cup (IF r.nverts >= VOff(r, Len(r.tasks) + 1) THEN {} ELSE {"vertex-total"})
Drift(r) == r.status = "ok" /\ ~SameButFixed(r, ModelMerge(r), Merged(r))

Init == l = 1
Next == /\ l <= Len(Rec)
        /\ l' = l + 1
        /\ (IF Fails(Rec[l]) = {} THEN TRUE ELSE PrintT(<<"REJECT", Rec[l].id, Fails(Rec[l])>>))
        /\ (IF Drift(Rec[l]) THEN PrintT(<<"DRIFT", Rec[l].id>>) ELSE TRUE)
Spec == Init /\ [][Next]_vars
Consumed == TLCGet("stats").diameter - 1 = Len(Rec) \/ PrintT(<<"UNCONSUMED", TLCGet("stats").diameter, Len(Rec)>>)
==============================================================================
