SPECIFICATION Spec
CONSTANTS MaxEvents = 5  ZoomRefreshesHandle = TRUE  FlagAsWritten = FALSE
INVARIANT DragKeepsGrabbedPoint
VIEW View
CHECK_DEADLOCK FALSE
