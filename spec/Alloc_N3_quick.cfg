SPECIFICATION Spec
CONSTANTS N = 3  MaxLive = 4  MaxOps = 6
INVARIANT Valid
INVARIANT Consistent
INVARIANT RegsInverse
INVARIANT Done
INVARIANT NoPanic
INVARIANT SlotBound
VIEW View
CHECK_DEADLOCK FALSE
