SPECIFICATION Spec
POSTCONDITION Consumed
CHECK_DEADLOCK FALSE
