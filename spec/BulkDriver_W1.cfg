SPECIFICATION Spec
CONSTANTS W = 1  MaxN = 9
INVARIANT InBounds
INVARIANT Covered
INVARIANT WidthFits
CHECK_DEADLOCK FALSE
