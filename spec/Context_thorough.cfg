SPECIFICATION Spec
CONSTANTS MaxCalls = 3
INVARIANT Meaning
INVARIANT NoDup
INVARIANT NoImmImm
CHECK_DEADLOCK FALSE
