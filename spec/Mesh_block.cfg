SPECIFICATION SpecNoCollapse
CONSTANT NoCollapseRun = TRUE
CONSTANT Depth = 2
CONSTANT NFree = 112
INVARIANT ManifoldIffNoSharedAmbiguous
INVARIANT EmitField
CHECK_DEADLOCK FALSE
