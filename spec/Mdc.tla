-------------------------------- MODULE Mdc --------------------------------
(***************************************************************************)
(* Manifold dual contouring tables, recomputed by the algorithm of         *)
(* fidget-mesh/build.rs (connected regions of filled corners -> one vertex *)
(* each -> the directed cell edges leaving the region), and the topology-  *)
(* safety test of cell collapsing (Octree::collapsible: every child is an  *)
(* empty, full or single-vertex leaf; the three sign predicates of Ju et   *)
(* al. 2002 section 4.1; the merged cell has a single vertex).             *)
(***************************************************************************)
EXTENDS Integers, Sequences, FiniteSets, TLC

X == 1  Y == 2  Z == 4
Has(c, ax) == (c \div ax) % 2 = 1
Or(c, m) == \* bitwise or of corner c with corner/axis mask m (both < 8)
   (IF Has(c, 1) \/ Has(m, 1) THEN 1 ELSE 0) + (IF Has(c, 2) \/ Has(m, 2) THEN 2 ELSE 0) + (IF Has(c, 4) \/ Has(m, 4) THEN 4 ELSE 0)
Flip(c, ax) == IF Has(c, ax) THEN c - ax ELSE c + ax
NextAx(ax) == IF ax = 4 THEN 1 ELSE 2 * ax
AxIdx(ax) == IF ax = 1 THEN 0 ELSE IF ax = 2 THEN 1 ELSE 2
Frames == <<<<1, 2, 4>>, <<2, 4, 1>>, <<4, 1, 2>>>>
FrameOf(t) == <<t, NextAx(t), NextAx(NextAx(t))>>
NextFrame(T) == FrameOf(T[2])
Mul(ax, b) == IF b THEN ax ELSE 0

\* ------------------------------------------------------------------ tables
Filled(m) == {c \in 0..7 : (m \div (2^c)) % 2 = 1}
Empty(m) == (0..7) \ Filled(m)
RECURSIVE Grow(_, _)
Grow(S, R) == LET R2 == R \cup {c \in S : \E ax \in {1, 2, 4} : Flip(c, ax) \in R} IN
              IF R2 = R THEN R ELSE Grow(S, R2)
Regions(S) == {Grow(S, {c}) : c \in S}
RMask(R) == LET RECURSIVE Sum(_) Sum(T) == IF T = {} THEN 0 ELSE LET c == CHOOSE c \in T : TRUE IN 2^c + Sum(T \ {c}) IN Sum(R)
\* regions sorted ascending by mask value
RECURSIVE SortRegs(_)
SortRegs(RS) == IF RS = {} THEN <<>> ELSE
   LET r == CHOOSE r \in RS : \A q \in RS : RMask(r) <= RMask(q) IN <<r>> \o SortRegs(RS \ {r})
\* candidate directed edges in the build script's insertion order
EdgeOrder == [q \in 1..24 |->
   LET rev == (q - 1) \div 12
       ti == ((q - 1) \div 4) % 3
       b == ((q - 1) \div 2) % 2
       a == (q - 1) % 2
       t == Frames[ti + 1][1]  u == Frames[ti + 1][2]  v == Frames[ti + 1][3]
       s0 == a * u + b * v
       e0 == s0 + t
   IN IF rev = 0 THEN <<s0, e0>> ELSE <<e0, s0>>]
EdgeId(start, end) == LET t == IF start > end THEN start - end ELSE end - start
                          u == NextAx(t)  v == NextAx(u)
                      IN AxIdx(t) * 4 + (IF Has(start, u) THEN 1 ELSE 0) + (IF Has(start, v) THEN 2 ELSE 0)
\* vertices of a mask: sequence of sequences of directed edges
VertEdges(m) ==
   LET regs == SortRegs(Regions(Filled(m)))
       es(r) == SelectSeq(EdgeOrder, LAMBDA e : e[1] \in r /\ e[2] \in Empty(m))
   IN [i \in 1..Len(regs) |-> es(regs[i])]
\* edge id -> <<vertex offset, intersection offset>> or <<>> when absent
EdgeToVert(m) ==
   LET ve == VertEdges(m)
       nv == Len(ve)
       RECURSIVE Before(_)
       Before(i) == IF i <= 1 THEN 0 ELSE Len(ve[i - 1]) + Before(i - 1)
   IN [e \in 0..11 |->
        IF \E i \in 1..nv : \E j \in 1..Len(ve[i]) : EdgeId(ve[i][j][1], ve[i][j][2]) = e
        THEN LET i == CHOOSE i \in 1..nv : \E j \in 1..Len(ve[i]) : EdgeId(ve[i][j][1], ve[i][j][2]) = e
                 j == CHOOSE j \in 1..Len(ve[i]) : EdgeId(ve[i][j][1], ve[i][j][2]) = e
             IN <<i - 1, nv + Before(i) + (j - 1)>>
        ELSE <<>>]
\* computed once (TLC caches constant-level definitions)
Table == [m \in 0..255 |-> EdgeToVert(m)]
NVerts == [m \in 0..255 |-> IF m \in {0, 255} THEN 0 ELSE Len(VertEdges(m))]

\* Edge::corners
ECorners(e) == LET T == Frames[(e \div 4) + 1]
                   u == Mul(T[2], (e % 4) % 2 # 0)
                   v == Mul(T[3], (e % 4) \div 2 # 0)
               IN <<u + v, T[1] + u + v>>

\* Octree::collapsible: returns the collapsed mask or -1
CornerOf(cell, c) == IF cell.k = "L" THEN (cell.mask \div 2^c) % 2 = 1 ELSE cell.k = "F"
Collapsible(kids) ==
  IF \E c \in 1..8 : kids[c].k = "B" \/ (kids[c].k = "L" /\ NVerts[kids[c].mask] > 1) THEN -1
  ELSE
  LET bit(i) == CornerOf(kids[i + 1], i)
      RECURSIVE MM(_) MM(i) == IF i > 7 THEN 0 ELSE (IF bit(i) THEN 2^i ELSE 0) + MM(i + 1)
      m == MM(0)
      frameOK(T) == LET t == T[1] u == T[2] v == T[3] IN
         /\ \A i \in 0..3 : LET a == Mul(u, i % 2 = 1) + Mul(v, i \div 2 = 1)  b == a + t
                                 center == CornerOf(kids[a + 1], b)
                             IN ~(bit(a) # center /\ bit(b) # center)
         /\ \A i \in 0..1 : LET a == Mul(t, i = 0)  b == a + u  c == a + v  d == a + u + v
                                 center == CornerOf(kids[a + 1], d)
                             IN ~(bit(a) # center /\ bit(b) # center /\ bit(c) # center /\ bit(d) # center)
         /\ LET center == CornerOf(kids[1], 7) IN ~(\A q \in 0..7 : bit(q) # center)
  IN IF frameOK(Frames[1]) /\ frameOK(Frames[2]) /\ frameOK(Frames[3]) /\ m \notin {0, 255} /\ NVerts[m] = 1 THEN m ELSE -1


(* the same test on eight child corner masks (0 = empty, 255 = full), as recorded by the collapse hook *)
KidOfMask(m) == [k |-> IF m = 0 THEN "E" ELSE IF m = 255 THEN "F" ELSE IF m < 0 THEN "B" ELSE "L", mask |-> IF m < 0 THEN 0 ELSE m]
CollapsibleMasks(ms) == Collapsible([c \in 1..8 |-> KidOfMask(ms[c])])

(* table invariants (checked by TLC through MC_Mdc): every sign change edge of a mask belongs to exactly *)
(* one vertex, a vertex's edges all start in one connected filled region                                  *)
SignChange(m, e) == LET co == ECorners(e) IN ((m \div 2^(co[1])) % 2) # ((m \div 2^(co[2])) % 2)
TableOK(m) == m \in {0, 255} \/
              /\ \A e \in 0..11 : SignChange(m, e) <=> Table[m][e] # <<>>
              /\ \A e \in 0..11 : Table[m][e] # <<>> => Table[m][e][1] \in 0..(NVerts[m] - 1)
              /\ NVerts[m] = Cardinality(Regions(Filled(m)))
              /\ NVerts[m] <= 4
=============================================================================
