SPECIFICATION Spec
CONSTANTS W = 8  MaxN = 40
INVARIANT InBounds
INVARIANT Covered
INVARIANT WidthFits
CHECK_DEADLOCK FALSE
