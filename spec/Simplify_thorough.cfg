SPECIFICATION Spec
CONSTANTS MaxLive = 4 MaxOps = 5 AssertAsWritten = FALSE
INVARIANT WellFormed
INVARIANT Preserves
INVARIANT CodeAssert
CHECK_DEADLOCK FALSE
