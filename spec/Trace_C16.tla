------------------------------ MODULE Trace_C16 ------------------------------
(***************************************************************************)
(* Trace specification for C16.  Each line is a shape term enumerated by   *)
(* MC_Shapes.tla, built with the real library structs (named and generic   *)
(* forms, angles written modulo a turn), converted to a tree and evaluated *)
(* at lattice points.  Shapes!Side decides, exactly, whether each point is *)
(* inside or outside the documented solid; points on the surface and       *)
(* points the exact model cannot decide are skipped.                       *)
(***************************************************************************)
EXTENDS Integers, Sequences, FiniteSets, TLC, Json, IOUtils, Shapes

Rec == ndJsonDeserialize(IOEnv.TRACE)
VARIABLE l
vars == <<l>>

PointOk(r, k) == LET e == Side(r.term, F3(r.pts[k])) IN e \in {0, Undef} \/ r.sign[k] = e
(* transforms and planes in general position (float parameters, arbitrary axes incl. directions within a few       *)
(* milliradians of a coordinate axis, points up to 1000 units away): the recorder evaluates the transformed shape at p *)
(* and the untransformed one at T^-1 p (the documented action, computed in f64); want = 0 marks a point within the     *)
(* rounding band of either surface (judged)                                                                            *)
LawOk(r) == Len(r.sign) = Len(r.want) /\ \A k \in 1..Len(r.want) : r.want[k] = 0 \/ r.sign[k] = r.want[k]
Fails(r) == IF r.panic # "" THEN {"crash"}
            ELSE IF r.ev = "law" THEN (IF LawOk(r) THEN {} ELSE {"law-" \o r.kind})
            ELSE IF Len(r.sign) = Len(r.pts) /\ \A k \in 1..Len(r.pts) : PointOk(r, k) THEN {} ELSE {"geometry-" \o r.term[1]}

Init == l = 1
Next == /\ l <= Len(Rec)
        /\ l' = l + 1
        /\ LET f == Fails(Rec[l]) IN f = {} \/ PrintT(<<"REJECT", Rec[l].id, f>>)
Spec == Init /\ [][Next]_vars
Consumed == TLCGet("stats").diameter - 1 = Len(Rec) \/ PrintT(<<"UNCONSUMED", TLCGet("stats").diameter, Len(Rec)>>)
==============================================================================
