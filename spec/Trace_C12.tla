------------------------------ MODULE Trace_C12 ------------------------------
(***************************************************************************)
(* Trace specification for C12.  `expr` lines: an expression was built     *)
(* through the real Context constructors (constant folding, identity       *)
(* elimination, operand reordering, deduplication) and, independently, the *)
(* unsimplified expression was evaluated operation by operation.           *)
(*   - values agree (bit for bit, NaN~NaN, sign of zero free) whenever the *)
(*     unsimplified evaluation stayed finite throughout and no zero        *)
(*     reached an operation that distinguishes -0 from +0 or hashes bit    *)
(*     patterns (the arena hash-conses 0.0 and -0.0);                      *)
(*   - building the same expression twice gives the same nodes and does    *)
(*     not grow the arena; import(export(n)) = n;                          *)
(*   - structurally equal trees compare and hash equal.                    *)
(* `treeconst`: constants that compare equal must hash equal.  `deep`:     *)
(* 10^5..10^6-deep expressions are built, compared, hashed, imported,      *)
(* exported, differentiated and dropped on a 256 KiB stack.                *)
(***************************************************************************)
EXTENDS Integers, Sequences, FiniteSets, TLC, Json, IOUtils, Floats

Rec == ndJsonDeserialize(IOEnv.TRACE)
VARIABLE l
vars == <<l>>

Sensitive(e) == (\E k \in 1..Len(e.zs) : IsZero(e.zs[k]))
             \/ (\E k \in 1..Len(e.bs) : IsZero(e.bs[k]) \/ IsNaN(e.bs[k]))
EvalOk(r, e) == ~e.finite \/ Sensitive(e) \/
   (Len(e.built) = r.nout /\ Len(e.direct) = r.nout /\ \A o \in 1..r.nout : SameZ(e.built[o], e.direct[o]))

ExprFails(r) ==
  IF r.panic # "" THEN {"crash"} ELSE
     (IF r.dedup /\ r.same_len THEN {} ELSE {"dedup"})
  \cup (IF r.roundtrip THEN {} ELSE {"roundtrip"})
  \cup (IF r.tree_eq THEN {} ELSE {"tree-eq-hash"})
  \cup (IF \A k \in 1..Len(r.evals) : EvalOk(r, r.evals[k]) THEN {} ELSE {"value"})

Fails(r) == CASE r.ev = "expr" -> ExprFails(r)
              [] r.ev = "treeconst" -> (IF r.eq => (r.hash_eq /\ r.found) THEN {} ELSE {"equal-trees-hash-differently"})
              [] r.ev = "deep" -> (IF r.ok THEN {} ELSE {"deep-recursion"})
              \* a history with Context::clear: the nodes built afterwards are deduplicated among themselves and evaluate
              \* to the values of the expressions they were asked to mean
              [] r.ev = "clear" -> (IF r.panic = "" /\ r.distinct /\ r.values THEN {} ELSE {"after-clear"})
              \* a shared subtree used plainly and under a remap, imported into a fresh and into a long-lived context
              [] r.ev = "shared-import" -> (IF r.panic = "" /\ \A k \in 1..Len(r.evals) : SameZ(r.evals[k].fresh, r.evals[k].want) /\ SameZ(r.evals[k].long, r.evals[k].want)
                                            THEN {} ELSE {"shared-import"})
              \* programs in the text format of Context::from_text: a constant is the correctly rounded f32 of its decimal
              \* literal (literals next to the midpoint of two adjacent floats), every opcode means what its name says
              [] r.ev = "text" -> (IF r.status = "ok" /\ (~r.finite \/ \A k \in 1..Len(r.want) : SameZ(r.got[k], r.want[k])) THEN {} ELSE {"text"})
              [] OTHER -> {"unknown-event"}

Init == l = 1
Next == /\ l <= Len(Rec)
        /\ l' = l + 1
        /\ LET f == Fails(Rec[l]) IN f = {} \/ PrintT(<<"REJECT", Rec[l].id, f>>)
Spec == Init /\ [][Next]_vars
Consumed == TLCGet("stats").diameter - 1 = Len(Rec) \/ PrintT(<<"UNCONSUMED", TLCGet("stats").diameter, Len(Rec)>>)
==============================================================================
