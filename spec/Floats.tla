------------------------------- MODULE Floats -------------------------------
(***************************************************************************)
(* IEEE-754 binary32 values as seen by the specifications.                 *)
(*                                                                         *)
(* Every f32 recorded from the implementation is logged as its bit pattern *)
(* reinterpreted as a signed 32-bit integer.  Bit-for-bit equality is      *)
(* integer equality; the total order of the non-NaN floats is the order of *)
(* Key(b) (sign-magnitude folded, -0 and +0 both 0).  All the relations    *)
(* the properties use ("NaN matches NaN", "sign of zero may differ",       *)
(* "within k ulps", interval well-formedness and enclosure) are defined    *)
(* here once.  TLC integers are 32 bit: nothing below leaves that range.   *)
(***************************************************************************)
EXTENDS Integers

MaxI == 2147483647
\* magnitude bits (sign cleared); b + 2^31 for negative b, without overflow
Mag(b) == IF b >= 0 THEN b ELSE (b + MaxI) + 1
InfMag == 2139095040                     \* 0x7F800000
IsNaN(b) == Mag(b) > InfMag
IsInf(b) == Mag(b) = InfMag
IsFinite(b) == Mag(b) < InfMag
IsZero(b) == Mag(b) = 0
IsNeg(b) == b < 0                        \* sign bit set (incl. -0, -NaN)
\* order-isomorphic key of a non-NaN float
Key(b) == IF b >= 0 THEN b ELSE -Mag(b)
Lt(a, b) == ~IsNaN(a) /\ ~IsNaN(b) /\ Key(a) < Key(b)
Le(a, b) == ~IsNaN(a) /\ ~IsNaN(b) /\ Key(a) <= Key(b)
EqNum(a, b) == ~IsNaN(a) /\ ~IsNaN(b) /\ Key(a) = Key(b)   \* IEEE ==, so -0 = +0

\* "bit-for-bit, NaN matching NaN"
SameF(a, b) == a = b \/ (IsNaN(a) /\ IsNaN(b))
\* ... and additionally a zero may differ in sign
SameZ(a, b) == SameF(a, b) \/ (IsZero(a) /\ IsZero(b))

\* |Key(a) - Key(b)| <= k without leaving 32 bits
Near(a, b, k) ==
  /\ ~IsNaN(a) /\ ~IsNaN(b)
  /\ IF (Key(a) >= 0) = (Key(b) >= 0)
     THEN (IF Key(a) >= Key(b) THEN Key(a) - Key(b) ELSE Key(b) - Key(a)) <= k
     ELSE Mag(a) <= k /\ Mag(b) <= k /\ Mag(a) + Mag(b) <= k
\* Key(lo) - k <= Key(v) <= Key(hi) + k
Within(lo, v, hi, k) ==
  /\ ~IsNaN(lo) /\ ~IsNaN(hi) /\ ~IsNaN(v)
  /\ (Le(lo, v) \/ Near(lo, v, k))
  /\ (Le(v, hi) \/ Near(v, hi, k))

\* intervals are pairs <<lo, hi>> of bit patterns
IsNaNInterval(i) == IsNaN(i[1]) /\ IsNaN(i[2])
WellFormed(i) == IsNaNInterval(i) \/ (~IsNaN(i[1]) /\ ~IsNaN(i[2]) /\ Key(i[1]) <= Key(i[2]))

\* exponent / mantissa decoding of small integers (|v| < 2^24): used by the
\* exact sub-language Z, where f32 arithmetic is exact
Pow2(n) == IF n <= 0 THEN 1 ELSE 2 ^ n
IsSmallInt(b) ==
  \/ IsZero(b)
  \/ LET e == Mag(b) \div 8388608  m == Mag(b) % 8388608 IN
       e >= 127 /\ e <= 150 /\ (8388608 + m) % Pow2(150 - e) = 0
IntOf(b) ==
  IF IsZero(b) THEN 0
  ELSE LET e == Mag(b) \div 8388608  m == Mag(b) % 8388608
           v == (8388608 + m) \div Pow2(150 - e)
       IN IF b < 0 THEN -v ELSE v
=============================================================================
