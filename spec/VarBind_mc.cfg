SPECIFICATION Spec
CONSTANTS NFree = 2  MaxEncounters = 5
INVARIANT Dense
INVARIANT Injective
INVARIANT FirstEncounter
INVARIANT SlotIdentity
INVARIANT Errors
CHECK_DEADLOCK FALSE
