------------------------------ MODULE Trace_C01 ------------------------------
(***************************************************************************)
(* Trace specification for C01: every line is one observation of the real  *)
(* compile chain (SsaTape -> RegisterAllocator<N> -> interpreter), judged   *)
(* by the property-level statement only:                                   *)
(*   - the recorded register tape implements the recorded SSA tape         *)
(*     (Tapes!Implements, index discipline Tapes!Bounds);                   *)
(*   - a budget the allocator accepts (N >= 3) never panics; a smaller one *)
(*     either panics (fails loudly) or is held to the same statement;      *)
(*   - point and many-point interpreter results equal, bit for bit (NaN    *)
(*     matching NaN), the reference = the graph evaluated operation by     *)
(*     operation, for every output, one result per requested sample, also  *)
(*     for calls over thousands of samples;                                *)
(*   - for programs of the exact sub-language Z the value is additionally  *)
(*     recomputed here, in Integers, from the SSA tape.                    *)
(* A rejected line is reported and the run continues with the next line.   *)
(***************************************************************************)
EXTENDS Integers, Sequences, FiniteSets, TLC, Json, IOUtils, Tapes

Rec == ndJsonDeserialize(IOEnv.TRACE)
VARIABLE l
vars == <<l>>

SeqSame(x, y) == Len(x) = Len(y) /\ \A i \in 1..Len(x) : SameF(x[i], y[i])

ZOk(r, e) ==
  IF "zin" \notin DOMAIN e THEN TRUE
  ELSE LET z == ZRun(r.ssa, e.zin) IN
       ~z[3] \/ (Len(e.zout) = r.nout /\ \A k \in 1..r.nout : (k - 1) \in DOMAIN z[2] /\ z[2][k - 1] = e.zout[k])

\* Rand and Mix hash the bit pattern of their operands.  The property lets
\* evaluators differ in NaN payload and sign, so once a NaN reaches such an
\* operand the downstream values are unrelated by design: the evaluation is
\* "tainted" and only its result counts are judged.
Tainted(e) == \E k \in 1..Len(e.bs) : IsNaN(e.bs[k])

(* a tape without variables has no input columns, so a many-point evaluation cannot say how many samples are *)
(* wanted and returns none: the slice clauses only apply when the tape reads at least one variable           *)
NoVars(r) == \A k \in 1..Len(r.ssa) : r.ssa[k][1] # 1
EvalFails(r, e) ==
  LET slOK == NoVars(r) \/ Len(e.sl) = r.nout IN
  IF Tainted(e) THEN (IF Len(e.pt) = r.nout /\ slOK THEN {} ELSE {"count"}) ELSE
     (IF Len(e.pt) = r.nout /\ slOK /\ Len(e.ref) = r.nout THEN {} ELSE {"count"})
  \cup (IF SeqSame(e.pt, e.ref) THEN {} ELSE {"point"})
  \cup (IF NoVars(r) \/ SeqSame(e.sl, e.ref) THEN {} ELSE {"slice"})
  \cup (IF ZOk(r, e) THEN {} ELSE {"zvalue"})

(* a many-point call over 1024 .. 4099 samples (every 16th tape): exactly one result per requested sample for every  *)
(* output, each equal, bit for bit, to what the short call returned for the same inputs (compared by the recorder)    *)
LongOk(r) == "long" \notin DOMAIN r \/
             (r.long.bad = 0 /\ Len(r.long.lens) = r.nout /\ \A k \in 1..Len(r.long.lens) : r.long.lens[k] = r.long.len)

Fails(r) ==
  IF r.panic THEN (IF r.n < 3 THEN {} ELSE {"panic"})
  ELSE (IF Implements(r.ssa, r.asm, r.nout) THEN {} ELSE {"implements"})
    \cup (IF Bounds(r.asm, r.n, r.slots) THEN {} ELSE {"bounds"})
    \cup (IF SsaWellFormed(r.ssa) THEN {} ELSE {"ssa"})
    \cup (IF r.nch = CountChoices(r.ssa) /\ r.nout = CountClass(r.ssa, 0) THEN {} ELSE {"counts"})
    \cup (IF r.err = "" THEN {} ELSE {"err"})
    \cup (IF LongOk(r) THEN {} ELSE {"slice-long"})
    \cup UNION {EvalFails(r, r.evals[k]) : k \in 1..Len(r.evals)}

(* DAGs emitted by Flatten.tla and built through the real Context: the recorded SSA tape is, op for op, the tape the *)
(* model of SsaTape::new predicts (implementation-shaped: a different but well-formed tape is drift, not a violation) *)
Drift(r) == "flat" \in DOMAIN r /\ ~r.panic /\ r.flat.same_dag /\
            (r.flat.model # r.flat.real \/ r.nch # r.flat.choices)

Init == l = 1
Next == /\ l <= Len(Rec)
        /\ l' = l + 1
        /\ LET f == Fails(Rec[l]) IN f = {} \/ PrintT(<<"REJECT", Rec[l].id, f>>)
        /\ (~Drift(Rec[l]) \/ PrintT(<<"DRIFT", Rec[l].id>>))
Spec == Init /\ [][Next]_vars
Consumed == TLCGet("stats").diameter - 1 = Len(Rec) \/ PrintT(<<"UNCONSUMED", TLCGet("stats").diameter, Len(Rec)>>)
==============================================================================
