SPECIFICATION Spec
CONSTANTS TS <- TS21 W = 2 H = 2 D = 3 Clamp = "gt-d"
INVARIANT AssertsOk
INVARIANT Correct
INVARIANT ClampedAbove
INVARIANT NormalAtHit
CHECK_DEADLOCK FALSE
