SPECIFICATION Spec
CONSTANTS TS <- TS21 W = 3 H = 2 FillMode = TRUE
INVARIANT Correct
INVARIANT WrittenOnce
INVARIANT InBuffer
INVARIANT StepsAgree
CHECK_DEADLOCK FALSE
