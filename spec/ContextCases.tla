----------------------------- MODULE ContextCases -----------------------------
(***************************************************************************)
(* Operand-class cases of the constructor rewrite table (C12), enumerated  *)
(* so that the harness builds one implementation test per case:            *)
(*   unary2 : every unary opcode applied to every unary opcode             *)
(*   binary : every binary opcode x operand classes (variable, expression, *)
(*            the same node, constants 0, -0, 1, -1, 2, inf, NaN, +-1e8)   *)
(*   nested : (x op c1) op c2 and c2 op (c1 op x) for constant pairs       *)
(*            (constant merging must not change f32 results)               *)
(***************************************************************************)
EXTENDS Integers, Sequences, FiniteSets, TLC, Json
Unary == {"Neg", "Abs", "Recip", "Sqrt", "Square", "Floor", "Ceil", "Round", "Sin", "Cos", "Tan",
          "Asin", "Acos", "Atan", "Exp", "Ln", "Not", "Rand"}
Binary == {"Add", "Sub", "Mul", "Div", "Atan", "Min", "Max", "Compare", "Mod", "And", "Or", "Mix"}
ClassA == {"x", "expr", "c0", "cm0", "c1", "cm1", "c2", "cinf", "cnan", "cbig"}
ClassB == {"same", "y", "c0", "cm0", "c1", "cm1", "c2", "cinf", "cnan", "cmbig"}
Merge == {"c1", "c2", "cbig", "cmbig", "c0", "cm1"}
Cases ==
     {[kind |-> "unary2", inner |-> i, outer |-> o] : i \in Unary, o \in Unary}
  \cup {[kind |-> "binary", op |-> b, a |-> x, b |-> y] : b \in Binary, x \in ClassA, y \in ClassB}
  \cup {[kind |-> "nested", op |-> b, c1 |-> x, c2 |-> y, left |-> l] : b \in {"Add", "Sub", "Mul", "Min", "Max"}, x \in Merge, y \in Merge, l \in BOOLEAN}
VARIABLE cur
Init == cur \in Cases
Next == UNCHANGED cur
Spec == Init /\ [][Next]_cur
Emit == PrintT(<<"GEN", ToJson(cur)>>)
===============================================================================
