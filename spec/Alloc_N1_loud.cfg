SPECIFICATION Spec
CONSTANTS N = 1  MaxLive = 4  MaxOps = 6
INVARIANT Loud
VIEW View
CHECK_DEADLOCK FALSE
