SPECIFICATION Spec
CONSTANT K = 3
INVARIANT Correct
INVARIANT Emit
CHECK_DEADLOCK FALSE
