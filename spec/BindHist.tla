------------------------------ MODULE BindHist ------------------------------
(***************************************************************************)
(* Histories that must not influence variable binding (C14).               *)
(*                                                                         *)
(* Shapes differ in the order in which they number the same variables.     *)
(* Two kinds of object are reused across shapes:                           *)
(*  - storage: simplification writes the child into a storage recycled     *)
(*    from any earlier shape (which still carries that shape's variable    *)
(*    map); the child must come out with ITS parent's map;                 *)
(*  - the scratch of a bulk evaluator: one slice per variable slot, each   *)
(*    of the current sample count; after evaluating a shape with k slots   *)
(*    at n samples, an evaluation with k' slots at n' samples must hand    *)
(*    exactly k' slices of length n' to the inner evaluator (transcribed   *)
(*    from ShapeBulkEval::eval_raw: resize the outer vector to             *)
(*    max(k', 1), then every inner slice to n').                           *)
(* TLC explores every history of simplifications and evaluations over a    *)
(* small family of shapes and sample counts.                               *)
(***************************************************************************)
EXTENDS Integers, Sequences, FiniteSets, TLC

CONSTANTS NVars, MaxSteps
Names == 1..NVars
(* a shape = the sequence of its variables in slot order (any non-empty injective sequence over Names, or none) *)
Orders == {s \in UNION {[1..k -> Names] : k \in 0..NVars} : \A i, j \in DOMAIN s : i # j => s[i] # s[j]}
Counts == {1, 2, 3}

VARIABLES storage,   \* the variable map carried by the storage object in hand
          scratch,   \* lengths of the bulk evaluator's slices
          last,      \* what the last action produced: [kind, map / slices, expected ...]
          steps
vars == <<storage, scratch, last, steps>>

Init == storage = <<>> /\ scratch = <<>> /\ last = [kind |-> "none"] /\ steps = 0

(* simplify shape s into the storage in hand; afterwards the child is recycled and becomes the storage *)
Simplify(s) ==
  /\ steps < MaxSteps /\ steps' = steps + 1
  /\ LET child == s IN           \* VmData::simplify: the child takes the parent's map, whatever the storage held
       /\ last' = [kind |-> "simplify", map |-> child, parent |-> s]
       /\ storage' = child
  /\ UNCHANGED scratch

Max(a, b) == IF a > b THEN a ELSE b
Eval(s, n) ==
  /\ steps < MaxSteps /\ steps' = steps + 1
  /\ LET k == Max(Len(s), 1)
         resized == [i \in 1..k |-> n]      \* outer resize to k, then every slice resized to n
     IN /\ scratch' = resized
        /\ last' = [kind |-> "eval", slices |-> resized, k |-> k, n |-> n]
  /\ UNCHANGED storage

Next == (\E s \in Orders : Simplify(s)) \/ (\E s \in Orders, n \in Counts : Eval(s, n))
Spec == Init /\ [][Next]_vars

ChildKeepsParentMap == last.kind = "simplify" => last.map = last.parent
InnerArgumentsAgree == last.kind = "eval" => Len(last.slices) = last.k /\ \A i \in 1..Len(last.slices) : last.slices[i] = last.n
=============================================================================
