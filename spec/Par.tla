---------------------------------- MODULE Par ----------------------------------
(***************************************************************************)
(* Task fan-out with a cancel token (C09): render_tiles in                 *)
(* fidget-raster/src/lib.rs and Octree::build_inner_mt in                  *)
(* fidget-mesh/src/octree.rs.                                              *)
(* T tasks (root tiles / pre-split octree cells) are claimed by K workers  *)
(* in any order and interleaving; every worker has private state           *)
(* (evaluators, a clone of the render handle with its own simplification   *)
(* cache, storage pools) created by `init`, possibly several times per     *)
(* thread (rayon's map_init); each task polls the token when it starts;    *)
(* Cancel may fire at any moment; the results are collected in task order  *)
(* into Result<Vec>/Option<Vec>: an Err/None from any task makes the whole *)
(* run None.                                                               *)
(* Invariants at completion:                                               *)
(*   AllOrNothing  - the run returns None or the complete, ordered list    *)
(*   NoneIffPolled - it returns None iff some poll observed the flag       *)
(*   NeverSet      - a token that is never set gives a result              *)
(*   Unobservable  - each task's output is a function of the task alone    *)
(*                   (not of the worker, its history or the interleaving)  *)
(***************************************************************************)
EXTENDS Integers, Sequences, FiniteSets, TLC

CONSTANTS K, T
Workers == 1..K
Tasks == 1..T

VARIABLES pending,   \* tasks not yet claimed
          running,   \* worker -> task or 0
          out,       \* task -> [s : "unset" | "err" | "ok", v : value]
          wstate,    \* worker -> number of tasks this worker state has processed (its private history)
          flag,      \* the cancel token
          everSet, sawFlag
vars == <<pending, running, out, wstate, flag, everSet, sawFlag>>

Value(t) == t * 10          \* what the task computes, sequentially
Init == /\ pending = Tasks /\ running = [w \in Workers |-> 0]
        /\ out = [t \in Tasks |-> [s |-> "unset", v |-> 0]] /\ wstate = [w \in Workers |-> 0]
        /\ flag = FALSE /\ everSet = FALSE /\ sawFlag = FALSE

Cancel == ~flag /\ flag' = TRUE /\ everSet' = TRUE /\ UNCHANGED <<pending, running, out, wstate, sawFlag>>
Reinit(w) == running[w] = 0 /\ wstate' = [wstate EXCEPT ![w] = 0] /\ UNCHANGED <<pending, running, out, flag, everSet, sawFlag>>
\* claim a task and poll the token (one critical section: the poll is the first thing a task does)
Start(w, t) ==
  /\ running[w] = 0 /\ t \in pending
  /\ pending' = pending \ {t}
  /\ IF flag
     THEN /\ out' = [out EXCEPT ![t] = [s |-> "err", v |-> 0]] /\ sawFlag' = TRUE /\ UNCHANGED <<running, wstate>>
     ELSE /\ running' = [running EXCEPT ![w] = t] /\ UNCHANGED <<out, wstate, sawFlag>>
  /\ UNCHANGED <<flag, everSet>>
\* the task's computation uses the worker's private state (caches, recycled storage) but its
\* result does not depend on it (C10)
Finish(w) ==
  /\ running[w] # 0
  /\ out' = [out EXCEPT ![running[w]] = [s |-> "ok", v |-> Value(running[w])]]
  /\ wstate' = [wstate EXCEPT ![w] = @ + 1]
  /\ running' = [running EXCEPT ![w] = 0]
  /\ UNCHANGED <<pending, flag, everSet, sawFlag>>
Next == Cancel \/ \E w \in Workers : Reinit(w) \/ Finish(w) \/ \E t \in Tasks : Start(w, t)
Spec == Init /\ [][Next]_vars

Complete == pending = {} /\ \A w \in Workers : running[w] = 0
\* collect::<Result<Vec<_>, ()>>().ok()
Collected == IF \E t \in Tasks : out[t].s = "err" THEN <<>> ELSE [t \in Tasks |-> out[t].v]   \* <<>> stands for None
AllOrNothing == Complete => Collected = <<>> \/ Collected = [t \in Tasks |-> Value(t)]
NoneIffPolled == Complete => (Collected = <<>> <=> sawFlag)
NeverSet == (Complete /\ ~everSet) => Collected # <<>>
Unobservable == \A t \in Tasks : out[t].s = "ok" => out[t].v = Value(t)
================================================================================
