SPECIFICATION Spec
CONSTANTS Guarded = FALSE  MaxDepth = 3
INVARIANT NumericEnclosure
INVARIANT HashEnclosure
CHECK_DEADLOCK FALSE
