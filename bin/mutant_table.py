#!/usr/bin/env python3
"""mutant_table.py <round-tag> : markdown rows for DESIGN.md section 9 from seeded/*-<tag>m*/meta.json (field verif_round)"""
import json, glob, sys, re, os
tag = sys.argv[1]
for d in sorted(glob.glob("/verif/seeded/C*-%sm*" % tag)):
    m = json.load(open(d + "/meta.json"))
    v = m.get("verif_round", {})
    summ = re.sub(r"\s+", " ", m.get("summary", ""))[:150].replace("|", "/")
    print("| %s | %s... | %s | %s | %s |" % (os.path.basename(d), summ, v.get("first", "?"), v.get("now", "?"), v.get("clauses", "")))
