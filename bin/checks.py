"""Per-property check pipelines: S (design model), R (TLC-generated behaviours
replayed into the real code), T (trace validation of what the code did)."""
import json, os, sys, re, glob, shutil
from vlib import *


def sample_lines(path, n=3, maxlen=1500):
    out = []
    with open(path) as f:
        for i, line in enumerate(f):
            if i % 997 == 0 or i < 1:
                try:
                    out.append(json.loads(line) if len(line) < maxlen else {"truncated": line[:maxlen]})
                except Exception:
                    pass
            if len(out) >= n:
                break
    return out


def count_where(path, pred):
    n = 0
    for line in open(path):
        try:
            if pred(json.loads(line)):
                n += 1
        except Exception:
            pass
    return n


def crash_violation(res, what, rc, text, inputs):
    """A crash of the code under test inside a recorder is an observation."""
    rdir = os.path.join(ROOT, "replays", res.prop)
    os.makedirs(rdir, exist_ok=True)
    path = os.path.join(rdir, "%s_seed%d_crash.txt" % (res.tier, res.seed))
    with open(path, "w") as f:
        f.write("recorder %s terminated abnormally rc=%s\ninputs: %s\n%s\n" % (what, rc, inputs, text[-4000:]))
    res.violations.append(("crash:%s rc=%s" % (what, rc), path))


# --------------------------------------------------------------------------------------------
def repo_test_traces(res, want):
    """T on the repository's own tests (thorough tier): the tests of the hooked crates are built with the hook cfg into a
    target directory of their own and run with FIDGET_VERIF_TRACE set; the recorded hook events are grouped and
    validated with Trace_Hooks.tla.  `want` selects the record kinds that belong to the calling check."""
    import hashlib, collections
    wd = workdir("repotests")
    rc, head, _ = sh(["git", "-C", "/repo", "rev-parse", "HEAD"], 60)
    rc, diff, _ = sh(["git", "-C", "/repo", "diff"], 60)
    stamp = hashlib.sha1((head + diff).encode()).hexdigest()
    agg = os.path.join(wd, "agg_%s.ndjson" % stamp)
    if not os.path.exists(agg):
        for f in glob.glob(os.path.join(wd, "agg_*.ndjson")):
            os.remove(f)
        raw = os.path.join(wd, "events.ndjson")
        if os.path.exists(raw):
            os.remove(raw)
        env = {"RUSTFLAGS": "--cfg fidget_verif --check-cfg cfg(fidget_verif)", "CARGO_TARGET_DIR": os.path.join(WORK, "target-repotests"),
               "FIDGET_VERIF_TRACE": raw}
        # (fidget-raster is left out since the tile-decision hooks exist: its tests render large images, one event per tile
        # and per hit, and nothing in them says what those decisions should be; the tile hooks are exercised by raster tiles2 / tiles3)
        rc, text, dt = sh(["cargo", "test", "--offline", "-p", "fidget-jit", "-p", "fidget-mesh", "-p", "fidget-solver", "--lib"],
                          6000, cwd="/repo", env=env)
        log("repository tests with hooks on: rc=%d %.0fs" % (rc, dt))
        if not os.path.exists(raw):
            sys.stdout.write(text[-3000:])
            raise ToolError("the repository's tests recorded no hook events")
        # grouping only (no judgement): native calls of one bulk evaluation; distinct records with multiplicity
        bulk = collections.Counter()
        coll = collections.Counter()
        cur = {}
        counts = collections.Counter()
        def close(key):
            g = cur.pop(key, None)
            if g:
                bulk[json.dumps(g, sort_keys=True)] += 1
        for line in open(raw):
            try:
                e = json.loads(line)
            except Exception:
                continue
            counts[e["name"]] += 1
            key = (e["pid"], e["thread"])
            if e["name"] == "bulk_call":
                c = {k: e[k] for k in ("scratch", "offset", "count", "n", "w", "out_len")}
                g = cur.get(key)
                if g is not None and c["offset"] > 0 and g["n"] == c["n"] and g["w"] == c["w"] and len(g["calls"]) < 2:
                    g["calls"].append(c)
                else:
                    close(key)
                    cur[key] = {"ev": "bulk", "n": c["n"], "w": c["w"], "out_len": c["out_len"], "calls": [c]}
            elif e["name"] == "collapse":
                coll[json.dumps({"ev": "collapse", "mask": e["mask"], "c": [e["c%d" % k] for k in range(8)]})] += 1
        for key in list(cur):
            close(key)
        with open(agg, "w") as out:
            i = 0
            for rec, mult in list(bulk.items()) + list(coll.items()):
                r = json.loads(rec)
                r["id"] = i
                r["times"] = mult
                out.write(json.dumps(r) + "\n")
                i += 1
        with open(os.path.join(wd, "counts.json"), "w") as out:
            json.dump(dict(counts, test_rc=rc), out)
        os.remove(raw)
    counts = json.load(open(os.path.join(wd, "counts.json")))
    sel = os.path.join(wd, "sel_%s.ndjson" % "_".join(want))
    nsel = 0
    with open(sel, "w") as out:
        for line in open(agg):
            if json.loads(line)["ev"] in want:
                out.write(line)
                nsel += 1
    if nsel == 0:
        raise ToolError("the repository's tests produced no %s records" % "/".join(want))
    n, rej = validate("Trace_Hooks", sel, wd, timeout=3000)
    res.extra["repository_test_events"] = counts
    res.extra["repository_test_records_validated"] = n - len(rej)
    log("T Trace_Hooks (%s): %d distinct records of the repository's own tests (%s events), %d rejected" % ("/".join(want), n, sum(v for k, v in counts.items() if k != "test_rc"), len(rej)))
    rdir = os.path.join(ROOT, "replays", res.prop)
    os.makedirs(rdir, exist_ok=True)
    for line in open(sel):
        r = json.loads(line)
        if r["id"] in rej:
            path = os.path.join(rdir, "%s_seed%d_repotests_%d.ndjson" % (res.tier, res.seed, r["id"]))
            with open(path, "w") as out:
                out.write(line)
            res.violations.append(("repository tests: %s record (seen %d times) fails=%s" % (r["ev"], r["times"], "+".join(rej[r["id"]])), path))
    if counts.get("test_rc", 0) != 0:
        log("note: the repository's tests did not all pass with the hooks on (rc=%s); their events were validated all the same" % counts.get("test_rc"))


def validate_alloc_events(path, wd, label="aev"):
    """T (stateful, one step per event): the recorded steps of the real RegisterAllocator<N> against the actions of
    Alloc.tla (Trace_Alloc.tla).  The file is cut at `reset` events into pieces validated by concurrent TLC runs.
    Returns (events, drifting programs, {program id: clauses})."""
    import concurrent.futures
    lines = open(path).readlines()
    if not lines:
        return 0, 0, {}
    n = json.loads(lines[0])["n"]
    maxslot = 4
    for ln in lines:
        for m in re.finditer(r'\[\d+,"\w+",(-?\d+),(-?\d+),(-?\d+),-?\d+\]', ln):
            maxslot = max(maxslot, int(m.group(1)), int(m.group(2)), int(m.group(3)))
    cfg = os.path.join(wd, "%s_n%d.cfg" % (label, n))
    with open(cfg, "w") as f:
        f.write("SPECIFICATION TSpec\nCONSTANTS N = %d MaxLive = 1 MaxOps = %d\nPOSTCONDITION Consumed\nCHECK_DEADLOCK FALSE\n" % (n, maxslot // 2 + 1))
    pieces, cur = [], []
    for ln in lines:
        if ln.startswith('{"e":"reset"') and len(cur) >= 40000:
            pieces.append(cur)
            cur = []
        cur.append(ln)
    pieces.append(cur)
    jobs = []
    for k, part in enumerate(pieces):
        d = os.path.join(wd, "%s_n%d_%d" % (label, n, k))
        os.makedirs(d, exist_ok=True)
        pth = os.path.join(d, "events.ndjson")
        with open(pth, "w") as f:
            f.writelines(part)
        jobs.append((d, pth))
    drift = 0
    rejects = {}
    def one(job):
        d, pth = job
        rc, text, dt = tlc("Trace_Alloc", cfg, d, workers=1, timeout=3000,
                           env={"TRACE": pth, "JAVA_TOOL_OPTIONS": "-Xss1g -Xmx3g -Dtlc2.tool.queue.IStateQueue=StateDeque"})
        nl = sum(1 for _ in open(pth))
        c = parse_counts(text)
        if rc != 0 or "UNCONSUMED" in text or c is None or c[1] != nl + 1:
            sys.stdout.write(text[-3000:])
            raise ToolError("Trace_Alloc did not consume %s (rc=%s, states=%s, lines=%d)" % (pth, rc, c, nl))
        return text
    with concurrent.futures.ThreadPoolExecutor(max_workers=4) as ex:
        for text in ex.map(one, jobs):
            drift += len(set(re.findall(r'<<"DRIFT", (-?\d+)', text)))
            for m in REJECT_RE.finditer(text):
                rejects.setdefault(int(m.group(1)), set()).update(x.strip().strip('"') for x in m.group(2).split(",") if x.strip())
    for d, _ in jobs:
        shutil.rmtree(d, ignore_errors=True)
    log("T Trace_Alloc N=%d: %d allocator steps validated against Alloc.tla, %d programs drift, %d rejected" % (n, len(lines), drift, len(rejects)))
    return len(lines), drift, rejects


def c01(res):
    wd = workdir("C01")
    q = res.tier == "quick"
    # S: the allocator design model (all SSA programs on the fly)
    res.models.append(model_check("Alloc", "Alloc_N3_quick.cfg" if q else "Alloc_N3_thorough.cfg", wd, workers=8, coverage=q))
    for n in (1, 2):
        res.models.append(model_check("Alloc", "Alloc_N%d_loud.cfg" % n, wd, workers=4))
    if not q:
        res.models.append(model_check("Alloc", "Alloc_N4_thorough.cfg", wd, workers=8, timeout=3000))
    res.models.append(model_check("Lru", "Lru.cfg", wd, workers=4))
    # S + R: SsaTape::new (Context DAG -> SSA tape); every DAG of the bound is also built through the real Context
    res.models.append(model_check("Flatten", "Flatten_mc.cfg" if q else "Flatten_thorough.cfg", wd, workers=8, timeout=3000))
    dags = os.path.join(wd, "dags.out")
    res.gens.append(generate("Flatten", "FlattenGen.cfg" if q else "FlattenGen_thorough.cfg", wd, dags, workers=4, timeout=3000))
    # R: programs of the same model, emitted as JSON
    progs = os.path.join(wd, "progs.out")
    res.gens.append(generate("Alloc", "AllocGen_quick.cfg" if q else "AllocGen_thorough.cfg", wd, progs))
    trace = os.path.join(wd, "trace.ndjson")
    aev = os.path.join(wd, "aev")
    shutil.rmtree(aev, ignore_errors=True)
    os.makedirs(aev)
    rc, text = record("c01", [progs, res.tier, trace, dags], wd, env={"VERIF_SEED": str(res.seed), "VERIF_ALLOC_EVENTS": aev,
                                                                     "VERIF_ALLOC_EVENTS_MAX": "120000" if q else "400000"})
    if rc != 0:
        crash_violation(res, "c01", rc, text, progs)
        return res.finish("recorder crashed")
    # T (step by step): the real allocator against the actions of Alloc.tla, invariants evaluated in every state
    steps = drifting = 0
    for f in sorted(glob.glob(os.path.join(aev, "alloc_n*.ndjson"))):
        ne, nd, arej = validate_alloc_events(f, wd)
        steps += ne
        drifting += nd
        for pid, clauses in arej.items():
            rdir = os.path.join(ROOT, "replays", "C01")
            os.makedirs(rdir, exist_ok=True)
            path = os.path.join(rdir, "%s_seed%d_alloc_%s_%d.ndjson" % (res.tier, res.seed, os.path.basename(f).replace(".ndjson", ""), pid))
            with open(path, "w") as out:
                out.writelines(l for l in open(f) if '"id":%d,' % pid in l or l.rstrip().endswith('"id":%d}' % pid))
            res.violations.append(("allocator step trace %s program %d fails=%s" % (os.path.basename(f), pid, "+".join(sorted(clauses))), path))
    if drifting:
        print("SPEC-DRIFT property=C01 %d programs: the real allocator's steps differ from Alloc.tla (not a violation)" % drifting)
    res.extra["allocator_steps_validated"] = steps
    res.extra["allocator_programs_drifting"] = drifting
    # T
    n, rej = validate("Trace_C01", trace, wd, timeout=3000)
    res.validated = n - len(rej)
    res.evaluations = n
    res.samples = sample_lines(trace)
    res.extra["panicked_small_budget"] = count_where(trace, lambda r: r.get("panic"))
    def sig01(r, f):
        # is every disagreement with the reference a zero of the other sign, in a program that has a commutative
        # clause with an immediate operand (flattening swaps (imm, reg) to reg-imm)?  Classification only.
        zs = "no"
        try:
            diffs = [(a, b) for e in r.get("evals", []) for key in ("pt", "sl") for a, b in zip(e.get(key, []), e.get("ref", [])) if a != b]
            comm = any(g[0] == 4 and g[1] in ("Min", "Max", "Add", "Mul") for g in r.get("ssa", []))
            if diffs and comm and all({a, b} == {0, -2147483648} for a, b in diffs):
                zs = "yes"
        except Exception:
            pass
        return "src=%s n=%s fails=%s zero-sign-only=%s" % (r.get("src"), r.get("n"), "+".join(f), zs)
    res.add_rejects(trace, rej, sig01)
    res.assumptions = ["value agreement is judged on the sampled inputs only",
                       "evaluations where a NaN reaches rand/mix are tainted and only counted"]
    return res.finish("TLC enumerates every SSA program shape within the bound (Alloc.tla) and the harness instantiates "
                      "each with concrete opcodes at several register budgets, plus seeded long programs (incl. same-operand ops under "
                      "register pressure), random Context DAGs, and every DAG of the Flatten.tla bound built through the real Context "
                      "(recorded SSA tape = the tape the model of SsaTape::new predicts); a case = (program, budget)", exhaustive=False)


# --------------------------------------------------------------------------------------------
def gen_programs(res, wd):
    q = res.tier == "quick"
    progs = os.path.join(wd, "progs.out")
    res.gens.append(generate("Alloc", "AllocGen_quick.cfg" if q else "AllocGen_thorough.cfg", wd, progs))
    return progs


def run_recorder(res, binname, args, wd, timeout=1500):
    rc, text = record(binname, args, wd, env={"VERIF_SEED": str(res.seed)}, timeout=timeout)
    if rc != 0:
        crash_violation(res, binname, rc, text, " ".join(args))
        return False
    return True


def c16(res):
    wd = workdir("C16")
    q = res.tier == "quick"
    shapes = os.path.join(wd, "shapes.out")
    # the enumeration run also checks the algebraic laws of Side (S)
    g = generate("MC_Shapes", "MC_Shapes_quick.cfg" if q else "MC_Shapes_thorough.cfg", wd, shapes, workers=16, timeout=6000)
    res.gens.append(g)
    if "is violated" in open(shapes).read():
        raise ToolError("Shapes.tla law violated")
    trace = os.path.join(wd, "trace.ndjson")
    if not run_recorder(res, "c16", [shapes, res.tier, trace], wd, timeout=3000):
        return res.finish("recorder crashed")
    n, rej = validate("Trace_C16", trace, wd, timeout=6000, parallel=8)
    res.validated = n - len(rej)
    res.evaluations = n
    res.samples = sample_lines(trace, maxlen=3000)
    res.add_rejects(trace, rej, lambda r, f: "term=%s fails=%s" % (json.dumps(r.get("term"))[:140], "+".join(sorted(f))))
    res.assumptions = ["integer parameters, quarter-turn rotations and lattice points only: membership is decided exactly; blend, loft "
                       "interiors and non-right angles are not covered by the exact model"]
    return res.finish("every shape term of the MC_Shapes.tla enumeration (11 primitives incl. all named axes and planes, under chains of up "
                      "to two of 40 transforms, revolve, extrude, CSG of 1..7 inputs) built with the real structs and evaluated at random "
                      "lattice points of [-3,3]^3; a case = one shape")


def c17_meta(wd):
    """shape table (names, field types, defaults) exported from the real crate by reflection; read by Script.tla"""
    meta = os.path.join(wd, "meta.ndjson")
    rc, text = record("c17", ["meta", meta], wd, timeout=300)
    if rc != 0:
        raise ToolError("c17 meta failed: " + text[-500:])
    os.environ["META"] = meta
    return meta


def c17(res):
    wd = workdir("C17")
    q = res.tier == "quick"
    c17_meta(wd)
    cases = os.path.join(wd, "cases.out")
    g = generate("MC_Script", "Script_quick.cfg" if q else "Script_thorough.cfg", wd, cases, workers=8 if q else 16, timeout=10000)
    res.gens.append(g)
    if "is violated" in open(cases).read():
        sys.stdout.write("".join(l for l in open(cases) if '"GEN"' not in l)[-3000:])
        raise ToolError("Script.tla law violated (MC_Script)")
    trace = os.path.join(wd, "trace.ndjson")
    if not run_recorder(res, "c17", ["run", cases, trace], wd, timeout=3000):
        return res.finish("recorder crashed")
    n, rej = validate("Trace_C17", trace, wd, timeout=10000, parallel=1 if q else 8)
    res.validated = n - len(rej)
    res.evaluations = n
    res.samples = sample_lines(trace, maxlen=1200)
    res.add_rejects(trace, rej, lambda r, f: "script=%s status=%s %s fails=%s" % (r.get("script"), r.get("status"), r.get("msg", "")[:80], "+".join(sorted(f))))
    res.assumptions = ["numbers are dyadic rationals (exact in f32 and f64); axes are the coordinate axes; only forms whose denotation the "
                       "model defines are generated (number-only subexpressions limited to + - *)",
                       "positional forms of the shape `plane` are not generated: plane(axis, number) is also the Plane value constructor",
                       "rejections other than comparisons on trees are implementation-shaped (SPEC-DRIFT, not violations)"]
    return res.finish("MC_Script.tla enumerates scripts from the grammar (all operators and math functions in infix / call / method form over "
                      "variables, numbers on either side and arrays, depth <= 2, comparisons) and, for every shape of the table reflected from "
                      "the real crate, every call form (map with every subset of defaulted fields left out, (tree, map) and chained, positional in "
                      "every order, ordered, two-tree, 1..8-tree reduction and array) over several literal spellings per field type; TLC also checks "
                      "the matching laws (order irrelevance, chained = call, omitted = default, transform = map, positional = map). Each script runs "
                      "in the real engine; Trace_C17 recomputes the denotation and compares structurally; a case = one script")


def validate_histories(module, trace, wd, starts, piece=400000, timeout=6000):
    """T for a stateful trace specification whose state is replaced at the lines `starts` recognises: the trace is cut
    in front of such lines into pieces of about `piece` lines, each validated by its own TLC run (four at a time)."""
    import concurrent.futures
    nlines = sum(1 for _ in open(trace))
    if nlines <= piece:
        return validate(module, trace, wd, timeout=timeout, parallel=0)
    pieces, cur = [], []
    for ln in open(trace):
        if len(cur) >= piece and starts(ln):
            pieces.append(cur)
            cur = []
        cur.append(ln)
    pieces.append(cur)
    jobs = []
    for k, part in enumerate(pieces):
        d = os.path.join(wd, "hist%d" % k)
        os.makedirs(d, exist_ok=True)
        pth = os.path.join(d, "trace.ndjson")
        with open(pth, "w") as f:
            f.writelines(part)
        jobs.append((d, pth))
    rejects = {}
    t0 = time.time()
    with concurrent.futures.ThreadPoolExecutor(max_workers=4) as ex:
        for _, r in ex.map(lambda j: validate(module, j[1], j[0], timeout=timeout, parallel=0, heap="4g"), jobs):
            rejects.update(r)
    for d, _ in jobs:
        shutil.rmtree(d, ignore_errors=True)
    log("T %s: %d lines validated in %d pieces cut at history starts, %d rejected, %.0fs" % (module, nlines, len(jobs), len(rejects), time.time() - t0))
    return nlines, rejects


def c18(res):
    wd = workdir("C18")
    q = res.tier == "quick"
    res.models.append(prove("CanvasAlgebraProof", wd))
    res.models.append(model_check("Canvas", "Canvas_quick.cfg" if q else "Canvas_thorough.cfg", wd, workers=8, timeout=6000))
    hists = os.path.join(wd, "hists.out")
    res.gens.append(generate("Canvas", "CanvasGen_quick.cfg" if q else "CanvasGen_thorough.cfg", wd, hists, workers=4, timeout=3000))
    trace = os.path.join(wd, "trace.ndjson")
    if not run_recorder(res, "c18", [hists, res.tier, trace], wd, timeout=3000):
        return res.finish("recorder crashed")
    # Trace_C18 is stateful within a history (the model is replayed next to the recording); a history starts with a
    # `size` event, which replaces the whole state, so a long trace may be cut in front of such lines (the thorough tier
    # records ten million events: one TLC run cannot even load them)
    n, rej = validate_histories("Trace_C18", trace, wd, lambda ln: '"event":["size"' in ln, piece=400000, timeout=6000)
    res.validated = n - len(rej)
    res.evaluations = n
    res.samples = sample_lines(trace, maxlen=3000)
    res.add_rejects(trace, rej, lambda r, f: "ev=%s dim=%s kind=%s fails=%s" % (r.get("ev"), r.get("dim", 2), r.get("kind", json.dumps(r.get("event"))), "+".join(sorted(f))))
    res.assumptions = ["exact clauses: dyadic event sequences on Canvas2 (power-of-two sizes, integer cursors, scroll multiples of 100)",
                       "judged clauses: tolerance enclosures for the point under the cursor on random float sequences (2D and 3D)"]
    return res.finish("every event sequence of the Canvas.tla bound replayed on the real Canvas2 and compared state by state with the exact "
                      "dyadic model, plus random float sequences on Canvas2 and Canvas3 (drag, rotate, zoom with and without cursor incl. "
                      "saturating scrolls, resize); a case = one event")


def c19(res):
    wd = workdir("C19")
    res.models.append(prove("SolverPackingProof", wd))
    res.models.append(model_check("Solver", "Solver.cfg", wd, workers=8, timeout=3000))
    trace = os.path.join(wd, "trace.ndjson")
    rc, text = record("c19", [res.tier, trace], wd, env={"VERIF_SEED": str(res.seed)}, timeout=6000)
    if rc == 3:
        # the recorder's watchdog: one solve did not return (and emitted no hook event) for two minutes; what was recorded
        # before is judged, the hang is not a verdict
        print("SPEC-DRIFT property=C19 a solve did not return within the recorder's two-minute watchdog (not a violation); exploration stopped there")
    elif rc != 0:
        crash_violation(res, "c19", rc, text, res.tier)
        return res.finish("recorder crashed")
    n, rej = validate("Trace_C19", trace, wd, timeout=3000)
    res.validated = n - len(rej)
    res.evaluations = n
    res.samples = sample_lines(trace, maxlen=3000)
    res.add_rejects(trace, rej, lambda r, f: "backend=%s n=%s free=%d status=%s %s fails=%s" % (
        r.get("backend"), r.get("n"), sum(1 for x in r.get("roles", []) if x[1] == "free"), r.get("status"), r.get("msg", "")[:80], "+".join(sorted(f))))
    res.assumptions = ["systems are consistent, diagonally dominant (well-conditioned), integer coefficients and integer solutions so the Jacobian clause is exact",
                       "a solve still iterating after 100 000 Levenberg-Marquardt iterations is abandoned and reported as SPEC-DRIFT, not as a violation (the code does return, after > 10^6 iterations in observed cases; the property does not bound time)",
                       "residual is judged: |equation| < 1e-3 in f64 at the returned point"]
    return res.finish("Solver.tla (three-per-sample gradient packing, per-tape slot lookup, fixed parameters contribute nothing) checked by TLC; "
                      "recorded calls of the real solver on linear systems with 1..40 parameters, random fixed subsets incl. none free, equations over "
                      "different variable subsets, both backends, with hook-recorded Jacobian entries validated by Trace_C19; a case = one solve")


def c20(res):
    wd = workdir("C20")
    res.models.append(model_check("EvalTrace", "EvalTrace.cfg", wd, workers=4, coverage=True))
    progs = gen_programs(res, wd)
    trace = os.path.join(wd, "trace.ndjson")
    if not run_recorder(res, "c20", [progs, res.tier, trace], wd):
        return res.finish("recorder crashed")
    n, rej = validate("Trace_C20", trace, wd, timeout=3000)
    res.validated = n - len(rej)
    res.evaluations = n
    res.samples = sample_lines(trace, maxlen=4000)
    res.add_rejects(trace, rej, lambda r, f: "ev=%s backend=%s kind=%s fails=%s" % (r.get("ev"), r.get("backend"), r.get("kind", r.get("what")), "+".join(f)))
    res.assumptions = ["operand values of each clause are the evaluator's own (exported as extra outputs)",
                       "aarch64 back end not reachable on this host"]
    return res.finish("programs from the Alloc.tla generator instantiated choice-heavy, plus seeded long programs with up to ~200 "
                      "clauses; each evaluated by interpreter and JIT, point and interval, at special and random inputs; "
                      "a case = one tracing evaluation or one bulk-shape observation")


def validate_simplify_events(trace, wd):
    """T (stateful): every recorded simplify call replayed op by op through the actions of Simplify.tla
    (Trace_Simplify.tla); the events are a re-formatting of the recorded line (parent tape, trace, child tape)."""
    import concurrent.futures
    evs = []
    maxslot = 4
    ncalls = 0
    for line in open(trace):
        r = json.loads(line)
        if r.get("ev") != "simplify" or not r.get("ok") or len(r["parent"]["ssa"]) > 120:
            continue
        ncalls += 1
        evs.append(json.dumps({"e": "reset", "id": r["id"], "trace": r["trace"]}))
        for g in r["parent"]["ssa"]:
            maxslot = max(maxslot, g[2], g[3], g[4])
            evs.append(json.dumps({"e": "op", "id": r["id"], "op": g}))
        evs.append(json.dumps({"e": "end", "id": r["id"], "child": r["child"]["ssa"]}))
    if not evs:
        return 0, 0, 0, {}
    cfg = os.path.join(wd, "simplify_events.cfg")
    with open(cfg, "w") as f:
        f.write("SPECIFICATION TSpec\nCONSTANTS MaxLive = 1 MaxOps = %d AssertAsWritten = FALSE\nPOSTCONDITION Consumed\nCHECK_DEADLOCK FALSE\n" % (maxslot // 2 + 1))
    pieces, cur = [], []
    for e in evs:
        if e.startswith('{"e": "reset"') and len(cur) >= 30000:
            pieces.append(cur)
            cur = []
        cur.append(e)
    pieces.append(cur)
    def one(k):
        d = os.path.join(wd, "sev_%d" % k)
        os.makedirs(d, exist_ok=True)
        pth = os.path.join(d, "events.ndjson")
        with open(pth, "w") as f:
            f.write("\n".join(pieces[k]) + "\n")
        rc, text, dt = tlc("Trace_Simplify", cfg, d, workers=1, timeout=3000,
                           env={"TRACE": pth, "JAVA_TOOL_OPTIONS": "-Xss1g -Xmx3g -Dtlc2.tool.queue.IStateQueue=StateDeque"})
        c = parse_counts(text)
        if rc != 0 or "UNCONSUMED" in text or c is None or c[1] != len(pieces[k]) + 1:
            sys.stdout.write(text[-3000:])
            raise ToolError("Trace_Simplify did not consume its events (rc=%s, states=%s, lines=%d)" % (rc, c, len(pieces[k])))
        shutil.rmtree(d, ignore_errors=True)
        return text
    drift = set()
    rejects = {}
    with concurrent.futures.ThreadPoolExecutor(max_workers=4) as ex:
        for text in ex.map(one, range(len(pieces))):
            drift.update(re.findall(r'<<"DRIFT", (-?\d+)', text))
            for m in REJECT_RE.finditer(text):
                rejects.setdefault(int(m.group(1)), set()).update(x.strip().strip('"') for x in m.group(2).split(",") if x.strip())
    log("T Trace_Simplify: %d simplify calls, %d steps validated against Simplify.tla, %d calls drift, %d rejected" % (ncalls, len(evs), len(drift), len(rejects)))
    return ncalls, len(evs), len(drift), rejects


def c04(res):
    wd = workdir("C04")
    q = res.tier == "quick"
    res.models.append(model_check("Simplify", "Simplify_quick.cfg" if q else "Simplify_thorough.cfg", wd, workers=8, timeout=3000))
    res.models.append(model_check("EvalTrace", "EvalTrace.cfg", wd, workers=4))
    progs = gen_programs(res, wd)
    trace = os.path.join(wd, "trace.ndjson")
    if not run_recorder(res, "c04", [progs, res.tier, trace], wd):
        return res.finish("recorder crashed")
    ncalls, nsteps, ndrift, srej = validate_simplify_events(trace, wd)
    res.extra["simplify_steps_validated"] = nsteps
    res.extra["simplify_calls_drifting"] = ndrift
    if ndrift:
        print("SPEC-DRIFT property=C04 %d simplify calls: the child tape differs from the one Simplify.tla builds (not a violation)" % ndrift)
    n, rej = validate("Trace_C04", trace, wd, timeout=3000)
    for pid, clauses in srej.items():
        rej.setdefault(pid, [])
        rej[pid] = sorted(set(rej[pid]) | clauses)
    res.validated = n - len(rej)
    res.evaluations = n
    res.samples = sample_lines(trace, maxlen=6000)
    res.add_rejects(trace, rej, lambda r, f: "backend=%s tracer=%s depth=%s fails=%s" % (r.get("label"), r.get("tracer"), r.get("depth"), "+".join(f)))
    res.assumptions = ["a trace is only used with the backend it came from (interpreter and JIT may legitimately differ in the sign of a min/max of equal zeros)",
                       "the traced domain is sampled: corners, midpoint and random interior points of each box"]
    return res.finish("choice-heavy programs from the Alloc.tla generator and seeded long programs; traces from the four tracing "
                      "evaluators; simplification into the same and into different register budgets; chains of up to three nested "
                      "simplifications; a case = one simplify call with its observations")


def c02(res):
    wd = workdir("C02")
    res.models.append(prove("BulkDriverProof", wd))
    for cfg in ("BulkDriver_W8.cfg", "BulkDriver_W1.cfg", "BulkDriver_W4.cfg"):
        res.models.append(model_check("BulkDriver", cfg, wd, workers=2))
    res.models.append(model_check("JitLower", "JitLower.cfg", wd, workers=4))
    res.models.append(model_check("MC_JitCall", "JitCall.cfg", wd, workers=4))       # out-of-line call protocol of the SIMD assembler
    progs = gen_programs(res, wd)
    trace = os.path.join(wd, "trace.ndjson")
    if not run_recorder(res, "c02", [progs, res.tier, trace], wd):
        return res.finish("recorder crashed")
    if res.tier == "thorough":
        repo_test_traces(res, ["bulk"])
    n, rej = validate("Trace_C02", trace, wd, timeout=3000)
    res.validated = n - len(rej)
    res.evaluations = n
    res.samples = sample_lines(trace, maxlen=3000)
    res.add_rejects(trace, rej, lambda r, f: "ev=%s kind=%s fails=%s" % (r.get("ev"), r.get("kind", r.get("backend")), "+".join(f)))
    res.assumptions = ["x86_64 only (no aarch64 host)", "reads outside the caller's slices are covered only at the level of the (offset, count) "
                       "pairs the Rust driver hands to native code; writes are observed with guard regions",
                       "tainted executions (NaN or zero reaching a payload / zero-sign sensitive op) are judged for shape only"]
    return res.finish("programs from the Alloc.tla generator and seeded long programs compiled for the 12-register JIT budget with up to "
                      "24 live values (stack spills, libm calls between live registers); every slot exported for local obligations; "
                      "slice lengths 0..=35; a case = one nodes / point / slice observation")


def c06(res):
    wd = workdir("C06")
    q = res.tier == "quick"
    for cfg in (("Render2D_quick.cfg", "Render2D_quick2.cfg") if q else ("Render2D_quick.cfg", "Render2D_quick2.cfg", "Render2D_thorough.cfg", "Render2D_thorough2.cfg")):
        res.models.append(model_check("MC_Render2D", cfg, wd, workers=8, timeout=3000))
    res.models.append(prove("TileCoverProof", wd))
    bitmaps = os.path.join(wd, "bitmaps.out")
    res.gens.append(generate("MC_Render2D", "Render2DGen.cfg", wd, bitmaps, workers=4, timeout=1500))
    for cfg in ("Render2DGen_4x2.cfg", "Render2DGen_3x3.cfg"):       # 256 + 512 inside sets of images with overhanging root tiles
        part = os.path.join(wd, cfg.replace(".cfg", ".out"))
        res.gens.append(generate("MC_Render2D", cfg, wd, part, workers=4, timeout=1500))
        with open(bitmaps, "a") as f:
            f.write(open(part).read())
    trace = os.path.join(wd, "trace.ndjson")
    if not run_recorder(res, "raster", ["c06", bitmaps, res.tier, trace], wd, timeout=3000):
        return res.finish("recorder crashed")
    n, rej = validate("Trace_C06", trace, wd, timeout=3000)
    res.validated = n - len(rej)
    res.evaluations = n
    res.samples = [{"truncated": open(trace).readline()[:1200]}]
    res.add_rejects(trace, rej, lambda r, f: "backend=%s size=%sx%s tiles=%s perfect=%s threads=%s fails=%s" % (r.get("backend"), r.get("w"), r.get("h"), r.get("tiles"), r.get("perfect"), r.get("threads"), "+".join(sorted(f))))
    # step by step: the tile decisions of real renders (pix_root / pix_tile hook events) against Render2D.tla
    ttrace = os.path.join(wd, "tiles2.ndjson")
    if not run_recorder(res, "raster", ["tiles2", "-", res.tier, ttrace], wd, timeout=3000):
        return res.finish("recorder crashed")
    ev, cases, ndrift, unsound, trej = validate_tile_events(res, "Trace_Tiles2", "MC_Render2D", ttrace, wd, "t2")
    res.validated += cases - len(trej)
    res.evaluations += cases
    res.extra["tile_events"] = {"events": ev, "root_tiles": cases, "drift": ndrift, "unsound_answers": unsound}
    res.assumptions = ["reference values come from the interpreter on the unsimplified shape (tied to direct graph evaluation by C01)",
                       "pixels whose reference value is within 2e-5 of zero are not judged"]
    return res.finish("every bitmap of the Render2D.tla bound realised as a union of pixel-aligned rectangles, random bitmaps, random CSG, "
                      "shapes with NaN intervals and the bundled 2D models; sizes incl. non-square and non-multiples of the tile size; "
                      "tile lists incl. non-powers of two; affine and projective views; VM and JIT; no pool and pools of 1..16; "
                      "a case = one image, every pixel compared")


def validate_tile_events(res, module, mc_prefix, path, wd, label):
    """T (stateful, one step per hook event): the recorded tile decisions of a real renderer against the step-wise
    formulation of Render2D.tla / Render3D.tla (Trace_Tiles2.tla / Trace_Tiles3.tla).  TS, W, H (and D) are constants
    of the models, so the cases are grouped by configuration (field `cfg`: "TS_8_4_2|w|h|d") and every group is
    validated by one TLC run.  Returns (events, cases, drifting cases, unsound answers, {case id: clauses})."""
    import concurrent.futures
    groups = {}
    lines_by_id = {}
    cur = None
    for ln in open(path):
        key = ln[ln.index('"cfg":"') + 7:ln.index('"', ln.index('"cfg":"') + 7)]
        groups.setdefault(key, []).append(ln)
    if not groups:
        raise ToolError("no tile events recorded in " + path)
    jobs = []
    for k, (key, lines) in enumerate(sorted(groups.items())):
        parts = key.split("|")
        d = os.path.join(wd, "%s_%d" % (label, k))
        os.makedirs(d, exist_ok=True)
        cfg = os.path.join(d, "tiles.cfg")
        consts = "TS <- %s W = %s H = %s" % (parts[0], parts[1], parts[2])
        if module == "Trace_Tiles3":
            consts += ' D = %s Clamp = "gt-d"' % parts[3]
        else:
            consts += " FillMode = %s" % ("FALSE" if parts[3] == "P" else "TRUE")
        with open(cfg, "w") as f:
            f.write("SPECIFICATION TSpec\nCONSTANTS %s\nPOSTCONDITION Consumed\nCHECK_DEADLOCK FALSE\n" % consts)
        pth = os.path.join(d, "events.ndjson")
        with open(pth, "w") as f:
            f.writelines(lines)
        jobs.append((d, cfg, pth, len(lines), key))
    def one(job):
        d, cfg, pth, nl, key = job
        rc, text, dt = tlc(module, cfg, d, workers=1, timeout=3000,
                           env={"TRACE": pth, "JAVA_TOOL_OPTIONS": "-Xss1g -Xmx3g -Dtlc2.tool.queue.IStateQueue=StateDeque"})
        c = parse_counts(text)
        if rc != 0 or "UNCONSUMED" in text or c is None or c[1] != nl + 1:
            sys.stdout.write(text[-3000:])
            raise ToolError("%s did not consume %s (rc=%s, states=%s, lines=%d)" % (module, pth, rc, c, nl))
        return text
    # what the recorded decisions were (vacuity guard: every kind of decision must occur)
    acts = {}
    for lines in groups.values():
        for ln in lines:
            m = re.search(r'"act":(\d+)', ln)
            if m:
                acts[m.group(1)] = acts.get(m.group(1), 0) + 1
    res_acts = getattr(res, "extra", None)
    if res_acts is not None:
        res.extra[module + "_decisions"] = acts
    need = {"Trace_Tiles3": "01234", "Trace_Tiles2": "1234"}.get(module, "")
    if getattr(res, "tier", "") in ("quick", "thorough") and any(a not in acts for a in need):
        log("note: %s: the recorded renders never took decision(s) %s (coverage of this run, not a verdict)" % (module, [a for a in need if a not in acts]))
    events = sum(j[3] for j in jobs)
    cases = sum(1 for lines in groups.values() for ln in lines if '"e":"reset"' in ln)
    drift, unsound, rejects = {}, 0, {}
    with concurrent.futures.ThreadPoolExecutor(max_workers=4) as ex:
        for text in ex.map(one, jobs):
            for m in re.finditer(r'<<"DRIFT", (-?\d+), "([^"]*)">>', text):
                drift.setdefault(int(m.group(1)), m.group(2))
            unsound += len(re.findall(r'<<"UNSOUND"', text))
            for m in REJECT_RE.finditer(text):
                rejects.setdefault(int(m.group(1)), set()).update(x.strip().strip('"') for x in m.group(2).split(",") if x.strip())
    for j in jobs:
        shutil.rmtree(j[0], ignore_errors=True)
    if drift:
        kinds = sorted(set(drift.values()))
        print("SPEC-DRIFT property=%s %d of %d tile-decision traces leave the step-wise model %s (%s; not a violation)" % (res.prop, len(drift), cases, module, ", ".join(kinds)))
    if unsound:
        print("SPEC-DRIFT property=%s %d full / empty tile answers contradict the reference signs of the tile (%s; whether that is observable is decided by the image clauses)" % (res.prop, unsound, module))
    log("T %s: %d tile events of %d root tiles in %d configurations validated against the step-wise model, %d drift, %d unsound answers, %d rejected" % (module, events, cases, len(jobs), len(drift), unsound, len(rejects)))
    if rejects and res.tier != "replay":
        # the replay file of a rejected case is the whole case (reset .. end), not only its first line
        rdir = os.path.join(ROOT, "replays", res.prop)
        os.makedirs(rdir, exist_ok=True)
        for lines in groups.values():
            cur, buf = None, []
            for ln in lines + ['{"e":"reset","id":-1}']:
                if '"e":"reset"' in ln:
                    if cur in rejects:
                        pth = os.path.join(rdir, "%s_seed%d_tiles_%s.ndjson" % (res.tier, res.seed, cur))
                        with open(pth, "w") as f:
                            f.writelines(buf)
                        sig = "%s cfg=%s desc=%s fails=%s" % (module, json.loads(buf[0]).get("cfg"), json.loads(buf[0]).get("desc"), "+".join(sorted(rejects[cur])))
                        res.violations.append((sig, pth))
                    cur, buf = json.loads(ln).get("id"), []
                buf.append(ln)
    return events, cases, len(drift), unsound, {k: sorted(v) for k, v in rejects.items()}


def c07(res):
    wd = workdir("C07")
    q = res.tier == "quick"
    for cfg in (("Render3D_quick.cfg", "Render3D_quick2.cfg") if q else ("Render3D_quick.cfg", "Render3D_quick2.cfg", "Render3D_thorough.cfg")):
        res.models.append(model_check("MC_Render3D", cfg, wd, workers=8, timeout=6000))
    res.models.append(prove("TileCoverProof", wd))
    trace = os.path.join(wd, "trace.ndjson")
    voxsets = os.path.join(wd, "voxsets.out")
    open(voxsets, "w").close()
    for cfg in (("Render3DGen_214.cfg", "Render3DGen_223.cfg") if q else ("Render3DGen_214.cfg", "Render3DGen_223.cfg", "Render3DGen_125.cfg")):
        part = os.path.join(wd, cfg.replace(".cfg", ".out"))
        res.gens.append(generate("MC_Render3D", cfg, wd, part, workers=4, timeout=1500))
        with open(voxsets, "a") as f:
            f.write(open(part).read())
    if not run_recorder(res, "raster", ["c07", voxsets, res.tier, trace], wd, timeout=3000):
        return res.finish("recorder crashed")
    n, rej = validate("Trace_C07", trace, wd, timeout=3000)
    res.validated = n - len(rej)
    res.evaluations = n
    res.samples = [{"truncated": open(trace).readline()[:1200]}]
    res.add_rejects(trace, rej, lambda r, f: "backend=%s size=%sx%sx%s tiles=%s threads=%s fails=%s" % (r.get("backend"), r.get("w"), r.get("h"), r.get("d"), r.get("tiles"), r.get("threads"), "+".join(sorted(f))))
    # step by step: the tile decisions of real renders (vox_root / vox_tile / vox_hit hook events) against Render3D.tla
    ttrace = os.path.join(wd, "tiles3.ndjson")
    if not run_recorder(res, "raster", ["tiles3", "-", res.tier, ttrace], wd, timeout=3000):
        return res.finish("recorder crashed")
    ev, cases, ndrift, unsound, trej = validate_tile_events(res, "Trace_Tiles3", "MC_Render3D", ttrace, wd, "t3")
    res.validated += cases - len(trej)
    res.evaluations += cases
    res.extra["tile_events"] = {"events": ev, "root_tile_columns": cases, "drift": ndrift, "unsound_answers": unsound}
    res.assumptions = ["reference heightmap: interpreter on the unsimplified shape over the whole grid and one root tile beyond its top",
                       "reference normals: the same backend's gradient evaluator on the unsimplified shape (C05 judges gradients)"]
    return res.finish("every voxel set of the Render3D.tla generator bound (2x1x4, 2x2x3; thorough also 1x2x5) realised as voxel-aligned boxes and "
                      "rendered under two tile lists each, the expected heightmap recomputed by Trace_C07 from the voxel set; "
                      "stacked objects (slabs, spheres, tilted planes, boxes), voxel-aligned boxes and random CSG on grids with "
                      "width != height != depth and depths that are not multiples of the root tile; tile lists incl. single-level and "
                      "non-powers of two; affine and projective views; VM and JIT; pools; a case = one heightmap, every column compared")


def c08(res):
    wd = workdir("C08")
    q = res.tier == "quick"
    res.models.append(model_check("MC_Mdc", "MC_Mdc.cfg", wd, workers=8, timeout=3000))
    res.models.append(model_check("Mesh", "Mesh_quick.cfg" if q else "Mesh_thorough.cfg", wd, workers=12 if q else 16, timeout=20000))
    res.models.append(model_check("Mesh", "Mesh_nocollapse.cfg" if q else "Mesh_nocollapse_thorough.cfg", wd, workers=12 if q else 16, timeout=20000))
    # the block run checks "manifold iff no shared ambiguous face" and emits every sign field with the model's verdict
    fields = os.path.join(wd, "fields.out")
    res.gens.append(generate("MC_Mesh", "Mesh_block.cfg", wd, fields, workers=12 if q else 16, timeout=20000))
    if "is violated" in open(fields).read():
        raise ToolError("Mesh.tla: ManifoldIffNoSharedAmbiguous violated")
    if not q:
        f9 = os.path.join(wd, "fields9.out")
        res.gens.append(generate("MC_Mesh", "Mesh_fields9.cfg", wd, f9, workers=16, timeout=20000))
        with open(fields, "a") as out:
            out.write(open(f9).read())
    trace = os.path.join(wd, "trace.ndjson")
    tr2 = os.path.join(wd, "trace_fields.ndjson")
    if not run_recorder(res, "c08", [res.tier, trace], wd, timeout=6000):
        return res.finish("recorder crashed")
    if not run_recorder(res, "c08", ["fields", fields, tr2], wd, timeout=6000):
        return res.finish("recorder crashed")
    with open(trace, "a") as out:
        out.write(open(tr2).read())
    if not q:
        repo_test_traces(res, ["collapse"])
    n, rej = validate("Trace_C08", trace, wd, timeout=10000, parallel=8)
    res.validated = n - len(rej)
    res.evaluations = n
    res.samples = sample_lines(trace, maxlen=1500)
    def sig(r, f):
        pat = "none"
        if r.get("dup_pairs", 0) > 0:
            pat = "shared-ambiguous-face" if r.get("dup_saf") == r.get("dup_pairs") else "other"
        return "shape=%s depth=%s backend=%s threads=%s w2m=%s fails=%s pattern=%s" % (
            r.get("desc", "")[:160], r.get("depth"), r.get("backend"), r.get("threads"), r.get("w2m"), "+".join(sorted(f)), pat)
    res.add_rejects(trace, rej, sig)
    res.assumptions = ["volume clause is judged: |mesh volume - voxel-count volume| <= K x (surface area x cell size + 4 cell^3), K = 3 up to depth 3; from depth 4 on 1.5 for random CSG (unclamped QEF vertices; largest ratio observed 0.82) and 0.8 for the other families (largest observed 0.16), both in f64",
                       "orientation is decided globally through the sign of the enclosed volume; per-triangle outwardness is established on the "
                       "design model only (winding rule of the dual walk), cell vertices are not constrained to their cells by the implementation",
                       "shapes: CSG of spheres/boxes, cones and cylinders around grid lines, lattice-hugging bumpy slabs; surfaces inside the region"]
    return res.finish("Mdc.tla (tables recomputed by the build-script algorithm, all 256 masks), Mesh.tla (octree with every collapse decision + "
                      "dual walk: manifold on all explored sign fields; without collapsing, manifold exactly when no checkerboard face is shared by "
                      "two single-vertex cells) checked by TLC; real meshes of random shapes at depths 1..6, transforms, both backends, 0/N threads: "
                      "Trace_C08 decides manifoldness on the recorded triangles, finiteness, collapse events against Mdc!Collapsible, and the "
                      "judged volume clause; a case = one mesh")


def c09(res):
    wd = workdir("C09")
    q = res.tier == "quick"
    for cfg in ("OctreeMerge_A2.cfg", "OctreeMerge_A3.cfg"):
        res.models.append(model_check("OctreeMerge", cfg, wd, workers=4, timeout=1200))
    res.models.append(model_check("Par", "Par.cfg" if q else "Par_thorough.cfg", wd, workers=8, timeout=3000))
    trace = os.path.join(wd, "trace.ndjson")
    if not run_recorder(res, "par", [res.tier, trace], wd, timeout=3000):
        return res.finish("recorder crashed")
    n, rej = validate("Trace_C09", trace, wd, timeout=3000)
    res.validated = n - len(rej)
    res.evaluations = n
    res.samples = sample_lines(trace, maxlen=3000)
    res.add_rejects(trace, rej, lambda r, f: "kind=%s backend=%s threads=%s cancel_after=%s fails=%s" % (r.get("kind", r.get("ev")), r.get("backend"), r.get("threads"), r.get("cancel_after"), "+".join(sorted(f))))
    # the multi-threaded octree build: local octrees, splits and the merged octree dumped by the mt_* hooks, judged with
    # the operators of OctreeMerge.tla (Trace_OctreeMerge.tla)
    mtrace = os.path.join(wd, "octmerge.ndjson")
    if not run_recorder(res, "octmerge", [res.tier, mtrace], wd, timeout=3000):
        return res.finish("recorder crashed")
    n2, rej2 = validate("Trace_OctreeMerge", mtrace, wd, timeout=3000, heap="6g")
    res.validated += n2 - len(rej2)
    res.evaluations += n2
    res.extra["octree_merges"] = n2
    res.add_rejects(mtrace, rej2, lambda r, f: "octree-merge shape=%s depth=%s threads=%s status=%s fails=%s" % (r.get("desc"), r.get("depth"), r.get("threads"), r.get("status"), "+".join(sorted(f))))
    res.assumptions = ["interleavings are perturbed through the schedule-point hook, not enumerated; the verdict never depends on timing",
                       "the cancel token is set from inside the poll hook after exactly k polls"]
    return res.finish("2D renders, voxel renders and meshes of random CSG with no pool, the global pool and custom pools of 1..16 threads; "
                      "cancel before / after k polls / after all polls / never; one JIT tape shared by up to 16 threads; "
                      "a case = one run")


def c10(res):
    wd = workdir("C10")
    q = res.tier == "quick"
    res.models.append(model_check("Reuse", "Reuse_mc.cfg", wd, workers=4))
    hists = os.path.join(wd, "hists.out")
    res.gens.append(generate("Reuse", "ReuseGen_quick.cfg" if q else "ReuseGen_thorough.cfg", wd, hists))
    # long histories: simulation of the same model
    sim = os.path.join(wd, "hists_sim.out")
    res.gens.append(generate("Reuse", "ReuseSim.cfg", wd, sim, workers=1,
                             extra=["-simulate", "num=%d" % (300 if q else 3000), "-depth", "13", "-seed", str(res.seed)]))
    with open(hists, "a") as f:
        f.write(open(sim).read())
    progs = gen_programs(res, wd)
    trace = os.path.join(wd, "trace.ndjson")
    if not run_recorder(res, "c10", [hists, progs, res.tier, trace], wd):
        return res.finish("recorder crashed")
    # RenderHandle: the cached simplification chain walked by the tile recursion (Handle.tla)
    res.models.append(model_check("Handle", "Handle_quick.cfg" if q else "Handle_mc.cfg", wd, workers=8, timeout=3000))
    walks = os.path.join(wd, "walks.out")
    res.gens.append(generate("Handle", "HandleGen.cfg", wd, walks, workers=4, timeout=3000))
    tr2 = os.path.join(wd, "trace_handle.ndjson")
    if not run_recorder(res, "handle", [walks, res.tier, tr2], wd, timeout=3000):
        return res.finish("recorder crashed")
    with open(trace, "a") as out:
        out.write(open(tr2).read())
    n, rej = validate("Trace_C10", trace, wd, timeout=3000)
    res.validated = n - len(rej)
    res.evaluations = n
    res.samples = sample_lines(trace, maxlen=5000)
    res.add_rejects(trace, rej, lambda r, f: "backend=%s fails=%s" % (r.get("backend"), "+".join(f)))
    res.assumptions = ["fresh-object results are the reference (no numeric oracle needed)"]
    return res.finish("every history of the Reuse.tla model up to the bound (exhaustive) plus simulated histories of length 12, each "
                      "replayed on real reused evaluators / storage / workspaces for VM<255>, VM<3> and the JIT over function triples of "
                      "different shapes; every history of walks of the Handle.tla bound replayed on a real RenderHandle with persistent "
                      "storage vectors, workspace and evaluators (and on a second handle inheriting the recycled storage), evaluated at "
                      "points inside the walk's regions against the root shape; a case = one history", exhaustive=False)


def c15(res):
    wd = workdir("C15")
    res.models.append(model_check("MC_Bytecode", "MC_Bytecode.cfg", wd, workers=4))
    progs = gen_programs(res, wd)
    trace = os.path.join(wd, "trace.ndjson")
    if not run_recorder(res, "c15", [progs, res.tier, trace], wd):
        return res.finish("recorder crashed")
    n, rej = validate("Trace_C15", trace, wd, timeout=3000)
    res.validated = n - len(rej)
    res.evaluations = n
    res.samples = sample_lines(trace, maxlen=3000)
    res.add_rejects(trace, rej, lambda r, f: "n=%s fails=%s" % (r.get("n"), "+".join(f)))
    res.assumptions = ["the WGSL interpreter of the same format is not reachable (no GPU); the format documentation is the reference"]
    return res.finish("programs from the Alloc.tla generator and seeded long programs at budgets 3, 4, 5, 8, 12 (memory traffic) and 255; "
                      "a case = one program's bytecode words decoded per the documentation by the TLA+ decoder and executed by an "
                      "independent numeric executor")


def c12(res):
    wd = workdir("C12")
    q = res.tier == "quick"
    res.models.append(model_check("Context", "Context_quick.cfg" if q else "Context_thorough.cfg", wd, workers=8, timeout=6000))
    cases = os.path.join(wd, "cases.out")
    res.gens.append(generate("ContextCases", "ContextCases.cfg", wd, cases, workers=1))
    progs = gen_programs(res, wd)
    trace = os.path.join(wd, "trace.ndjson")
    if not run_recorder(res, "ctxrec", ["c12", cases + "," + progs, res.tier, trace], wd, timeout=3000):
        return res.finish("recorder crashed")
    n, rej = validate("Trace_C12", trace, wd, timeout=3000)
    res.validated = n - len(rej)
    res.evaluations = n
    res.samples = sample_lines(trace, maxlen=3000)
    res.add_rejects(trace, rej, lambda r, f: "ev=%s tag=%s fails=%s" % (r.get("ev"), r.get("tag", r.get("depth", "")), "+".join(sorted(f))))
    res.assumptions = ["stack depth of the real code is observed (256 KiB stack in a child process), not modelled",
                       "evaluations that leave the finite range or feed a zero to a sign-of-zero sensitive operation are outside the claim"]
    return res.finish("one implementation test per operand-class case of the rewrite table (unary o unary, binary op x operand classes, "
                      "nested constant merging) enumerated by ContextCases.tla, generator programs and random programs with special "
                      "constants and shared subtrees, each built through the constructors and as a Tree and evaluated against the "
                      "unsimplified expression; deduplication, export/import, tree equality and hashing; deep chains; a case = one expression")


def c13(res):
    wd = workdir("C13")
    q = res.tier == "quick"
    res.models.append(model_check("Import", "Import_quick.cfg" if q else "Import_thorough.cfg", wd, workers=8, timeout=6000))
    hists = os.path.join(wd, "hists.out")
    res.gens.append(generate("Import", "ImportGen_quick.cfg" if q else "ImportGen_thorough.cfg", wd, hists, workers=4, timeout=3000))
    res.models.append(model_check("Import", "ImportShare_quick.cfg", wd, workers=8, timeout=6000))
    sim = os.path.join(wd, "hists_sim.out")
    res.gens.append(generate("Import", "ImportSim.cfg", wd, sim, workers=1,
                             extra=["-simulate", "num=%d" % (100 if q else 2000), "-depth", "7", "-seed", str(res.seed)]))
    share = os.path.join(wd, "hists_share.out")
    res.gens.append(generate("Import", "ImportGenShare_quick.cfg" if q else "ImportGenShare_thorough.cfg", wd, share, workers=4, timeout=3000))
    with open(hists, "a") as f:
        f.write(open(sim).read())
        f.write(open(share).read())
    trace = os.path.join(wd, "trace.ndjson")
    if not run_recorder(res, "ctxrec", ["c13", hists, res.tier, trace], wd, timeout=3000):
        return res.finish("recorder crashed")
    n, rej = validate("Trace_C13", trace, wd, timeout=3000)
    res.validated = n - len(rej)
    res.evaluations = n
    res.samples = sample_lines(trace, maxlen=3000)
    res.add_rejects(trace, rej, lambda r, f: "ev=%s hist=%s fails=%s" % (r.get("ev"), json.dumps(r.get("hist"))[:120], "+".join(sorted(f))))
    res.assumptions = ["integer matrices and integer points: expected values are exact; float matrices are judged against an f64 composition"]
    return res.finish("every builder sequence of the Import.tla bound (two registers: leaves, self-multiplication, remap_affine with four integer "
                      "matrices, 42 remap_xyz forms, clone into a second owner, combination) plus simulated sequences of length 6, replayed "
                      "through Tree / Context::import and evaluated at integer points; chains of float affine remaps with second owners; "
                      "a case = one tree")


def c14(res):
    wd = workdir("C14")
    q = res.tier == "quick"
    res.models.append(model_check("BindHist", "BindHist.cfg", wd, workers=4, timeout=1200))
    res.models.append(model_check("VarBind", "VarBind_mc.cfg", wd, workers=8))
    cases = os.path.join(wd, "cases.out")
    res.gens.append(generate("VarBind", "VarBindGen_quick.cfg" if q else "VarBindGen_thorough.cfg", wd, cases, workers=4))
    trace = os.path.join(wd, "trace.ndjson")
    if not run_recorder(res, "c14", [cases, res.tier, trace], wd):
        return res.finish("recorder crashed")
    n, rej = validate("Trace_C14", trace, wd, timeout=3000)
    res.validated = n - len(rej)
    res.evaluations = n
    res.samples = sample_lines(trace, maxlen=3000)
    res.add_rejects(trace, rej, lambda r, f: "backend=%s kind=%s simplified=%s mat=%s fails=%s" % (r.get("backend"), r.get("kind"), r.get("simplified"), r.get("mname"), "+".join(f)))
    res.assumptions = ["values and transforms are integers, so the expected value is exact; float transforms are covered by C03/C05/C06"]
    return res.finish("every (encounter order, supplied set) of the VarBind.tla model within the bound, realised as weighted sums with "
                      "distinct prime weights in three nestings, with integer affine / projective transforms, for VM and JIT, four "
                      "evaluator kinds, before and after simplification, plus functions with dozens of free variables; "
                      "a case = one shape evaluation")


def c03(res):
    wd = workdir("C03")
    q = res.tier == "quick"
    res.models.append(prove("IntervalMulProof", wd))
    res.models.append(prove("IntervalOpsProof", wd))
    res.models.append(model_check("Interval", "Interval_quick.cfg" if q else "Interval_thorough.cfg", wd, workers=8, timeout=3000))
    res.models.append(model_check("Interval", "Interval_inf.cfg", wd, workers=8, timeout=3000))     # 3-point line, depth 12
    res.models.append(model_check("HashSeed", "HashSeed.cfg", wd, workers=2))                       # signed zeros reaching mix / rand
    progs = gen_programs(res, wd)
    trace = os.path.join(wd, "trace.ndjson")
    classes = os.path.join(wd, "classes.out")
    res.gens.append(generate("IntervalClasses", "IntervalClasses.cfg", wd, classes, workers=1))
    if not run_recorder(res, "c03", [progs, res.tier, trace, classes], wd):
        return res.finish("recorder crashed")
    n, rej = validate("Trace_C03", trace, wd, timeout=3000)
    res.validated = n - len(rej)
    res.evaluations = n
    res.samples = sample_lines(trace, maxlen=3000)
    res.add_rejects(trace, rej, lambda r, f: "ev=%s backend=%s fails=%s" % (r.get("ev"), r.get("backend"), "+".join(sorted(f))))
    res.assumptions = ["the point evaluator is the oracle, as the property states; slack = 4 ulps",
                       "WGSL shader and aarch64 back end not reachable on this host"]
    return res.finish("generator programs and seeded long programs on boxes of six classes (degenerate, tiny, unit, wide, huge, touching "
                      "zero; centres at quadrant boundaries and poles) sampled at corners, edge midpoints, centre and interior points; "
                      "VM and JIT; plain tapes, shapes with affine / projective transform matrices; local obligations for every op; "
                      "a case = one interval evaluation with its samples")


def c05(res):
    wd = workdir("C05")
    res.models.append(prove("DualRingProof", wd))
    res.models.append(model_check("MC_Grad", "MC_Grad.cfg", wd, workers=8))
    progs = gen_programs(res, wd)
    trace = os.path.join(wd, "trace.ndjson")
    if not run_recorder(res, "c05", [progs, res.tier, trace], wd):
        return res.finish("recorder crashed")
    n, rej = validate("Trace_C05", trace, wd, timeout=3000)
    res.validated = n - len(rej)
    res.evaluations = n
    res.samples = sample_lines(trace, maxlen=3000)
    res.add_rejects(trace, rej, lambda r, f: "ev=%s backend=%s fails=%s" % (r.get("ev"), r.get("backend", ""), "+".join(sorted(f))))
    res.assumptions = ["exact clauses: integer sub-language, recomputed by TLC", "judged clauses: f64 dual-number reference in the harness, "
                       "tolerance 2^-13 of the chain-rule terms per op; ill-conditioned whole programs (chain terms > 300) are skipped"]
    return res.finish("exact programs (add sub mul neg square abs min max) with arbitrary integer seeds on VM<255>, VM<3>, JIT and the "
                      "symbolic derivative; local obligations for every opcode and operand form on all-slots-exported tapes with "
                      "non-unit seeds; smooth programs and shapes with affine / projective transforms against an f64 reference; "
                      "a case = one record")


def c11(res):
    wd = workdir("C11")
    q = res.tier == "quick"
    res.models.append(model_check("Interval", "Interval_quick.cfg" if q else "Interval_thorough.cfg", wd, workers=8, timeout=3000))
    progs = gen_programs(res, wd)
    trace = os.path.join(wd, "trace.ndjson")
    parts = []
    for which in ("vm", "jit"):
        part = os.path.join(wd, "trace_%s.ndjson" % which)
        # each backend runs in its own process: a crash (signal) of native code is an observation
        if not run_recorder(res, "c11", [which, progs, res.tier, part], wd):
            continue
        parts.append(part)
    n_id = 0
    with open(trace, "w") as out:
        for part in parts:
            for line in open(part):
                r = json.loads(line)
                r["id"] = n_id
                n_id += 1
                out.write(json.dumps(r) + "\n")
    if n_id:
        n, rej = validate("Trace_C11", trace, wd, timeout=3000)
        res.validated = n - len(rej)
        res.evaluations = n
        res.samples = sample_lines(trace, maxlen=2000)
        res.add_rejects(trace, rej, lambda r, f: "ev=%s backend=%s kind=%s fails=%s" % (r.get("ev"), r.get("backend"), r.get("kind", r.get("case")), "+".join(sorted(f))))
    res.assumptions = ["out-of-bounds accesses are observed only as crashes or corrupted guard regions (C02), not proven absent"]
    return res.finish("random and generator programs plus compositions over the Interval.tla alphabet on finite inputs up to f32::MAX, on "
                      "every evaluator entry point of VM<255>, VM<3> and the JIT (own process); malformed argument lists through the "
                      "Function and Shape APIs; a case = one call")


CHECKS = {"C01": c01, "C03": c03, "C05": c05, "C06": c06, "C07": c07, "C08": c08, "C09": c09, "C11": c11, "C12": c12, "C13": c13, "C02": c02, "C04": c04, "C10": c10, "C14": c14, "C15": c15, "C16": c16, "C17": c17, "C18": c18, "C19": c19, "C20": c20}


def replay(prop, path):
    spec = "Trace_" + prop
    if not os.path.exists(os.path.join(SPEC, spec + ".tla")):
        spec = None
    if spec is None:
        print("no replay for", prop)
        return 2
    if prop == "C17":
        c17_meta(workdir(prop))
    if "_repotests_" in os.path.basename(path):                # a record of the repository's own tests (Trace_Hooks.tla)
        n, rej = validate("Trace_Hooks", os.path.abspath(path), workdir(prop))
        if rej:
            print("VIOLATION property=%s replay=%s  # %s" % (prop, path, rej))
            return 1
        print("replay accepted")
        return 0
    if '"tasks":' in open(path).readline() and prop == "C09":    # octree merge dump (Trace_OctreeMerge.tla)
        n, rej = validate("Trace_OctreeMerge", os.path.abspath(path), workdir(prop))
        if rej:
            print("VIOLATION property=%s replay=%s  # %s" % (prop, path, rej))
            return 1
        print("replay accepted")
        return 0
    if '"cfg":"TS_' in open(path).readline():                  # tile-decision trace (Trace_Tiles2.tla / Trace_Tiles3.tla)
        class R: pass
        r = R(); r.prop, r.tier, r.seed, r.violations = prop, "replay", 0, []
        mod = "Trace_Tiles3" if prop == "C07" else "Trace_Tiles2"
        ev, cases, nd, un, rej = validate_tile_events(r, mod, None, os.path.abspath(path), workdir(prop), "replay")
        if rej:
            print("VIOLATION property=%s replay=%s  # %s" % (prop, path, rej))
            return 1
        print("replay accepted (%d events, %d drifting)" % (ev, nd))
        return 0
    if open(path).readline().startswith('{"e":"reset"'):      # allocator step trace (Trace_Alloc.tla)
        ne, nd, rej = validate_alloc_events(os.path.abspath(path), workdir(prop), label="replay")
        if rej:
            print("VIOLATION property=%s replay=%s  # %s" % (prop, path, rej))
            return 1
        print("replay accepted (%d steps, %d drifting)" % (ne, nd))
        return 0
    n, rej = validate(spec, os.path.abspath(path), workdir(prop))
    if rej:
        print("VIOLATION property=%s replay=%s  # %s" % (prop, path, rej))
        return 1
    print("replay accepted")
    return 0


def selftest():
    """Demonstrates the binding between recorded observations and the trace specifications: for a number of
    properties one recorded field is corrupted (or one hook event altered / removed) in an otherwise accepted
    observation of the real code, and the trace specification must reject exactly that line."""
    import copy
    def first(trace, pred):
        for line in open(trace):
            r = json.loads(line)
            if pred(r):
                return r
        return None

    def ensure(prop):
        t = os.path.join(workdir(prop), "trace.ndjson")
        if not os.path.exists(t):
            res = Result(prop, "quick", 1)
            rc = CHECKS[prop](res)
            if rc != 0:
                raise ToolError("selftest: %s quick did not pass (rc=%s)" % (prop, rc))
        return t

    def mut_c19(r):
        r["jac"][0][2] ^= 1 << 21
    def mut_c19_hook(r):          # the hook that names gradient slots is lost: slots cannot be attributed
        for e in r["jac"]:
            e[1] = "?"
    def mut_c08_tri(r):
        r["tris"][0], r["tris"][1] = r["tris"][1], r["tris"][0]
    def mut_c08_collapse(r):
        r["collapses"][0]["c"][0] = 90 if r["collapses"][0]["c"][0] != 90 else 165     # a two-vertex child mask
    def mut_c17(r):
        r["got"]["f"] = "y" if r["got"]["f"] != "y" else "z"
    def mut_c01(r):
        for op in r["asm"]:
            if op[0] >= 3:
                op[2] = (op[2] + 1) % max(int(r["n"]), 2)
                return
    def mut_c20(r):
        r["trace"][0] = 1 if r["trace"][0] != 1 else 2
    def mut_c14(r):
        r["got"][0] ^= 1 << 20
    def mut_c15(r):
        r["words"][2] ^= 0x0100        # output register byte of the first operation word
    def mut_c18(r):
        r["flag"] = 1 - r["flag"]
    def mut_c09(r):
        r["digest"][0] ^= 1
    def mut_c02_hook(r):          # a native call of the SIMD driver reaching past the end of the slices
        r["calls"][-1]["count"] += 8

    plans = [
        ("C19", lambda r: r["status"] == "ok" and len(r["jac"]) > 0 and r["loose"] == 0, mut_c19, "jacobian"),
        ("C19", lambda r: r["status"] == "ok" and len(r["jac"]) > 0, mut_c19_hook, "jacobian"),
        ("C08", lambda r: r["status"] == "ok" and len(r["tris"]) >= 12, mut_c08_tri, ""),
        ("C08", lambda r: r["status"] == "ok" and len(r.get("collapses", [])) > 0, mut_c08_collapse, "unsafe-collapse"),
        ("C17", lambda r: r["status"] == "ok" and r["got"]["o"] == "var", mut_c17, "differs"),
        ("C01", lambda r: r.get("err", "") == "" and int(r["n"]) >= 3 and any(op[0] >= 3 for op in r["asm"]) and len(r["asm"]) > 4, mut_c01, ""),
        ("C20", lambda r: r.get("kind") == "point" and len(r.get("trace", [])) > 0 and r.get("err", "") == "", mut_c20, ""),
        ("C14", lambda r: r["ok"] and r["kind"] == "point" and len(r["got"]) == 1, mut_c14, "value"),
        ("C15", lambda r: r.get("ok") is True and not r.get("skip") and len(r["words"]) > 8, mut_c15, ""),
        ("C18", lambda r: r["ev"] == "canvas2" and r["flag"] in (0, 1), mut_c18, ""),
        ("C09", lambda r: r["result"] == "some" and r["threads"] != 0, mut_c09, "differs-from-sequential"),
        ("C02", lambda r: r.get("ev") == "e2e" and r.get("kind") == "slice" and r.get("len", 0) >= 9 and len(r.get("calls", [])) > 0, mut_c02_hook, "driver"),
    ]
    bad = 0
    done = 0
    for prop, pred, mutate, clause in plans:
        trace = ensure(prop)
        if prop == "C17":
            c17_meta(workdir(prop))
        r = first(trace, pred)
        if r is None:
            log("selftest %s: no suitable recorded line (skipped)" % prop)
            continue
        wd = workdir(prop)
        ok_file = os.path.join(wd, "selftest_ok.ndjson")
        bad_file = os.path.join(wd, "selftest_bad.ndjson")
        with open(ok_file, "w") as f:
            f.write(json.dumps(r) + "\n")
        m = copy.deepcopy(r)
        mutate(m)
        with open(bad_file, "w") as f:
            f.write(json.dumps(m) + "\n")
        stateful = prop == "C18"
        if stateful:
            # Trace_C18 replays the model next to the recording: keep the prefix of the history
            lines = []
            for line in open(trace):
                q = json.loads(line)
                if q.get("hist") == r.get("hist") and q["ev"] == r["ev"] and q["step"] <= r["step"]:
                    lines.append(q)
            with open(ok_file, "w") as f:
                f.write("".join(json.dumps(q) + "\n" for q in lines))
            with open(bad_file, "w") as f:
                f.write("".join(json.dumps(q if q["id"] != r["id"] else m) + "\n" for q in lines))
        _, rej_ok = validate("Trace_" + prop, ok_file, wd)
        _, rej_bad = validate("Trace_" + prop, bad_file, wd)
        good = (not rej_ok) and (r["id"] in rej_bad) and (clause == "" or any(clause in c for c in rej_bad[r["id"]]))
        done += 1
        log("selftest %s %s: original accepted=%s, corrupted rejected=%s %s -> %s" % (
            prop, mutate.__name__, not rej_ok, r["id"] in rej_bad, rej_bad.get(r["id"], ""), "ok" if good else "BINDING NOT DEMONSTRATED"))
        if not good:
            bad += 1
    # tile-decision traces (Trace_Tiles2 / Trace_Tiles3): an altered answer, a dropped tile event and a shifted hit
    # must make the case leave the step-wise model (DRIFT); an altered final image must be rejected
    for prop, module, fname in (("C07", "Trace_Tiles3", "tiles3.ndjson"), ("C06", "Trace_Tiles2", "tiles2.ndjson")):
        ensure(prop)
        src = os.path.join(workdir(prop), fname)
        if not os.path.exists(src):
            log("selftest %s: no tile-decision trace (skipped)" % module)
            continue
        cases, cur = [], []
        for ln in open(src):
            if '"e":"reset"' in ln and cur:
                cases.append(cur); cur = []
            cur.append(ln)
        cases.append(cur)
        def corrupt(kind):
            for c in cases:
                rs = [json.loads(x) for x in c]
                tiles = [i for i, r in enumerate(rs) if r["e"] == "tile"]
                hits = [i for i, r in enumerate(rs) if r["e"] == "hit"]
                if kind == "answer":
                    i = next((i for i in tiles if rs[i]["act"] == 2), None)
                    if i is None: continue
                    rs[i]["act"] = 1
                elif kind == "dropped-tile":
                    if len(tiles) < 3: continue
                    del rs[tiles[1]]
                elif kind == "hit":
                    if not hits: continue
                    rs[hits[0]]["z"] += 1
                elif kind == "image":
                    k = "depth" if "depth" in rs[-1] else "pix"
                    rs[-1][k][0] = rs[-1][k][0] + 1 if k == "depth" else 1 - rs[-1][k][0]
                return [json.dumps(r, separators=(",", ":")) + "\n" for r in rs]
            return None
        class R: pass
        for kind in ("answer", "dropped-tile", "hit", "image"):
            lines = corrupt(kind)
            if lines is None:
                continue
            r = R(); r.prop, r.tier, r.seed, r.violations = prop, "replay", 0, []
            bf = os.path.join(workdir(prop), "selftest_tiles_bad.ndjson")
            with open(bf, "w") as f:
                f.writelines(lines)
            ev, nc, nd, un, rej = validate_tile_events(r, module, None, bf, workdir(prop), "selftest")
            good = (len(rej) == 1) if kind == "image" else (nd == 1)
            done += 1
            log("selftest %s %s: drift=%d unsound=%d rejected=%s -> %s" % (module, kind, nd, un, rej, "ok" if good else "BINDING NOT DEMONSTRATED"))
            if not good:
                bad += 1
    # octree-merge dumps (Trace_OctreeMerge): a shifted leaf, a placeholder and a branch index out of range in the merged octree
    ensure("C09")
    src = os.path.join(workdir("C09"), "octmerge.ndjson")
    if os.path.exists(src):
        recs = [json.loads(x) for x in open(src)]
        base = next((r for r in recs if r["status"] == "ok" and len(r["groups"]) > len(r["fix"]) and any(c[0] == "L" for c in r["groups"][len(r["fix"])])), None)
        if base is not None:
            g = len(base["fix"])
            def shift(r):
                c = next(c for c in r["groups"][g] if c[0] == "L"); c[1] += 1
            def hole(r):
                r["groups"][g][0] = ["I", 0, 0]
            def wild(r):
                c = next(c for grp in r["groups"] for c in grp if c[0] == "B"); c[1] = 99999
            for mut, clause in ((shift, "task-subtree-differs"), (hole, "placeholder-left"), (wild, "index-out-of-bounds")):
                m = copy.deepcopy(base)
                mut(m)
                bf = os.path.join(workdir("C09"), "selftest_om_bad.ndjson")
                with open(bf, "w") as f:
                    f.write(json.dumps(base) + "\n" + json.dumps(dict(m, id=base["id"] + 100000)) + "\n")
                _, rej = validate("Trace_OctreeMerge", bf, workdir("C09"))
                good = base["id"] not in rej and clause in rej.get(base["id"] + 100000, [])
                done += 1
                log("selftest Trace_OctreeMerge %s: %s -> %s" % (mut.__name__, rej, "ok" if good else "BINDING NOT DEMONSTRATED"))
                if not good:
                    bad += 1
    log("selftest: %d corruptions tried, %d not rejected as expected" % (done, bad))
    return 2 if bad else 0
