"""Model mutants: for every design model one deliberate fault is injected into a scratch copy of the specification
(or of its configuration) and TLC must report an invariant violation.  This demonstrates that the invariants the S
step relies on are not vacuous for the bound that is checked: a design fault of the kind the model is there to
exclude is actually reached and actually rejected.  Run by `vcheck --selftest-models`."""
import os, re, shutil, glob
from vlib import *

# (module, cfg, file that is mutated, exact old text, new text, what the fault is)
MUTANTS = [
 ("Alloc", "Alloc_N3_quick.cfg", "Alloc.tla",
  "GetAlloc(st, n) == IF IsReg(st.alloc[n]) THEN Poke(st, st.alloc[n]) ELSE st", "GetAlloc(st, n) == st",
  "get_allocation no longer pokes the LRU: a live operand register is evicted"),
 ("Alloc", "Alloc_N3_quick.cfg", "Alloc.tla",
  'Emit(PushStore(Chk(h[1], ra # rx), ra, ll), <<"op", rx, 2, ra, rx>>)', 'Emit(PushStore(Chk(h[1], ra # rx), ra, ll), <<"op", rx, 2, rx, ra>>)',
  "row (lhs in memory, rhs unassigned) emits its operands exchanged"),
 ("Lru", "Lru.cfg", "Lru.tla",
  "ELSE UNCHANGED <<prev, next>> /\\ head' = i", "ELSE UNCHANGED <<prev, next, head>>",
  "poking the oldest element does not move the head"),
 ("Flatten", "Flatten_mc.cfg", "Flatten.tla",
  "pc2 == [m \\in Nodes |-> st.pc[m] + Cardinality({i \\in 1..Len(ch) : ch[i] = m})]\n            IN Pass1",
  "pc2 == [m \\in Nodes |-> st.pc[m] + (IF \\E i \\in 1..Len(ch) : ch[i] = m THEN 1 ELSE 0)]\n            IN Pass1",
  "parents counted per node instead of per edge"),
 ("Simplify", "Simplify_quick.cfg", "Simplify.tla",
  '[] k = "chrr" /\\ ch = "R" ->\n                 IF bind[as[2]] # U\n                 THEN /\\ ctape\' = Append(ctape, <<"copy", n, bind[as[2]], U>>)',
  '[] k = "chrr" /\\ ch = "R" ->\n                 IF bind[as[2]] # U\n                 THEN /\\ ctape\' = Append(ctape, <<"copy", n, bind[as[1]], U>>)',
  "a Right choice aliases the left operand"),
 ("Simplify", "Simplify_quick.cfg", "Simplify_quick.cfg", "AssertAsWritten = FALSE", "AssertAsWritten = TRUE",
  "the bookkeeping assertion as it was written (count + 1): fires for two outputs"),
 ("EvalTrace", "EvalTrace.cfg", "EvalTrace.tla",
  "/\\ jitWritten' = Append(jitWritten, rsi) /\\ rsi' = rsi + 1", "/\\ jitWritten' = Append(jitWritten, rsi) /\\ rsi' = rsi",
  "the native choice pointer is not advanced (the defect repaired by 68c2e5b)"),
 ("BulkDriver", "BulkDriver_W8.cfg", "BulkDriver.tla",
  '<<"caller", len - W, W>>', '<<"caller", m, W>>',
  "the remainder call starts at the last full vector instead of ending at the last sample"),
 ("MC_Render2D", "Render2D_quick.cfg", "Render2D.tla",
  "PixelOffset(p) == (p[1] % T0) + (p[2] % T0) * T0", "PixelOffset(p) == (p[1] % T0) + (p[2] % T0) * (T0 - 1)",
  "row stride of the root-tile buffer off by one"),
 ("MC_Render3D", "Render3D_quick.cfg", "Render3D_quick.cfg", 'Clamp = "gt-d"', 'Clamp = "ge-d1"',
  "the merge clamp as it was (the defect repaired by e10bc2a)"),
 ("MC_Render3D", "Render3D_quick.cfg", "Render3D.tla",
  "k == (n - 1) - ((q - 1) % n)", "k == (q - 1) % n",
  "sub-tiles visited back to front along z"),
 ("Canvas", "Canvas_quick.cfg", "Canvas_quick.cfg", "ZoomRefreshesHandle = TRUE", "ZoomRefreshesHandle = FALSE",
  "a zoom during a drag keeps the stale handle (the defect repaired by 4aca9be)"),
 ("HashSeed", "HashSeed.cfg", "HashSeed.cfg", "Guarded = TRUE", "Guarded = FALSE",
  "mix / rand hash a degenerate zero interval (the defect repaired by 0d6d067)"),
 ("Interval", "Interval_quick.cfg", "Interval_quick.cfg", "Guarded = TRUE  GuardedProducts = TRUE  GuardedInf = TRUE",
  "Guarded = FALSE  GuardedProducts = TRUE  GuardedInf = FALSE",
  "add / sub / scale build half-NaN intervals and panic (the defect repaired by 6766a18; the later inf - inf rule of 71f5367 subsumes it, so both are off)"),
 ("Interval", "Interval_inf.cfg", "Interval_inf.cfg", "GuardedInf = TRUE", "GuardedInf = FALSE",
  "0 x inf and inf - inf inside the ranges go unannounced (674efe4, 71f5367)"),
 ("Context", "Context_quick.cfg", "Context.tla",
  '[] op = "Sub" -> (IF IsC(ar, a, 0) THEN OpUnary(ar, "Neg", b)', '[] op = "Sub" -> (IF IsC(ar, a, 0) THEN <<ar, b>>',
  "0 - b rewritten to b"),
 ("Import", "Import_quick.cfg", "Import.tla",
  "Append(axes, AffFrame(mat, fr)), aff, seen))", "Append(axes, AffFrame(mat, <<X, Y, Zt>>)), aff, seen))",
  "an affine remap ignores the frame it is imported under (the order of directly nested matrices cannot be probed: the builder flattens them)"),
 ("Import", "ImportShare_quick.cfg", "Import.tla",
  "IF t[1] \\in {\"add\", \"mul\"} /\\ <<fr, t>> \\in DOMAIN seen\n        THEN Run(rest, Append(stack, seen[<<fr, t>>]), axes, aff, seen)",
  "IF t[1] \\in {\"add\", \"mul\"} /\\ (\\E k \\in DOMAIN seen : k[2] = t)\n        THEN Run(rest, Append(stack, seen[CHOOSE k \\in DOMAIN seen : k[2] = t]), axes, aff, seen)",
  "import cache keyed by the subtree alone, not by (frame, subtree)"),
 ("Par", "Par.cfg", "Par.tla",
  'THEN /\\ out\' = [out EXCEPT ![t] = [s |-> "err", v |-> 0]] /\\ sawFlag\' = TRUE',
  'THEN /\\ out\' = [out EXCEPT ![t] = [s |-> "ok", v |-> 0]] /\\ sawFlag\' = TRUE',
  "a task that sees the cancel flag contributes an empty result instead of an error: partial output"),
 ("Solver", "Solver.cfg", "Solver.tla",
  "NS == (F + 2) \\div 3", "NS == F \\div 3",
  "number of gradient samples rounded down"),
 ("VarBind", "VarBind_mc.cfg", "VarBind.tla",
  "CHOOSE v \\in used : index[v] = i - 1]", "CHOOSE v \\in used : index[v] = Cardinality(used) - i]",
  "argument vector filled in reverse order"),
 ("BindHist", "BindHist.cfg", "BindHist.tla",
  "/\\ LET child == s IN", "/\\ LET child == storage IN",
  "the simplified tape keeps the variable map of the recycled storage"),
 ("Reuse", "Reuse_mc.cfg", "Reuse.tla",
  'LET c1 == Fill(Resize(choices, NCh[f], "clean"), "clean") IN', 'LET c1 == Resize(choices, NCh[f], "clean") IN',
  "the choice array is resized but not refilled"),
 ("Handle", "Handle_quick.cfg", "Handle.tla",
  "IF Len(s.chain) >= level + 1 /\\ s.chain[level + 1].box = b THEN", "IF Len(s.chain) >= level + 1 THEN",
  "the cached child is reused without comparing traces"),
 ("MC_Bytecode", "MC_Bytecode.cfg", "Bytecode.tla",
  "[] c = 5 -> << <<code(BcName(nm)), map[o], 255, map[a]>>, imm>>", "[] c = 5 -> << <<code(BcName(nm)), map[o], map[a], 255>>, imm>>",
  "imm-reg forms packed like reg-imm forms"),
 ("MC_JitCall", "JitCall.cfg", "JitCall.cfg", "RestoreCell <- Cell0", "RestoreCell <- Slip",
  "a copy-and-paste slip in the list that reloads the tape registers after an out-of-line call"),
 ("MC_JitCall", "JitCall.cfg", "JitCall.cfg", "RestoredPtrs <- AllPtrs", "RestoredPtrs <- NoR15",
  "r15 (the callee's address during the call) is not reloaded afterwards"),
 ("MC_JitCall", "JitCall.cfg", "JitCall.cfg", "ArgCell = 12", "ArgCell = 11",
  "the argument vector is stored into the save area of ymm15"),
 ("OctreeMerge", "OctreeMerge_A2.cfg", "OctreeMerge.tla",
  'CASE cell[1] = "L" -> Leaf(cell[2] + voff, cell[3])', 'CASE cell[1] = "L" -> Leaf(cell[2], cell[3])',
  "leaf vertex indices not rebased when a local octree is merged"),
 ("OctreeMerge", "OctreeMerge_A2.cfg", "OctreeMerge.tla",
  "THEN <<Leaf(Len(o.verts), 1), [o EXCEPT !.verts = Append(o.verts, -1 - g)]>>", "THEN <<Leaf(Len(o.verts), 1), o>>",
  "a split cell collapsed by the fix-up points at a vertex that is never appended"),
]


def run():
    wd = workdir("modelmut")
    bad = 0
    done = 0
    for module, cfg, target, old, new, what in MUTANTS:
        d = os.path.join(wd, "m%02d" % done)
        shutil.rmtree(d, ignore_errors=True)
        os.makedirs(d)
        for f in glob.glob(os.path.join(SPEC, "*.tla")):
            shutil.copy(f, d)
        shutil.copy(os.path.join(SPEC, cfg), d)
        p = os.path.join(d, target)
        text = open(p).read()
        if text.count(old) != 1:
            log("model mutant %s/%s: the text to replace occurs %d times (table out of date)" % (module, target, text.count(old)))
            bad += 1
            done += 1
            continue
        with open(p, "w") as f:
            f.write(text.replace(old, new))
        cmd = ["tlc", "-workers", "8", "-metadir", os.path.join(d, "meta"), "-cleanup", "-noGenerateSpecTE",
               "-config", os.path.join(d, cfg), os.path.join(d, module + ".tla")]
        rc, out, dt = sh(cmd, 3000, cwd=d, env={"JAVA_TOOL_OPTIONS": "-Xss1g"})
        m = re.search(r"Invariant (\w+) is violated", out)
        ok = m is not None
        log("model mutant %-12s %-24s %-26s %s  (%s; %.0fs)" % (module, cfg, "violates " + m.group(1) if m else "NOT CAUGHT", "ok" if ok else "VACUOUS?", what, dt))
        if not ok:
            sys.stdout.write(out[-1500:])
            bad += 1
        done += 1
        shutil.rmtree(d, ignore_errors=True)
    log("model mutants: %d injected, %d not rejected by the model's invariants" % (done, bad))
    return 2 if bad else 0
