#!/usr/bin/env python3
"""Regenerates MANIFEST.json from the table below (kept valid at all times)."""
import json, os
ROOT = os.path.dirname(os.path.dirname(os.path.abspath(__file__)))
CLAIMED = {
 "C01": dict(
   text="TLC exhausts the allocator design model (every SSA program shape within MaxLive/MaxOps, budgets 1..4; invariants: "
        "backward demand-map simulation, loud failure below 3 registers) and the ring LRU refinement; the same model emits "
        "every program of the bound, which the harness compiles with the real RegisterAllocator<N> at several budgets; "
        "Trace_C01 (TLA+) then decides, per recorded (SSA tape, register tape, results), that the register tape implements "
        "the SSA tape (symbolic execution), keeps the index discipline, and that point and slice results equal the "
        "reference bit for bit; Z-programs are re-evaluated in Integers by TLC.",
   note="value agreement is sampled (specials + random points); opcode reference = UnaryOpcode/BinaryOpcode::eval and "
        "Context::eval (the graph evaluated directly); evaluations where a NaN reaches rand/mix are only counted",
   technique="TLA+ design model (TLC exhaustive) + TLC-generated programs replayed into the real compiler + TLA+ trace validation",
   design_ref="DESIGN.md section 3 C01"),
}
NOT_YET = {}
props = [json.loads(l) for l in open(os.path.join(ROOT, "properties.jsonl"))]
m = {
 "version": 1,
 "setup_cmd": "bin/vcheck --setup",
 "hooks": {
   "guard": "fidget_verif",
   "enable": "RUSTFLAGS=\"--cfg fidget_verif --check-cfg cfg(fidget_verif)\" (set in /verif/harness/.cargo/config.toml; never in /repo)",
   "baseline_off_cmd": "cd /repo && cargo nextest run --workspace --no-fail-fast --test-threads 8 --offline || cargo test --workspace --no-fail-fast --offline",
   "source_commits": [],
   "add_only": True,
 },
 "engines": [{"name": "vcheck", "path": "bin/vcheck", "serves_properties": sorted(CLAIMED),
              "kind_free_text": "python runner: TLC design models (S), TLC-generated behaviours replayed into the real crates by the Rust harness (R), TLA+ trace validation of the recorded observations (T)"}],
 "checks": [],
 "notes": "See DESIGN.md. Every verdict is taken by a TLA+ trace specification (spec/Trace_*.tla) over observations recorded from the real code.",
 "not_applicable": [],
}
for p in props:
    i = p["id"]
    if i in CLAIMED:
        c = CLAIMED[i]
        m["checks"].append({
          "property_id": i, "quick_cmd": "bin/vcheck %s quick" % i, "thorough_cmd": "bin/vcheck %s thorough" % i,
          "evidence_file": "evidence/%s.json" % i, "replay_cmd_template": "bin/vcheck %s --replay {path}" % i,
          "engine": "vcheck",
          "level_claimed": {"category": "model_checking", "text": c["text"], "design_ref": c["design_ref"]},
          "level_note": c["note"], "technique": c["technique"]})
    else:
        m["not_applicable"].append({"property_id": i, "reason": NOT_YET.get(i, "check not built yet in this round (planned in DESIGN.md section 3); not claimed rather than shipped unverified")})
json.dump(m, open(os.path.join(ROOT, "MANIFEST.json"), "w"), indent=1)
print("claimed:", sorted(CLAIMED))
