#!/usr/bin/env python3
"""Regenerates MANIFEST.json from the table below (kept valid at all times)."""
import json, os
ROOT = os.path.dirname(os.path.dirname(os.path.abspath(__file__)))
CLAIMED = {
 "C01": dict(
   text="TLC exhausts the allocator design model (every SSA program shape within MaxLive/MaxOps, budgets 1..4; invariants: "
        "backward demand-map simulation, loud failure below 3 registers) and the ring LRU refinement; the same model emits "
        "every program of the bound, which the harness compiles with the real RegisterAllocator<N> at several budgets; "
        "Trace_C01 (TLA+) then decides, per recorded (SSA tape, register tape, results), that the register tape implements "
        "the SSA tape (symbolic execution), keeps the index discipline, and that point and slice results equal the "
        "reference bit for bit; Z-programs are re-evaluated in Integers by TLC. Flatten.tla models SsaTape::new (DAG to SSA tape); every "
        "DAG of its bound is built through the real Context and the recorded tape compared with the predicted one. Trace_Alloc (TLA+) "
        "validates the real allocator step by step: one recorded event per SSA op, one action of Alloc.tla per event, emitted register ops / "
        "panic outcome / slot count compared, and Alloc.tla's invariants evaluated in every state of the real run.",
   note="value agreement is sampled (specials + random points); opcode reference = UnaryOpcode/BinaryOpcode::eval and "
        "Context::eval (the graph evaluated directly); evaluations where a NaN reaches rand/mix are only counted",
   technique="TLA+ design model (TLC exhaustive) + TLC-generated programs replayed into the real compiler + TLA+ trace validation (per case, and step by step against the model's actions)",
   design_ref="DESIGN.md section 3 C01"),
}
CLAIMED["C02"] = dict(
   text="TLC exhausts the bulk-driver model (every n up to 5 SIMD widths, W in {1,4,8}: in-bounds, coverage) and the lowering contract "
        "model; the harness runs the real x86_64 JIT on generator programs compiled for 12 registers with up to 24 live values; "
        "Trace_C02 (TLA+) decides per recorded op the local obligation (JIT result vs reference opcode on the JIT's own operand bits; "
        "NaN~NaN, sign of zero free for min/max; integer-exact ops recomputed by TLC), whole-program agreement with the interpreter "
        "for single points and every slice length 0..=35, one result per sample, untouched guard regions, and that the native calls "
        "recorded by the bulk-driver hook satisfy the BulkDriver predicates.",
   note="x86_64 only; ISA semantics are observed, not modelled; reads outside slices only via the driver's (offset,count) pairs",
   technique="TLA+ design models (TLC) + replay of TLC-generated programs into the real JIT + TLA+ trace validation incl. hook events",
   design_ref="DESIGN.md section 3 C02")
CLAIMED["C04"] = dict(
   text="TLC exhausts the simplify-walk model (every parent tape shape x every trace within the bound: child well-formed, root terms "
        "preserved under the trace, bookkeeping equation) and the choice-cursor model; the harness takes traces from all four real "
        "tracing evaluators, simplifies into the same and different budgets and along chains of nested boxes; Trace_C04 (TLA+) decides "
        "per simplify call: success, variable numbering and outputs kept, child register tape implements child SSA tape, and "
        "bit-identical point / many-point / gradient / interval results on the traced domain (child vs parent and vs the original). "
        "Trace_Simplify (TLA+) replays every recorded call op by op through the actions of Simplify.tla: the child tape the model builds "
        "must be the real child tape.",
   note="the traced domain is sampled (corners, midpoint, interior); a trace is used with the backend it came from; samples where a NaN "
        "occurs pointwise are not judged for interval-derived traces (C03 makes no claim there)",
   technique="TLA+ design model (TLC exhaustive) + replay into real simplify + TLA+ trace validation (per call, and op by op against the model's actions)",
   design_ref="DESIGN.md section 3 C04")
CLAIMED["C20"] = dict(
   text="TLC exhausts the choice-cursor model (interpreter cursor and JIT choice pointer with call save/restore: the k-th clause writes "
        "entry k for every op sequence); the harness records tracing evaluations of interpreter and JIT, point and interval, on programs "
        "with up to ~200 clauses whose clause operands are exported; Trace_C20 (TLA+) computes from the recorded operand bit patterns "
        "what each entry must be and requires equality, full length, no Unknown entries, no-trace only when all clauses are undecided, "
        "and exact outputs x samples shapes and metadata agreement, also for reused bulk evaluators.",
   note="operand values are the evaluator's own (exported as extra outputs); x86_64 only",
   technique="TLA+ design model (TLC) + replay of TLC-generated programs + TLA+ trace validation",
   design_ref="DESIGN.md section 3 C20")
CLAIMED["C03"] = dict(
   text="TLC exhausts the interval-arithmetic model on a saturating IEEE-like number line (every finite start box, every op sequence to "
        "depth 2-3: well-formedness and enclosure of a carried point) and enumerates the case classes each operator distinguishes; the "
        "harness evaluates the real interpreter and JIT interval evaluators on generator programs, class-directed single-op cases and "
        "shapes with affine / projective transforms; Trace_C03 (TLA+) decides enclosure of every sampled point value (4 ulps; NaN "
        "interval / NaN point excepted) end to end and, as local obligations on all-slots-exported tapes, per op. TLAPS proves the "
        "enclosure lemmas of the finite core (mul, add, sub, neg, min, max, abs, square) over all integers; directed families exercise "
        "overflow to infinity followed by NaN-absorbing operators.",
   note="the point evaluator is the oracle (as the property states); boxes are sampled at corners, edge midpoints, centre, interior and "
        "critical points; WGSL and aarch64 not reachable",
   technique="TLA+ design model (TLC) + TLC-enumerated case classes replayed into the real evaluators + TLA+ trace validation",
   design_ref="DESIGN.md section 3 C03")
CLAIMED["C05"] = dict(
   text="TLC checks the dual-number rules against exact polynomial derivatives; for programs of the exact sub-language with arbitrary "
        "integer seeds Trace_C05 recomputes every output dual in Integers and requires VM<255>, VM<3>, JIT and the symbolic derivative "
        "to return exactly those numbers; for all other opcodes and forms each op of an all-slots-exported tape is judged locally "
        "against the chain rule on the operand duals the evaluator itself reported, and smooth whole programs / transformed shapes "
        "against an f64 dual-number reference (judged clauses, tolerance stated in the spec).",
   note="judged clauses rely on the harness's f64 reference; non-differentiable loci and ill-conditioned programs are excluded as the property says",
   technique="TLA+ exact dual arithmetic (TLC) + replay + TLA+ trace validation; f64 reference for judged clauses",
   design_ref="DESIGN.md section 3 C05")
CLAIMED["C10"] = dict(
   text="TLC exhausts the reuse model (stale-content tokens through the transcribed reset code of evaluators, workspace and storage, "
        "histories to length 7) and emits every history up to the bound plus simulated long ones; the harness replays each on real "
        "reused evaluators / tape storage / function storage / workspaces for VM<255>, VM<3> and JIT over functions of different "
        "shapes and repeats every action with fresh objects; Trace_C10 requires identical observations. Handle.tla models the RenderHandle "
        "chain of cached simplifications; its walk histories are replayed on a real RenderHandle with persistent storage.",
   note="fresh-object results are the reference; histories are over three functions at a time",
   technique="TLA+ design model (TLC) + TLC-generated histories replayed on real objects + TLA+ trace validation",
   design_ref="DESIGN.md section 3 C10")
CLAIMED["C11"] = dict(
   text="TLC searches the interval model for ill-formed intervals (the constructor assertion) through all compositions to depth 2-3; "
        "the harness calls every evaluator entry point of VM<255>, VM<3> and the JIT (own process, so a signal is an observation) with "
        "finite inputs up to f32::MAX on random programs and on compositions over the model's alphabet, and with malformed argument "
        "lists; Trace_C11 requires normal return, well-formed or NaN intervals, error values for malformed arguments.",
   note="out-of-bounds accesses are only observed as crashes or corrupted guards, not proven absent",
   technique="TLA+ design model (TLC) + replay of the model's alphabet on real evaluators + TLA+ trace validation",
   design_ref="DESIGN.md section 3 C11")
CLAIMED["C14"] = dict(
   text="TLC exhausts the variable-binding model (every encounter order with repetitions, every supplied set with extras and missing "
        "variables: slot i holds the variable of index i, errors exactly when a used variable is missing) and emits every case; the "
        "harness realises each as a weighted sum with distinct prime weights, integer values and integer affine / projective "
        "transforms on VM and JIT, four evaluator kinds, before and after simplification; Trace_C14 recomputes the expected value and "
        "partials in Integers.",
   note="integer values and transforms only (exact); float transforms are covered by C03 / C05",
   technique="TLA+ design model (TLC) + TLC-generated cases replayed + TLA+ trace validation with exact expectation",
   design_ref="DESIGN.md section 3 C14")
CLAIMED["C15"] = dict(
   text="TLC checks the packer against the documented decoder for every op form, register assignment, repacking map and memory slot "
        "(one-op round trip); Trace_C15 decodes the words of real Bytecode::new output only as the documentation says (opcode table "
        "from iter_ops() at record time), executes them symbolically against the SSA tape, checks markers, register / memory bounds "
        "and the reserved register, and compares an independent numeric executor with the interpreter bit for bit.",
   note="the WGSL interpreter is not reachable; the format documentation is the reference",
   technique="TLA+ encoder/decoder model (TLC) + replay + TLA+ trace validation (symbolic decode)",
   design_ref="DESIGN.md section 3 C15")
CLAIMED["C06"] = dict(
   text="TLC exhausts the 2D tile-recursion model (every inside-set on the closed lattice of a small image whose root tiles overhang, "
        "sound interval oracle under four policies, fill and pixel modes: every pixel correct, every buffer entry written exactly once, "
        "no write outside the root buffer) and emits bitmaps; the harness renders bitmaps realised as unions of pixel-aligned rectangles, "
        "random CSG, NaN-interval shapes and bundled models with the real renderer (sizes, tile lists incl. non-powers of two, affine "
        "and projective views, VM / JIT, pools) and records the brute-force value at every pixel; Trace_C06 requires inside <=> value < 0 "
        "(rounding band excepted) and, pixel-perfect, the value itself.  Step by step: the tile decisions of real renders (pix_root / pix_tile "
        "hook events, one case per root tile) are replayed through the step-wise formulation of Render2D.tla (Trace_Tiles2: agenda order, "
        "fill / recurse / pixels, every buffer entry written exactly once, clipped image equal; TLC proves the step-wise and the recursive "
        "formulation equal for every inside set).",
   note="reference values: interpreter on the unsimplified shape (tied to direct graph evaluation by C01); band 2e-5 around zero",
   technique="TLA+ design model (TLC exhaustive) + replay of generated bitmaps / shapes into the real renderer + TLA+ trace validation",
   design_ref="DESIGN.md section 3 C06")
CLAIMED["C07"] = dict(
   text="TLC exhausts the voxel-renderer model (every voxel set on a small column block, z-descending root loop with break, early exits, "
        "full / empty tiles over the closed box, first-hit search, merge clamp; four oracle policies: depth = brute-force heightmap, "
        "gradient requested at the hit voxel, a hit above the grid clamped to the grid depth, the code's assertion never fires) and emits every "
        "voxel set of a small grid, which the harness realises and renders (expected heightmap recomputed by Trace_C07 from the voxel set); "
        "the harness also renders stacked objects, voxel-aligned boxes "
        "and CSG on grids with unequal sides and depths that are not multiples of the root tile and records the brute-force heightmap "
        "and reference normals; Trace_C07 compares every column inside the claim.  Step by step: the tile decisions of real renders (vox_root / "
        "vox_tile / vox_hit hook events, one case per root tile column) are replayed through the step-wise formulation of Render3D.tla "
        "(Trace_Tiles3: agenda order, occlusion test, full / empty / recurse / voxels, the hits of every leaf tile, merged image equal, "
        "the code's depth assertion on the model state; TLC proves the step-wise and the recursive formulation equal for every voxel set).",
   note="reference normals come from the same backend's gradient evaluator on the unsimplified shape (C05 judges gradients)",
   technique="TLA+ design model (TLC exhaustive) + TLC-generated voxel sets replayed into the real renderer + TLA+ trace validation",
   design_ref="DESIGN.md section 3 C07")
CLAIMED["C09"] = dict(
   text="TLC exhausts the task fan-out model (K workers, T tasks, cancel at any moment, per-worker private state re-initialised at will: "
        "all-or-nothing, nothing only if cancelled, a token never set gives a result, task outputs independent of worker and schedule); "
        "the harness runs 2D renders, voxel renders and meshes with no pool, the global pool and pools of 1..16 threads, sets the token "
        "before the run, after exactly k polls (counted inside the cancel-poll hook), in the middle of a task (at the k-th native call reported "
        "by the JIT's bulk-driver hook) or never, perturbs task starts through the "
        "schedule-point hook, and evaluates one JIT tape from up to 16 threads; Trace_C09 applies the model's invariants to every run.  "
        "OctreeMerge.tla (pre-split, local octrees, merge with index rebasing, fix-up) is exhausted by TLC and bound to the code by "
        "Trace_OctreeMerge.tla: the mt_* hooks dump every task's local octree, the splits and the merged octree of real multi-threaded "
        "builds, the model's own Merge applied to the recorded local octrees must give the recorded merged octree, every reachable index "
        "must be in range, no placeholder reachable, and every live task position must denote its local octree.",
   note="interleavings are perturbed, not enumerated, on the real code; the verdict never depends on timing",
   technique="TLA+ design model (TLC exhaustive) + hook-driven cancellation / schedule perturbation on the real code + TLA+ trace validation",
   design_ref="DESIGN.md section 3 C09")
CLAIMED["C12"] = dict(
   text="TLC exhausts the arena / rewrite-table model (every expression of up to 2-3 constructor calls over two variables and the "
        "constants -1, 0, 1, 2: the node means what the unrewritten expression means at every integer assignment, no duplicate ops, "
        "repeated calls return the same node, no all-constant op reaches flattening) and enumerates the operand-class cases; the "
        "harness builds one implementation test per case plus generator and random programs with special constants and shared "
        "subtrees, through the constructors and as trees, and evaluates the unsimplified expression operation by operation; "
        "Trace_C12 requires equal values (finite evaluations, sign of zero free), deduplication, export/import round trip, equal "
        "hashes for equal trees, and deep chains handled on a 256 KiB stack.",
   note="stack depth is observed (child process), not modelled",
   technique="TLA+ design model (TLC exhaustive) + TLC-enumerated cases replayed into the real Context + TLA+ trace validation",
   design_ref="DESIGN.md section 3 C12")
CLAIMED["C13"] = dict(
   text="TLC exhausts the import stack-machine model against denotational substitution (builder sequences over two registers with "
        "sharing, four integer matrices, 42 remap_xyz forms; cache soundness) and emits every sequence of the bound, a deeper "
        "reduced-alphabet family aimed at sharing, and simulated long sequences; the harness replays them through Tree / "
        "Context::import; Trace_C13 rebuilds the tree from the recorded sequence and recomputes the value by substitution in Integers.",
   note="integer matrices and points are exact; float affine chains (incl. near-identity ones) are judged against an f64 composition",
   technique="TLA+ design model (TLC exhaustive) + TLC-generated builder sequences replayed + TLA+ trace validation with exact denotation",
   design_ref="DESIGN.md section 3 C13")
CLAIMED["C16"] = dict(
   text="Shapes.tla decides membership of rational points in the documented solids exactly (primitives, named axes and planes, move, "
        "scale incl. negative and non-uniform, quarter-turn rotations about centres, reflections, repetition, revolution, extrusion, "
        "CSG); TLC checks algebraic laws of that definition on a lattice and enumerates ~10^4 shape terms; the harness builds each with "
        "the real structs (named and generic forms, angles modulo a turn) and evaluates lattice points; Trace_C16 compares every "
        "decidable point.",
   note="integer parameters and quarter turns only; blend and loft interiors and general angles are outside the exact model",
   technique="TLA+ exact geometric semantics (TLC) + TLC-enumerated shape terms replayed into the real library + TLA+ trace validation",
   design_ref="DESIGN.md section 3 C16")
CLAIMED["C18"] = dict(
   text="Canvas.tla models the 2D canvas exactly in dyadic rationals (view matrix, drag handle, changed flags) and TLC exhausts every event "
        "sequence of the bound (begin/drag/end drag, zoom with and without cursor, resize, interleaved); the same model emits every "
        "sequence, which the harness replays on the real Canvas2 with power-of-two sizes and integer cursors; Trace_C18 replays the exact "
        "model statefully next to the recording and requires bit-equal view matrices and flags; random float sequences on Canvas2 and "
        "Canvas3 are judged (point under the cursor stays put, pan tracks the cursor, flags equal bitwise change).",
   note="exact clauses are dyadic (sizes 2^k, scroll multiples of 100); 3D rotation and float sequences are judged with stated tolerances",
   technique="TLA+ exact model (TLC exhaustive) + TLC-generated event sequences replayed into the real Canvas + stateful TLA+ trace validation",
   design_ref="DESIGN.md section 3 C18")
CLAIMED["C19"] = dict(
   text="Solver.tla models the Jacobian assembly (three unknowns per gradient sample, per-tape slot lookup, fixed parameters as constants, "
        "result keyed by the free set; free set may be empty) and TLC exhausts every assignment of roles and tape layouts in the bound; the "
        "harness calls the real solver on consistent diagonally dominant integer systems with 1..40 parameters, random fixed subsets "
        "(incl. all fixed), free parameters no equation mentions, equations over different subsets, interpreter and JIT; Trace_C19 requires: "
        "normal return, keys = free set, every hook-recorded Jacobian entry equals the integer coefficient exactly, an exactly satisfied "
        "start returned bit for bit, small residual and nearness to the unique solution (judged in f64).",
   note="residual/nearness are judged (1e-3 / 1e-2); solves still iterating after 1e5 iterations are abandoned and reported as drift, not judged",
   technique="TLA+ design model (TLC exhaustive) + real solver driven on generated systems with hook-recorded Jacobians + TLA+ trace validation",
   design_ref="DESIGN.md section 3 C19")
CLAIMED["C17"] = dict(
   text="Script.tla gives the denotation of scripts: operators and math functions build the namesake node with operands in source order, "
        "numbers and arrays next to a tree are coerced, comparisons on trees are errors, and shape constructor calls are matched against "
        "the shape table by the stated algorithm (map with defaults, (tree, map), chained, positional in any order, promotion, ordered, "
        "two-tree, reduction); the table is reflected from the real crate at check time. TLC checks the matching laws and enumerates "
        "scripts; each runs in the real engine; Trace_C17 recomputes the denotation from the recorded syntax tree and requires the engine's "
        "tree to equal, node for node, the tree built by the corresponding Rust calls (and the model's own term when no shape is involved).",
   note="dyadic numbers and coordinate axes only; rejections other than tree comparisons are reported as drift; positional `plane(..)` shape forms excluded (name shared with the Plane value constructor)",
   technique="TLA+ denotational model (TLC: laws + enumeration) + TLC-generated scripts replayed into the real engine + TLA+ trace validation (structural equality)",
   design_ref="DESIGN.md section 3 C17")
CLAIMED["C08"] = dict(
   text="Mdc.tla recomputes the manifold-DC tables by the build-script algorithm (all 256 masks) and states the topology-safety test of "
        "cell collapsing; Mesh.tla transcribes leaf classification, collapsing (every resolution of the numeric decision) and the dual "
        "walk (cell / face / edge, deepest-leaf rule, winding): TLC checks closed oriented 2-manifoldness over all explored sign fields and "
        "that, without collapsing, the mesh is manifold exactly when no checkerboard face is shared by two single-vertex cells; every "
        "sign field of the bound is replayed into the real mesher (union of spheres), and random shapes (CSG, cones / cylinders on grid "
        "lines, lattice-hugging slabs) are meshed at depths 1..6 with transforms, both backends and 0/N threads; Trace_C08 decides on the "
        "recorded triangles: valid indices, finite coordinates, no degenerate triangle, every directed edge once and its reverse once, every "
        "hook-recorded collapse satisfies Mdc!Collapsible, and the judged volume clause (which also fixes the global orientation).",
   note="volume / orientation judged in f64 with tolerance K x (area x cell + 4 cell^3); per-triangle outwardness only on the model; known finding: shared ambiguous face",
   technique="TLA+ design models (TLC exhaustive) + TLC-generated sign fields replayed into the real mesher + TLA+ trace validation incl. collapse hook events",
   design_ref="DESIGN.md section 3 C08")
NOT_YET = {}
props = [json.loads(l) for l in open(os.path.join(ROOT, "properties.jsonl"))]
m = {
 "version": 1,
 "setup_cmd": "bin/vcheck --setup",
 "hooks": {
   "guard": "fidget_verif",
   "enable": "RUSTFLAGS=\"--cfg fidget_verif --check-cfg cfg(fidget_verif)\" (set in /verif/harness/.cargo/config.toml; never in /repo)",
   "baseline_off_cmd": "cd /repo && cargo nextest run --workspace --no-fail-fast --test-threads 8 --offline || cargo test --workspace --no-fail-fast --offline",
   "source_commits": ["16ce250", "849e604", "9be9fb2", "70c2606", "c3eb3a3", "364e751", "3e8c7e0", "f1682f1", "c0263df"],
   "add_only": True,
 },
 "engines": [{"name": "vcheck", "path": "bin/vcheck", "serves_properties": sorted(CLAIMED),
              "kind_free_text": "python runner: TLC design models (S), TLC-generated behaviours replayed into the real crates by the Rust harness (R), TLA+ trace validation of the recorded observations (T)"}],
 "checks": [],
 "notes": "See DESIGN.md. Every verdict is taken by a TLA+ trace specification (spec/Trace_*.tla) over observations recorded from the real code.",
 "not_applicable": [],
}
for p in props:
    i = p["id"]
    if i in CLAIMED:
        c = CLAIMED[i]
        m["checks"].append({
          "property_id": i, "quick_cmd": "bin/vcheck %s quick" % i, "thorough_cmd": "bin/vcheck %s thorough" % i,
          "evidence_file": "evidence/%s.json" % i, "replay_cmd_template": "bin/vcheck %s --replay {path}" % i,
          "engine": "vcheck",
          "level_claimed": {"category": "model_checking", "text": c["text"], "design_ref": c["design_ref"]},
          "level_note": c["note"], "technique": c["technique"]})
    else:
        m["not_applicable"].append({"property_id": i, "reason": NOT_YET.get(i, "check not built yet in this round (planned in DESIGN.md section 3); not claimed rather than shipped unverified")})
json.dump(m, open(os.path.join(ROOT, "MANIFEST.json"), "w"), indent=1)
print("claimed:", sorted(CLAIMED))
