"""vcheck - runner for the TLA+ model-based checks of mkeeter/fidget.

  vcheck --setup                 build the harness, parse every spec module
  vcheck <Cxx> quick|thorough    run the check, write evidence/<Cxx>.json
  vcheck <Cxx> --replay <path>   re-run the trace specification on a stored replay file
  vcheck --selftest              demonstrate the binding (corrupted traces are rejected)

Exit status: 0 property held on everything explored (KNOWN-FINDING lines allowed),
1 with a line "VIOLATION property=<id> replay=<path>", 2 tool error / timeout.
"""
import json, os, re, subprocess, sys, time, shutil, glob

ROOT = os.path.dirname(os.path.dirname(os.path.abspath(__file__)))
SPEC = os.path.join(ROOT, "spec")
HARNESS = os.path.join(ROOT, "harness")
BIN = os.path.join(HARNESS, "target", "release")
WORK = os.environ.get("VERIF_WORK") or os.path.join(ROOT, "work")      # VERIF_WORK: a second lane next to a running one



class ToolError(Exception):
    pass


def log(*a):
    print("[vcheck]", *a, flush=True)


def sh(cmd, timeout, cwd=None, env=None, out=None):
    e = dict(os.environ)
    e["CARGO_NET_OFFLINE"] = "true"
    if env:
        e.update(env)
    t0 = time.time()
    # own process group: on a timeout the whole tree (tlapm's provers, TLC's JVM) is killed, not only the child
    f = open(out, "w") if out else None
    p = subprocess.Popen(cmd, cwd=cwd, env=e, stdout=f if out else subprocess.PIPE, stderr=subprocess.STDOUT,
                         start_new_session=True)
    try:
        so, _ = p.communicate(timeout=timeout)
        text = "" if out else so.decode("utf-8", "replace")
    except subprocess.TimeoutExpired:
        try:
            os.killpg(p.pid, 9)
        except OSError:
            pass
        p.wait()
        raise ToolError("timeout after %ss: %s" % (timeout, " ".join(cmd)[:200]))
    finally:
        if f:
            f.close()
    return p.returncode, text, time.time() - t0


def build_harness():
    rc, text, dt = sh(["cargo", "build", "--release", "--offline"], 3000, cwd=HARNESS)
    if rc != 0:
        sys.stdout.write(text[-6000:])
        raise ToolError("harness build failed (does /repo still compile?)")
    log("harness built in %.0fs" % dt)


def tlc(module, cfg, workdir, workers=8, timeout=1500, env=None, coverage=False, extra=None, out=None, heap=None):
    meta = os.path.join(workdir, "meta_" + os.path.basename(cfg).replace(".cfg", ""))
    shutil.rmtree(meta, ignore_errors=True)
    cmd = ["tlc", "-workers", str(workers), "-metadir", meta, "-cleanup", "-noGenerateSpecTE"]
    if coverage:
        cmd += ["-coverage", "1"]
    if extra:
        cmd += extra
    cmd += ["-config", os.path.join(SPEC, cfg), os.path.join(SPEC, module + ".tla")]
    e = {"JAVA_TOOL_OPTIONS": "-Xss1g" + (" -Xmx%s" % heap if heap else "")}
    if env:
        e.update(env)
    rc, text, dt = sh(cmd, timeout, cwd=workdir, env=e, out=out)
    shutil.rmtree(meta, ignore_errors=True)
    return rc, text, dt



def prove(module, workdir, timeout=900):
    """S (unbounded): a TLAPS proof under spec/proofs, checked by tlapm in a scratch copy."""
    d = os.path.join(workdir, "tlaps")
    shutil.rmtree(d, ignore_errors=True)
    os.makedirs(d)
    shutil.copy(os.path.join(SPEC, "proofs", module + ".tla"), d)
    rc, text, dt = sh(["tlapm", "--threads", "8", module + ".tla"], timeout, cwd=d)
    m = re.search(r"All (\d+) obligations? proved", text)
    shutil.rmtree(d, ignore_errors=True)
    if rc != 0 or not m:
        sys.stdout.write(text[-3000:])
        raise ToolError("TLAPS proof %s did not go through" % module)
    log("S %s: %s obligations proved by tlapm, %.0fs" % (module, m.group(1), dt))
    return {"module": "proofs/" + module, "cfg": "tlapm", "states": 0, "transitions": 0, "obligations": int(m.group(1))}

def parse_counts(text):
    m = re.search(r"(\d+) states generated, (\d+) distinct states found", text)
    if not m:
        return None
    return int(m.group(1)), int(m.group(2))


_SRC = {}
def _src(module, line, c0, c1):
    if module not in _SRC:
        for d in (SPEC, os.path.join(SPEC, "proofs")):
            f = os.path.join(d, module + ".tla")
            if os.path.exists(f):
                _SRC[module] = open(f).read().splitlines()
                break
        else:
            _SRC[module] = []
    L = _SRC[module]
    return L[line - 1][c0 - 1:c1].strip() if 0 < line <= len(L) else ""


def never_evaluated(text):
    """expressions of the specification that TLC (-coverage 1) never evaluated: `line a, col b to line c, col d of module M: 0`"""
    out = []
    seen = set()
    for m in re.finditer(r"line (\d+), col (\d+) to line (\d+), col (\d+) of module (\w+)>?: 0(?::0)?\s*$", text, re.M):
        a, b, c, d, mod = int(m.group(1)), int(m.group(2)), int(m.group(3)), int(m.group(4)), m.group(5)
        key = (mod, a, b, c, d)
        if key in seen:
            continue
        seen.add(key)
        out.append("%s:%d:%d  %s" % (mod, a, b, _src(mod, a, b, d if c == a else 200)[:100]))
    return out


def model_check(module, cfg, workdir, workers=8, timeout=1500, coverage=False):
    """S: exhaustive run of a design model. A failure here is a defect of the
    specification (tool error), never a verdict about the code."""
    rc, text, dt = tlc(module, cfg, workdir, workers=workers, timeout=timeout, coverage=coverage)
    c = parse_counts(text)
    if rc != 0 or c is None or "Model checking completed. No error has been found." not in text:
        sys.stdout.write(text[-4000:])
        raise ToolError("design model %s/%s failed (rc=%s)" % (module, cfg, rc))
    log("S %s %s: %d distinct states, %d generated, %.0fs" % (module, cfg, c[1], c[0], dt))
    return {"module": module, "cfg": cfg, "states": c[1], "transitions": c[0], "wall_s": round(dt, 1)}


def generate(module, cfg, workdir, outfile, workers=4, timeout=900, extra=None):
    """R: TLC emits behaviours (programs, histories, event sequences) as JSON lines."""
    rc, text, dt = tlc(module, cfg, workdir, workers=workers, timeout=timeout, out=outfile, extra=extra)
    with open(outfile) as f:
        text = f.read()
    if rc != 0 and "Model checking completed" not in text and "Finished in" not in text:
        sys.stdout.write(text[-3000:])
        raise ToolError("generator %s/%s failed" % (module, cfg))
    n = text.count('<<"PROG"') + text.count('<<"GEN"')
    c = parse_counts(text)
    log("R %s %s: %d behaviours emitted, %.0fs" % (module, cfg, n, dt))
    return {"module": module, "cfg": cfg, "behaviours": n, "states": c[1] if c else 0, "transitions": c[0] if c else 0}


def record(binname, args, workdir, timeout=1500, env=None):
    """Runs a harness recorder against the real crates. Returns (rc, text)."""
    rc, text, dt = sh([os.path.join(BIN, binname)] + args, timeout, cwd=workdir, env=env)
    log("harness %s: rc=%d %.0fs %s" % (binname, rc, dt, text.strip().splitlines()[-1][:160] if text.strip() else ""))
    return rc, text


REJECT_RE = re.compile(r'<<"REJECT", (-?\d+), \{(.*?)\}>>')


def validate(trace_module, tracefile, workdir, timeout=1500, cfg="Trace.cfg", heap="6g", parallel=1):
    """T: trace validation of recorded observations. Returns (lines, rejects{id: [clauses]}).
    With parallel > 1 the trace is cut into that many chunks validated by concurrent TLC runs
    (stateless trace specifications only: every line is judged on its own)."""
    nlines = sum(1 for _ in open(tracefile))
    if nlines == 0:
        raise ToolError("empty trace " + tracefile)
    if parallel != 0 and nlines > 300000:
        # very long traces of stateless trace specifications are cut into pieces of about 150 000 lines
        # (pass parallel=0 for a stateful specification, which must see the whole trace)
        parallel = max(parallel, (nlines + 149999) // 150000)
    if parallel == 0:
        parallel = 1
    if parallel > 1 and nlines >= 4 * parallel:
        import concurrent.futures
        lines = open(tracefile).readlines()
        per = (nlines + parallel - 1) // parallel
        chunks = []
        for k in range(parallel):
            part = lines[k * per:(k + 1) * per]
            if not part:
                continue
            d = os.path.join(workdir, "chunk%d" % k)
            os.makedirs(d, exist_ok=True)
            path = os.path.join(d, "trace.ndjson")
            with open(path, "w") as f:
                f.writelines(part)
            chunks.append((d, path))
        t0 = time.time()
        with concurrent.futures.ThreadPoolExecutor(max_workers=min(parallel, 8)) as ex:
            results = list(ex.map(lambda c: validate(trace_module, c[1], c[0], timeout=timeout, cfg=cfg, heap="3g", parallel=0), chunks))
        rejects = {}
        for _, r in results:
            rejects.update(r)
        for d, _ in chunks:
            shutil.rmtree(d, ignore_errors=True)
        log("T %s: %d lines validated in %d parallel chunks, %d rejected, %.0fs" % (trace_module, nlines, len(chunks), len(rejects), time.time() - t0))
        return nlines, rejects
    rc, text, dt = tlc(trace_module, cfg, workdir, workers=1, timeout=timeout,
                       env={"TRACE": tracefile,
                            "JAVA_TOOL_OPTIONS": "-Xss1g -Xmx%s -Dtlc2.tool.queue.IStateQueue=StateDeque" % heap})
    rejects = {}
    for m in REJECT_RE.finditer(text):
        rejects.setdefault(int(m.group(1)), set()).update(x.strip().strip('"') for x in m.group(2).split(",") if x.strip())
    c = parse_counts(text)
    if rc != 0 or "UNCONSUMED" in text or c is None or c[1] != nlines + 1 or "Model checking completed. No error has been found." not in text:
        sys.stdout.write(text[-5000:])
        raise ToolError("trace validation %s did not consume the whole trace (rc=%s, states=%s, lines=%d)" % (trace_module, rc, c, nlines))
    drift = len(re.findall(r'<<"DRIFT", (-?\d+)', text))
    if drift:
        print("SPEC-DRIFT property=%s %d observations disagree with the implementation-shaped model (not a violation)" % (trace_module.replace("Trace_", ""), drift))
    log("T %s: %d lines validated, %d rejected, %.0fs" % (trace_module, nlines, len(rejects), dt))
    return nlines, {k: sorted(v) for k, v in rejects.items()}


def load_known():
    p = os.path.join(ROOT, "known_findings.json")
    if not os.path.exists(p):
        return []
    return json.load(open(p)).get("findings", [])


class Result:
    def __init__(self, prop, tier, seed):
        self.prop, self.tier, self.seed = prop, tier, seed
        self.models, self.gens = [], []
        self.validated = 0
        self.evaluations = 0
        self.samples = []
        self.violations = []   # (signature, replay path)
        self.known = []
        self.extra = {}
        self.assumptions = []
        self.t0 = time.time()
        # replay files of an earlier run with the same tier and seed are stale
        for f in glob.glob(os.path.join(ROOT, "replays", prop, "%s_seed%d_*" % (tier, seed))):
            try:
                os.remove(f)
            except OSError:
                pass

    def add_rejects(self, tracefile, rejects, signature, keyfield="id", describe=None):
        """Map rejected ids back to their recorded lines, store replay files, classify."""
        if not rejects:
            return
        known = [k for k in load_known() if k.get("property") == self.prop and k.get("status") == "known"]
        rdir = os.path.join(ROOT, "replays", self.prop)
        os.makedirs(rdir, exist_ok=True)
        shown = 0
        for line in open(tracefile):
            try:
                r = json.loads(line)
            except Exception:
                continue
            i = r.get(keyfield)
            if i in rejects:
                sig = signature(r, rejects[i])
                path = os.path.join(rdir, "%s_seed%d_%s.ndjson" % (self.tier, self.seed, i))
                with open(path, "w") as f:
                    f.write(line)
                hit = next((k for k in known if re.search(k["signature"], sig)), None)
                if hit:
                    self.known.append((hit["signature"], sig))
                else:
                    self.violations.append((sig, path))
                    if shown < 5:
                        log("rejected case %s: %s %s" % (i, sig, describe(r) if describe else ""))
                        shown += 1

    def finish(self, level_rule, exhaustive=False):
        cov = {
            "states": sum(m["states"] for m in self.models) + sum(g.get("states", 0) for g in self.gens),
            "transitions": sum(m["transitions"] for m in self.models) + sum(g.get("transitions", 0) for g in self.gens),
            "traces_validated_against_impl": self.validated,
            "samples": self.samples[:6] or ["(none)"],
            "evaluations": self.evaluations,
            "rule": level_rule,
            "models": self.models,
            "generators": self.gens,
            "exhaustive": exhaustive,
        }
        cov.update(self.extra)
        ev = {
            "property_id": self.prop, "tier": self.tier, "seed": self.seed, "level": "model_checking",
            "coverage": cov, "assumptions": self.assumptions, "wall_s": round(time.time() - self.t0, 1),
            "violations": len(self.violations),
        }
        os.makedirs(os.path.join(ROOT, "evidence"), exist_ok=True)
        with open(os.path.join(ROOT, "evidence", self.prop + ".json"), "w") as f:
            json.dump(ev, f, indent=1)
        seen = set()
        for k, sig in self.known:
            if k not in seen:
                seen.add(k)
                print("KNOWN-FINDING: property=%s %s (%d cases, e.g. %s)" % (self.prop, k, sum(1 for x in self.known if x[0] == k), sig))
        if self.violations:
            seen = set()
            for sig, path in self.violations:
                if sig in seen:
                    continue
                seen.add(sig)
                print("VIOLATION property=%s replay=%s  # %s" % (self.prop, path, sig))
                if len(seen) >= 12:
                    break
            log("%d rejected cases in total" % len(self.violations))
            return 1
        log("%s %s: held on everything explored (%d observations validated, %.0fs)" % (self.prop, self.tier, self.validated, time.time() - self.t0))
        return 0


def workdir(prop):
    d = os.path.join(WORK, prop)
    os.makedirs(d, exist_ok=True)
    return d


